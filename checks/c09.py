#!/usr/bin/env python3
"""C09 -- invalid or unsatisfiable input fails loudly (non-zero exit + diagnostic), never a crash; exit status 0
only if every configured mock was generated and written.

1. TLC explores spec/Pipeline.tla over the C09 worlds: every invalid-input class x every configuration level it
   can be written at x first/last package (sorted order) x alone/among valid packages; the code-shaped layer says in
   which phase of Run() the class is detected (load, init, parse, select, resolve, collect, a stage of the per-file
   pipeline, the missing-interface accounting), the contract says exit != 0 for each and "exit = 0 only if every
   configured mock written".  ImplMeetsContract is checked (no known deviation at present: D16 was repaired).
2. Every exported world (with the contract's expectation) is materialised and run through the binary built from the
   working tree: exit status, diagnostic, Go panic scan, configured mocks present.  The model's prediction (BEH) for
   the observed file order is compared too -- a disagreement that the contract accepts is drift.
3. spec/PipelineValid.tla enumerates valid-but-unusual inputs (function-local types incl. shadowing and blank names,
   the alias family -- alias of an interface literal / instantiated generic / alias / foreign or predeclared
   interface / struct, func, pointer, map, slice -- and defined types over instances, build-tagged / ignored /
   test-only files, packages without interfaces, go.mod spellings, rare syntax; every kind under every selection mode
   (all: true / by name / present but not selected); exhaustive short declaration sequences + random longer ones):
   each must exit 0, not panic, and mock every declaration the contract marks as a package-level interface.
   The schema-rejected-data class is injected at each level WHILE the other levels carry conforming data for the
   same key, including values of another JSON type that print the same (false / "false", "1" / 1).
   spec/PipelineConflict.tla enumerates pairs of mocks that land in one output file with pkgname / template written at any
   of the four levels; the contract resolves the levels and decides conflict (non-zero exit) or not (exit 0, both written).
4. Every hook trace is validated by TLC against spec/PipelineTrace.tla, and the complete event stream of a sample (quick)
   / of all runs (thorough) against the root spec/MockeryTrace.tla.

COVERAGE TABLE (statement / quantifier dimension -> explored by -> still a single point or absent)
  listed interface missing      4 spellings (typo, case, suffix, trailing space), with all: true / listed / both, in one or
                                two packages, nonexistent package with a listed interface          -> absent: missing in a
                                package discovered by recursive: true
  package fails to load         does not exist (4 path forms) x all / regex / listed; type error (interface unusable /
                                function body / initialiser / duplicate), parse error x4, import error (missing package,
                                missing symbol, IMPORT CYCLE, foreign internal package); each COMBINED with 7 unusual-but-
                                valid traits of the same package; untidy-but-resolvable module  -> absent: cgo packages
                                (statement says cgo-free), errors only in a dependency, GOFLAGS / GOOS from the environment
  unknown template / formatter  every level, 3 formatter spellings                                 -> single point: one name
  unknown key                   every level + package / interface struct level, 4 spellings
  config value classes          map-valued parameters (replace-type at 3 depths, template-data, _anchors) at every level x
                                {null, {}, map, [null]} WHILE the levels above / below hold a non-empty value for the same key;
                                EVERY position of the config tree (66, incl. every schema key at every level and the nested
                                replace-type map) x 13 YAML value kinds; the file as text (15 shapes: tabs, duplicate keys,
                                empty, garbage, BOM, CRLF, aliases, multi-document, deep nesting, NUL, huge scalar); the
                                command line (8 shapes): never a panic / hang, exit status open unless the statement or the
                                usage text decides it; null / empty sections and _anchors as VALID worlds
                                                                    -> absent: MOCKERY_* environment values of odd types
  invalid regular expression    include / exclude / exclude-subpkg x root / package x 4 expressions, only where in effect
  cyclic templated value        in effect at every level (2 cycles, also with noop so a truncated value would surface);
                                SHADOWED at root / package / interface (decided only at package level)
  schema-rejected data          one file violating a custom schema while the other files share template + schema with
                                require-template-schema-exists: false (several runs: order-dependent state);
                                every level while the other levels conform, look-alikes of another JSON type, both built-in
                                templates; custom schema (C10 worlds)
  conflicting output file       source packages (also same NAME + same interface name), pkgname (also case only), template
                                (also two custom URLs); root / package resp. interface / entry level; the valid look-alikes
                                TWO MOCKS IN ONE FILE as a resolution problem (spec/PipelineConflict.tla): two configs entries of
                                one interface / two interfaces of one package / interfaces of two packages x pkgname / template x
                                the value (unset / a / b) at each of the four levels for each mock (most specific wins, documented
                                default) x same / different struct name x the level that carries dir + filename; conflict-free
                                look-alikes must exit 0 with both mocks written   -> sampled per (relation, parameter, deciding
                                level pair, differs?) stratum; three mocks in one file absent
  never a panic: Go source      73 declaration kinds (local / alias / generic / build-tag / generated-header / //line
                                families, go1.23 range-over-func, RECURSIVE TYPE SHAPES: self- and mutually-referential
                                type-parameter constraints, recursive named types in signatures, self-referential interfaces)
                                x 3 selection modes, sequences, 300 interfaces in one file, 150 files, 40 packages; a crash is a
                                panic, a runtime fatal error or death by signal    -> sampled, not arbitrary programs
  never a panic: go.mod         10 module-line spellings, 17 nested go.mod shapes in the output directory, module's own
                                go.mod without module directive                    -> absent: go.work in effect, vendor/
  exit 0 only if all written    every run: configured mocks present (struct, and for same-name packages the own method);
                                Exit / Write accounting by the trace specifications
"""
import json
import os
import re
import shutil
import sys
import threading
import time

sys.path.insert(0, os.path.join(os.path.dirname(os.path.abspath(__file__)), "..", "lib"))
from vlib import MachineryError, main, write_files, REPO, GO_SUM_MOD  # noqa: E402
import pipetrace  # noqa: E402
import runtrace  # noqa: E402

MOD = "example.com/w"
FILES = ["f1", "f2", "f3"]
PKG = {"f1": "pa", "f2": "pb", "f3": "pc"}
IFACES = {"f1": ["A1", "A2"], "f2": ["B1", "B2"], "f3": ["C1", "C2"]}
_dirseq = iter(range(1, 10 ** 9))
_dirlock = threading.Lock()


def newdir(ctx, prefix):
    with _dirlock:
        n = next(_dirseq)
    d = ctx.scratch / f"{prefix}{n}"
    d.mkdir(parents=True)
    return d


def src(pkg, names):
    return (f"package {pkg}\n\nimport \"io\"\n\ntype {names[0]} interface {{\n\tRead(r io.Reader, n int) (string, error)\n}}\n\n"
            f"type {names[1]} interface {{\n\tDo(xs ...string) error\n}}\n\ntype Plain struct{{ X int }}\n")


def base_files():
    files = {}
    for f in FILES:
        p = PKG[f]
        files[f"{p}/src.go"] = src(p, IFACES[f])
        files[f"{p}/sub/s.go"] = f"package sub\n\ntype Sub{p.upper()} interface{{ M() }}\n"
    files["docs/readme.txt"] = "unrelated\n"
    return files


def materialise(d, files, conf, gomod=None):
    (d / "go.mod").write_text(gomod if gomod is not None else GO_SUM_MOD)
    (d / "go.sum").write_bytes((REPO / "go.sum").read_bytes())
    write_files(d, files)
    if conf is not None:
        (d / ".mockery.yml").write_text(conf if isinstance(conf, str) else json.dumps(conf, indent=1))


CUSTOM_TEMPLATE = "// Code generated by a custom template; DO NOT EDIT.\npackage {{.PkgName}}\n\n{{range .Interfaces}}\ntype {{.StructName}} struct{ N int }\n{{end}}\n"
API = {"v1/api/api.go": "package api\n\n// Client of v1.\ntype Client interface{ V1Only() string }\n",
       "v2/api/api.go": "package api\n\n// Client of v2: same package name, same interface name, another method set.\ntype Client interface{ V2Only(n int) error }\n"}


DIAG_SKIP = re.compile(r" (INF|DBG|TRC|WRN) ")


# "never terminates by an unrecovered panic": the Go runtime ends the process by `panic:` + traceback (exit 2), by a FATAL
# ERROR that recover() cannot stop (stack overflow, concurrent map writes, out of memory, deadlock: `fatal error:`,
# `runtime: goroutine stack exceeds`, exit 2 + goroutine dump) or by a signal (SIGSEGV / SIGABRT / SIGKILL: negative status)
CRASH_RE = re.compile(r"^(panic: |fatal error: |runtime: goroutine stack exceeds|runtime: out of memory|goroutine \d+ \[[a-z ,0-9]+\]:$|"
                      r"\[signal SIG[A-Z]+|SIG[A-Z]+: |unexpected fault address)", re.M)


def crashed(r):
    """how the process crashed (None: it did not); a harness timeout is not a crash"""
    if r.timed_out:
        return None
    txt = r.err + "\n" + r.out
    m = CRASH_RE.search(txt)
    if m:
        return "fatal-error" if m.group(1).startswith(("fatal error", "runtime:")) else "panic" if m.group(1).startswith("panic") else "runtime-traceback"
    if r.panicked:
        return "panic"
    if r.code is not None and r.code < 0:
        return f"signal-{-r.code}"
    if r.code not in (0, 1) and re.search(r"^goroutine \d+ \[", txt, re.M):
        return "runtime-traceback"
    return None


def has_diagnostic(r):
    """some output line that is not an informational log line (message wording is not part of the property)"""
    return any(ln.strip() and not DIAG_SKIP.search(ln) for ln in (r.err + "\n" + r.out).splitlines())


# ------------------------------------------------------------------------------------------------ invalid inputs
def choose_input(case, rng):
    fl = case["world"]["fault"]
    return {"layout": rng.choice(["sep", "inpkg"]),
            "listing": {f: rng.choice(["all", "listed", "all+listed"]) for f in FILES},
            "variant": rng.randrange(4), "template": rng.choice(["testify", "matryer"]),
            "class": fl["class"]}


def build_input(root, case, ch):
    """files, config, expected mocks [(relpath, struct)] for one C09 world"""
    w = case["world"]
    fl = w["fault"]
    cls, level, pos, cx = fl["class"], fl["level"], fl["pos"], fl["ctx"]
    victim = None if fl["kind"] != "input" else ("f1" if pos == "first" else "f3")
    files = base_files()
    conf = {"packages": {}, "template": ch["template"]}
    if ch["layout"] == "inpkg":
        conf.update({"dir": "{{.InterfaceDir}}", "filename": "mocks_gen.go", "pkgname": "{{.SrcPackageName}}"})
    else:
        conf.update({"dir": "mocks/{{.SrcPackageName}}", "filename": "mocks.go", "pkgname": "mocks"})
    configured = FILES if (victim is None or cx == "among") else [victim]
    if cls == "conflict-srcpkg" and cx == "alone":
        configured = sorted({victim, "f2"})
    v = ch["variant"]

    def setlevel(pc, ifname, key, val, all_ifaces=False):
        """write key at the fault's level for the victim package; all_ifaces: on every interface (uniform per file)"""
        if level == "root":
            conf[key] = val
        elif level == "pkg":
            pc.setdefault("config", {})[key] = val
        else:
            names = IFACES[victim] if all_ifaces else [ifname]
            for n in names:
                ic = pc.setdefault("interfaces", {}).setdefault(n, {})
                if ic is None:
                    ic = pc["interfaces"][n] = {}
                if level == "iface":
                    ic.setdefault("config", {})[key] = val
                else:
                    ic.setdefault("configs", [{}])[0][key] = val

    expected = []
    also_missing_elsewhere = False
    shadow_root = None
    for f in configured:
        p = PKG[f]
        path = f"{MOD}/{p}"
        listing = ch["listing"][f]
        pc = {}
        if f == victim and level in ("iface", "entry"):
            listing = "listed" if listing == "all" else listing
        if listing != "listed":
            pc["config"] = {"all": True}
        if listing != "all":
            pc["interfaces"] = {n: {} for n in IFACES[f]}
        if f == victim:
            x = IFACES[f][v % 2]
            if cls == "unknown-template":
                setlevel(pc, x, "template", "no-such-template", all_ifaces=True)
            elif cls == "unknown-formatter":
                setlevel(pc, x, "formatter", ["no-such-formatter", "GOFMT", ""][v % 3], all_ifaces=True)
            elif cls == "unknown-key":
                setlevel(pc, x, ["no-such-key", "force_file_write", "dirr", "templatedata"][v], 1)
            elif cls == "unknown-key-pkgstruct":
                pc[["no-such-key", "interface", "configs", "cfg"][v]] = {}
            elif cls == "unknown-key-ifacestruct":
                pc.setdefault("interfaces", {})[x] = {["no-such-key", "config_", "all", "structname"][v]: {}}
            elif cls == "schema-data" and fl.get("feature") == "shared-template-mixed-require":
                pass        # handled below: needs the other packages' configuration as well
            elif cls == "schema-data":
                # rejected data at the fault's level WHILE the less specific levels (and, v3, the sibling interface) carry
                # conforming data -- v1..v3 for the very same key, with a value of another JSON type that prints the same
                bkey, bgood, bbad = ("unroll-variadic", False, "false") if ch["template"] == "testify" else ("skip-ensure", False, "false")
                key, good, bad = [(bkey, bgood, None), (bkey, bgood, bbad), ("mock-build-tags", "1", 1), (bkey, True, "true")][v]
                setlevel(pc, x, "template-data", {"bogus-key": 1} if v == 0 else {key: bad})
                order_ = ["root", "pkg", "iface", "entry"]
                for lv in order_[:order_.index(level)]:
                    if lv == "root":
                        conf["template-data"] = {key: good}
                    elif lv == "pkg":
                        pc.setdefault("config", {})["template-data"] = {key: good}
                    else:
                        pc["interfaces"][x].setdefault("config", {})["template-data"] = {key: good}
                if v == 3 and level in ("iface", "entry"):
                    y = [n for n in IFACES[f] if n != x][0]
                    if pc["interfaces"].get(y) is None:
                        pc["interfaces"][y] = {}
                    pc["interfaces"][y].setdefault("config", {})["template-data"] = {key: good}
            elif cls == "cyclic":
                if v >= 2:
                    conf["formatter"] = "noop"      # a silently truncated value would then reach the file system
                if v % 2 == 0:
                    setlevel(pc, x, "structname", "X{{.StructName}}")
                else:
                    setlevel(pc, x, "structname", "{{.StructName}}Y")
                    setlevel(pc, x, "filename", "m_{{.StructName}}.go")
            elif cls == "include-regex":
                pc.pop("interfaces", None)
                pc["config"] = {}
                if v % 2:
                    pc["interfaces"] = {IFACES[f][0]: {}}        # one listed, the other reaches the regex
                setlevel(pc, x, "include-interface-regex", ["(", "[a-", "*A", "A{2,1}"][v])
            elif cls == "exclude-regex":
                pc.pop("interfaces", None)
                pc["config"] = {"include-interface-regex": ".*"}
                setlevel(pc, x, "exclude-interface-regex", ["(", "[a-", "*A", "A{2,1}"][v])
            elif cls == "subpkg-regex":
                pc.setdefault("config", {}).update({"recursive": True, "all": True})
                setlevel(pc, x, "exclude-subpkg-regex", [["("], ["ok", "[a-"], ["*x"], ["sub$", "("]][v])
            elif cls == "missing-iface":
                pc.setdefault("interfaces", {})[["NoSuchInterface", IFACES[f][0].lower(), "Plain_", IFACES[f][0] + " "][v]] = {}
                also_missing_elsewhere = v >= 2 and cx == "among"
            elif cls in ("pkg-missing-all", "pkg-missing-regex", "pkg-missing-listed"):
                path = f"{MOD}/" + ("p0missing" if pos == "first" else "pzmissing") + ["", "/deeper", "", "/x/y"][v]
                if v == 2:
                    path = "github.com/nowhere-verif/nomodule" + ("0" if pos == "first" else "z")
                pc = {"config": {"all": True}} if cls == "pkg-missing-all" else \
                     {"config": {"include-interface-regex": ".*"}} if cls == "pkg-missing-regex" else \
                     {"interfaces": {"Ghost": {}}}
            elif cls == "pkg-typeerr":
                # v1, v3: the error sits in a function body / an initialiser, the interfaces themselves stay usable
                files[f"{p}/src.go"] += ["\ntype Broken interface{ M() undefinedType }\n", "\nvar _ int = \"string\"\n",
                                         "\nfunc dup() {}\nfunc dup() {}\n",
                                         "\nfunc brokenBody() int {\n\tvar x int = \"s\"\n\treturn x + undefinedName\n}\n"][v]
            elif cls == "pkg-parseerr":
                files[f"{p}/src.go"] += ["\ntype Broken interface{ M(x int string }\n", "\nfunc (\n", "\n}}}\n", "\ntype = 3\n"][v]
            elif cls == "pkg-importerr":
                if v == 0:      # a package that does not exist
                    files[f"{p}/extra.go"] = f"package {p}\n\nimport _ \"{MOD}/does/not/exist\"\n"
                elif v == 1:    # an existing package without the symbol
                    files[f"{p}/extra.go"] = f"package {p}\n\nimport \"{MOD}/{p}/sub\"\n\nvar _ sub.Missing\n"
                elif v == 2:    # an import cycle: p -> p/sub -> p
                    files[f"{p}/extra.go"] = f"package {p}\n\nimport _ \"{MOD}/{p}/sub\"\n"
                    files[f"{p}/sub/back.go"] = f"package sub\n\nimport _ \"{MOD}/{p}\"\n"
                else:           # an internal package of somebody else
                    files["other/internal/secret/s.go"] = "package secret\n\nconst S = 1\n"
                    files[f"{p}/extra.go"] = f"package {p}\n\nimport _ \"{MOD}/other/internal/secret\"\n"
            elif cls == "cyclic-shadowed":
                # a cyclic value at the fault's level which EVERY level below overrides: no mock uses it
                cyc = {"structname": ["Fake{{.StructName}}", "{{.StructName}}Y"][v % 2]}
                over = {"structname": "Over{{.InterfaceName}}"}
                if v >= 2:      # a second parameter drawn into the cycle
                    cyc["filename"] = "m_{{.StructName}}.go"
                    over["filename"] = conf["filename"]
                if level == "root":
                    conf.update(cyc)
                    shadow_root = over
                elif level == "pkg":
                    pc.setdefault("config", {}).update(cyc)
                    pc["config"].pop("all", None)
                    pc["interfaces"] = {n: ({"config": dict(over)} if v % 2 == 0 else {"configs": [dict(over)]}) for n in IFACES[f]}
                else:
                    pc["interfaces"] = {n: {} for n in IFACES[f]}
                    pc["interfaces"][x] = {"config": dict(cyc), "configs": [dict(over, structname="Over" + x), dict(over, structname="Other" + x)]}
            elif cls == "conflict-srcpkg":
                pass        # handled below (needs two packages)
            elif cls == "conflict-pkgname":
                pc["interfaces"] = {n: {} for n in IFACES[f]}
                base_name = p if ch["layout"] == "inpkg" else "mocks"
                setlevel(pc, x, "pkgname", base_name.capitalize() if fl.get("feature") == "case-only" else "otherpkg")
            elif cls == "conflict-template":
                pc["interfaces"] = {n: {} for n in IFACES[f]}
                if fl.get("feature") == "two-custom-urls":      # two different URLs (of identical files)
                    files["tmpl/one.templ"] = files["tmpl/two.templ"] = CUSTOM_TEMPLATE
                    conf.update({"template": f"file://{root}/tmpl/one.templ", "require-template-schema-exists": False})
                    setlevel(pc, x, "template", ["file://tmpl/two.templ", f"file://{root}/tmpl/two.templ", "file://./tmpl/two.templ", f"file://{root}/tmpl/../tmpl/two.templ"][v])
                else:
                    setlevel(pc, x, "template", "matryer" if ch["template"] == "testify" else "testify")
        conf["packages"][path] = pc
        out = f"{p}/mocks_gen.go" if ch["layout"] == "inpkg" else f"mocks/{p}/mocks.go"
        if not (f == victim and cls.startswith("pkg-missing")):
            expected += [(out, "Mock" + n) for n in IFACES[f]]
        # thorough tier: the output path is occupied by user content (C09 x C10)
        if w["fs0"][f] == "user":
            files[out] = user_content(f, ch["layout"])
        if w["force"][f]:
            conf["force-file-write"] = True
    if cls == "schema-data" and fl.get("feature") == "shared-template-mixed-require":
        # every package uses ONE custom template with ONE schema; only the victim requires the schema and violates it
        files["tmpl/ws.templ"] = CUSTOM_TEMPLATE
        files["tmpl/ws.templ.schema.json"] = json.dumps({"type": "object", "additionalProperties": False, "required": ["need"],
                                                         "properties": {"need": {"type": "string"}}})
        turl = [f"file://{root}/tmpl/ws.templ", "file://tmpl/ws.templ"][v % 2]
        for f in configured:
            pcfg = conf["packages"][f"{MOD}/{PKG[f]}"]
            if f != victim:
                pcfg.setdefault("config", {}).update({"template": turl, "require-template-schema-exists": False, "template-data": {"need": "x"}})
                continue
            x = IFACES[f][v % 2]
            pcfg.setdefault("config", {}).update({"template": turl, "template-data": {"need": "x"}})
            if v >= 2:
                pcfg["config"]["require-template-schema-exists"] = True        # else: the default (true)
            bad = {"other": 1}
            if level == "pkg":
                pcfg["config"]["template-data"] = bad
            else:
                pcfg["interfaces"] = {n: (pcfg.get("interfaces") or {}).get(n) or {} for n in IFACES[f]}
                if level == "iface":
                    pcfg["interfaces"][x].setdefault("config", {})["template-data"] = bad
                else:
                    pcfg["interfaces"][x].setdefault("configs", [{}])[0]["template-data"] = bad
    if cls == "cyclic-shadowed":     # the overriding struct names are what a successful run writes
        vx = IFACES[victim][v % 2]
        def over_names(path_struct):
            rel, st = path_struct
            n = st[len("Mock"):]
            mine = n in IFACES[victim]
            if level == "root" or (level == "pkg" and mine):
                return [(rel, "Over" + n)]
            if level == "iface" and n == vx:
                return [(rel, "Over" + n), (rel, "Other" + n)]
            return [(rel, st)]
        expected = [e for ps in expected for e in over_names(ps)]
    if shadow_root:                  # every configured package overrides the top-level cyclic value
        for pth, pcfg in conf["packages"].items():
            if pcfg is None:
                pcfg = conf["packages"][pth] = {}
            pcfg.setdefault("config", {}).update(shadow_root)
    feature = fl.get("feature", "-")
    if victim is not None and cls in ("pkg-typeerr", "pkg-parseerr", "pkg-importerr") and feature != "-":
        # an unusual-but-valid trait of the very package the fault sits in
        p = PKG[victim]
        files.update({
            "goos-file": {f"{p}/x_plan9.go": f"package {p}\n\nconst OnPlan9 = true\n"},
            "tools-tag-file": {f"{p}/tools.go": f"//go:build tools\n\npackage {p}\n\nimport _ \"fmt\"\n"},
            "ignored-file": {f"{p}/gen.go": "//go:build ignore\n\npackage main\n\nfunc main() {}\n"},
            "test-file": {f"{p}/x_test.go": f"package {p}\n\nvar inTest = 1\n", f"{p}/y_test.go": f"package {p}_test\n"},
            "line-directive": {f"{p}/ld.go": f"package {p}\n\n//line elsewhere.y:10\nconst FromY = 1\n"},
            "generated-header": {f"{p}/zz_generated.go": f"// Code generated by some-other-tool. DO NOT EDIT.\n\npackage {p}\n\nconst Gen = 1\n"},
            "cgo-free-generated": {f"{p}/zz_stringer.go": f"// Code generated by \"stringer -type=K\"; DO NOT EDIT.\n\n//go:build !cgo || cgo\n\npackage {p}\n\nconst K = 1\n",
                                   f"{p}/x_windows_arm64.go": f"package {p}\n\nconst Win = 1\n"},
        }[feature])
    if also_missing_elsewhere:       # the same class in a second package
        conf["packages"][f"{MOD}/pb"].setdefault("interfaces", {})["AlsoMissing"] = {}
    if cls == "conflict-srcpkg" and fl.get("feature") == "same-package-name":
        # two source packages that share their package NAME and an interface name, one output file
        files.update(API)
        shared = {"dir": "mocks/shared", "filename": "mocks.go", "pkgname": "mocks"}
        keep = {} if cx == "alone" else {k: pcfg for k, pcfg in conf["packages"].items()}
        for k, pcfg in keep.items():
            if level == "root":
                pcfg.setdefault("config", {}).update({"dir": "mocks/own/{{.SrcPackageName}}", "filename": "mocks.go", "pkgname": "mocks"})
        conf["packages"] = keep
        for k, sel in ((f"{MOD}/v1/api", v % 2), (f"{MOD}/v2/api", v // 2)):
            conf["packages"][k] = {"config": {"all": True}} if sel else {"interfaces": {"Client": {}}}
            if level != "root":
                conf["packages"][k].setdefault("config", {}).update(shared)
        if level == "root":
            conf.update(shared)
    elif cls == "conflict-srcpkg":
        partner = "f2"
        shared = {"dir": "mocks/shared", "filename": "mocks.go", "pkgname": "mocks"}
        if level == "root":
            conf.update(shared)
        else:
            for f in (victim, partner):
                conf["packages"][f"{MOD}/{PKG[f]}"].setdefault("config", {}).update(shared)
    return files, conf, expected


def user_content(f, layout):
    pkgname = PKG[f] if layout == "inpkg" else "mocks"
    return f"package {pkgname}\n\n// USER CONTENT at the output path of {f}\nvar UserMarker_{f} = 1\n"


def replay_input(ctx, item, runs, runlock):
    case, ch = item["case"], item["choices"]
    w, exp = case["world"], case["expect"]
    fl = w["fault"]
    d = newdir(ctx, "i")
    files, conf, expected = build_input(d, case, ch)
    env = None
    modfiles = None
    if fl["class"] == "untidy-module":
        victim_pkg = PKG["f1" if fl["pos"] == "first" else "f3"]
        extra, gomod, gosum = pipetrace.untidy_module(fl["feature"], victim_pkg, GO_SUM_MOD, (REPO / "go.sum").read_text())
        files.update(extra)
        materialise(d, files, conf, gomod)
        (d / "go.sum").write_text(gosum)
        env = {"GOFLAGS": ""}        # the go command's default -mod=readonly, as a user runs it
        modfiles = {n: (d / n).read_bytes() for n in ("go.mod", "go.sum")}
    else:
        materialise(d, files, conf)
    r = pipetrace.run(ctx, d, env=env)
    with runlock:
        runs.append((r, item["id"]))
    if r.timed_out:
        raise MachineryError(f"mockery timed out on case {item['id']}")
    sig0 = {"class": fl["class"], "level": fl["level"], "pos": fl["pos"], "ctx": fl["ctx"], "feature": fl.get("feature", "-")}
    detail = {"case": case, "choices": ch, "config": conf, "run": r.brief()}
    out = []
    if crashed(r):
        out.append((dict(sig0, kind="panic", how=crashed(r)), detail))
    if modfiles:
        for n, b in modfiles.items():
            if not (d / n).is_file() or (d / n).read_bytes() != b:
                out.append((dict(sig0, kind="frame", what=n + "-rewritten"), dict(detail, path=n)))
    got = "zero" if r.code == 0 else "nonzero"
    if exp["exit"] != "any" and got != exp["exit"]:
        out.append((dict(sig0, kind="exit-status", expected=exp["exit"], got=got), detail))
    if r.code != 0 and not has_diagnostic(r):
        out.append((dict(sig0, kind="no-diagnostic"), detail))
    written = []
    if r.code == 0:
        for rel, struct in expected:
            p = d / rel
            ok = p.is_file() and re.search(r"\btype\s+" + re.escape(struct) + r"\b", p.read_text(errors="replace")) is not None
            written.append(ok)
            if not ok:
                out.append((dict(sig0, kind="exit-zero-but-mock-not-written"), dict(detail, missing_mock=[rel, struct])))
                break
    for f in FILES:
        if w["fs0"][f] == "user" and exp["final"][f] == ["old"]:
            rel = f"{PKG[f]}/mocks_gen.go" if ch["layout"] == "inpkg" else f"mocks/{PKG[f]}/mocks.go"
            p = d / rel
            if not p.is_file() or p.read_text(errors="replace") != user_content(f, ch["layout"]):
                out.append((dict(sig0, kind="final-state", init="user", force=bool(w["force"][f])), dict(detail, path=rel)))
    if not out and not os.environ.get("VERIF_KEEP"):
        shutil.rmtree(d, ignore_errors=True)
    order = [e["file"] for e in r.trace if e.get("ev") == "FileBegin"]
    nwritten = sum(1 for e in r.trace if e.get("ev") == "Write")
    return out, {"id": item["id"], "fault": {k: fl.get(k, "-") for k in ("class", "level", "pos", "ctx", "feature")}, "exit": r.code, "expected": exp["exit"],
                 "files_begun": len(order), "files_written": nwritten, "diagnostic_tail": (r.err + r.out).strip().splitlines()[-1:]}


# ------------------------------------------------------------------------------------------------ valid-but-unusual inputs
RARE = '''package ps

import (
	"errors"
	"fmt"
	_ "unsafe"
)

type (
	weekday int
	tagged  struct {
		A int    `json:"a,omitempty" yaml:"a"`
		B string "plain tag"
		_ [0]func()
	}
)

const (
	monday weekday = iota + 1
	tuesday
	_
	thursday
)

var (
	raw     = `back\\quoted "text" with //comment and /* block */`
	runes   = []rune{'\\'', '\\x00', '\\u00e9', '\\U0001F600'}
	complexN = 1e3 + 0x1p-2i
	fn      = (*tagged).String
	arr     = [...]int{2: 1, 0: 3}
	mm      = map[struct{ X, Y int }]func(...int) (int, error){}
)

func (t *tagged) String() string { return fmt.Sprint(t.A, t.B) }

func rare%(i)d(xs ...int) (n int, err error) {
	defer func() {
		if r := recover(); r != nil {
			err = errors.New(fmt.Sprint(r))
		}
	}()
outer:
	for i := range xs {
		switch x := any(xs[i]).(type) {
		case int:
			if x < 0 {
				continue outer
			}
			fallthroughTarget := x
			_ = fallthroughTarget
		default:
			break outer
		}
		select {
		default:
		}
		goto done
	}
done:
	var iface interface {
		fmt.Stringer
		Extra() int
	}
	_ = iface
	ch := make(chan<- func() <-chan int, 1)
	_ = ch
	return len(xs[:0:0]), nil
}

// T%(i)d is the one package-level interface of this file.
type T%(i)d interface {
	M(struct{ X int }, [2][]map[string]*int, func(...any) (_ int, _ error)) (r0 <-chan struct{}, _ error)
}
'''


def decl_text(kind, i):
    """Go text for one declaration kind -> (main-file text, extra files, imports needed, mock name or None)"""
    T = f"T{i}"
    extra = {}
    imports = set()
    mock = None
    if kind == "iface":
        txt, mock = f"type {T} interface{{ M{i}(x int) string }}", T
    elif kind == "generic":
        txt, mock = f"type {T}[K comparable, V any] interface{{ Get(k K) (V, bool) }}", T
    elif kind == "grouped":
        txt, mock = f"type (\n\t{T} interface{{ M() }}\n\t{T}Aux struct{{ N int }}\n)", T
    elif kind == "embed-std":
        txt, mock = f"type {T} interface {{\n\tio.Reader\n\tfmt.Stringer\n}}", T
        imports |= {"io", "fmt"}
    elif kind == "embed-local":
        txt, mock = f"type {T} interface {{\n\tAnchor\n\tExtra{i}()\n}}", T
    elif kind == "embed-inst":
        txt, mock = f"type {T} interface {{\n\tGenBase[string]\n}}", T
    elif kind == "empty":
        txt, mock = f"type {T} interface{{}}", T
    elif kind == "unexported":
        txt, mock = f"type t{i} interface{{ M() }}", f"t{i}"
    elif kind == "anon-params":
        txt, mock = f"type {T} interface {{\n\tM(int, string) (bool, error)\n\tV(...interface{{}})\n}}", T
    elif kind == "chan-func-params":
        txt, mock = f"type {T} interface{{ M(c <-chan int, f func(int) error) (chan<- string, func()) }}", T
    elif kind == "sort-like":
        txt, mock = f"type {T} interface {{\n\tLen() int\n\tLess(i, j int) bool\n\tSwap(i, j int)\n}}", T
    elif kind == "unicode":
        txt, mock = f"type Té{i} interface{{ Mé(ñ int) string }}", f"Té{i}"
    elif kind == "line-directive":
        txt, mock = "", T
        extra[f"ps/ld{i}.go"] = f"package ps\n\n//line generated_from_{i}.y:100\ntype {T} interface{{ M() }}\n\n/*line :200:5*/ var _ {T}\n"
    elif kind == "rare-syntax":
        txt, mock = "", T
        extra[f"ps/rare{i}.go"] = RARE.replace("%(i)d", str(i)).replace("weekday", f"weekday{i}").replace("tagged", f"tagged{i}") \
            .replace("monday", f"monday{i}").replace("tuesday", f"tuesday{i}").replace("thursday", f"thursday{i}") \
            .replace("raw ", f"raw{i} ").replace("runes ", f"runes{i} ").replace("complexN", f"complexN{i}") \
            .replace("\tfn ", f"\tfn{i} ").replace("\tarr ", f"\tarr{i} ").replace("\tmm ", f"\tmm{i} ")
    elif kind == "tag-on":
        txt, mock = "", T
        extra[f"ps/on{i}.go"] = f"//go:build vtag\n\npackage ps\n\ntype {T} interface{{ M() }}\n"
    elif kind == "shadowed-by-local":
        txt, mock = f"type {T} interface{{ M() }}\n\nfunc F{i}() {{\n\ttype {T} interface{{ Y() int }}\n\tvar _ {T}\n}}", T
    elif kind == "struct-shadowed-by-local-iface-plus-iface":
        txt = (f"type S{i} struct{{}}\n\ntype {T} interface{{ M() }}\n\nfunc F{i}() {{\n\ttype S{i} interface{{ Z() }}\n\tvar _ S{i}\n"
               f"\ttype {T} struct{{}}\n\tvar _ {T}\n}}")
        mock = T
    elif kind == "struct":
        txt = f"type {T} struct{{ F func(interface{{ Q() }}) }}"
    elif kind == "functype":
        txt = f"type {T} func(interface{{ M() }}) interface{{ N() }}"
    elif kind == "local":
        txt = f"func F{i}() {{\n\ttype L{i} interface{{ X() }}\n\tvar _ L{i}\n}}"
    elif kind == "local-blank":
        txt = f"func F{i}() {{\n\ttype _ interface{{ B() }}\n}}"
    elif kind == "blank":
        txt = f"type _ interface{{ B{i}() }}"
    elif kind == "local-in-lit":
        txt = f"var V{i} = func() int {{\n\ttype D{i} interface{{ D() }}\n\tvar _ D{i}\n\treturn 1\n}}()"
    elif kind == "local-in-method":
        txt = f"type R{i} struct{{}}\n\nfunc (R{i}) Meth() {{\n\ttype Q{i} interface{{ Q() }}\n\tvar _ Q{i}\n}}"
    elif kind == "local-in-generic-func":
        txt = f"func G{i}[T any](x T) {{\n\ttype W{i} interface{{ G(T) }}\n\tvar _ W{i}\n\t_ = x\n}}"
    elif kind == "local-shadows-struct":
        txt = f"type {T} struct{{}}\n\nfunc F{i}() {{\n\ttype {T} interface{{ Z() }}\n\tvar _ {T}\n}}"
    elif kind in ("line-before-package-rel", "line-before-package-abs", "line-before-package-existing", "line-block-before-package"):
        txt, mock = "", T
        head = {"line-before-package-rel": f"//line gram{i}.y:1\n", "line-before-package-abs": f"//line /nonexistent-verif/gram{i}.y:7\n",
                "line-before-package-existing": "//line support.go:1\n", "line-block-before-package": f"/*line blk{i}.y:1:1*/"}[kind]
        extra[f"ps/lb{i}.go"] = head + f"package ps\n\ntype {T} interface{{ M() }}\n"
    elif kind == "line-mid-file":
        txt, mock = "", T
        extra[f"ps/lm{i}.go"] = (f"package ps\n\ntype {T} interface{{ M() }}\n\n//line mid{i}.y:40\nfunc midF{i}() {{}}\n\n"
                                 f"//line lm{i}.go:12\nvar _ {T}\n")
    elif kind == "line-goyacc-output":
        txt, mock = "", T
        extra[f"ps/y{i}.go"] = (f"// Code generated by goyacc -o y{i}.go gram{i}.y. DO NOT EDIT.\n\n//line gram{i}.y:2\npackage ps\n\n"
                                f"import __yyfmt{i}__ \"fmt\"\n\n//line gram{i}.y:2\n\n//go:generate goyacc -o y{i}.go gram{i}.y\n\n"
                                f"type {T} interface {{\n\tLex(lval *int) int\n\tError(s string)\n}}\n\n//line yacctab:1\n"
                                f"var yyExca{i} = [...]int8{{-1, 1}}\n\nvar _ = __yyfmt{i}__.Sprint\n")
    elif kind == "iface-in-go123-syntax-file":
        txt, mock = "", T
        extra[f"ps/go123_{i}.go"] = (f"package ps\n\nimport (\n\t\"iter\"\n\t\"maps\"\n\t\"slices\"\n)\n\n"
                                     f"func seq{i}(n int) iter.Seq2[int, string] {{\n\treturn func(yield func(int, string) bool) {{\n\t\tfor k := range n {{\n"
                                     f"\t\t\tif !yield(k, \"x\") {{\n\t\t\t\treturn\n\t\t\t}}\n\t\t}}\n\t}}\n}}\n\n"
                                     f"func use{i}() int {{\n\ttotal := 0\n\tfor k, v := range seq{i}(3) {{\n\t\ttotal += k + len(v)\n\t}}\n"
                                     f"\tfor range 2 {{\n\t\ttotal = min(total, 10) + max(1, 2)\n\t}}\n\tm := map[string]int{{\"a\": 1}}\n"
                                     f"\tkeys := slices.Sorted(maps.Keys(m))\n\tclear(m)\n\treturn total + len(keys)\n}}\n\n"
                                     f"type {T} interface {{\n\tAll() iter.Seq[int]\n\tPairs() iter.Seq2[string, error]\n}}\n")
    elif kind == "goos-file":
        txt = ""
        extra[f"ps/x{i}_plan9.go"] = f"package ps\n\ntype {T} interface{{ M() }}\n"
    elif kind == "iface-in-generated-file":
        txt, mock = "", T
        extra[f"ps/zz_generated{i}.go"] = f"// Code generated by some-other-tool v1.2.3. DO NOT EDIT.\n\npackage ps\n\ntype {T} interface{{ M() }}\n"
    elif kind == "iface-in-generated-file-blockcomment":
        txt, mock = "", T
        extra[f"ps/pb{i}.pb.go"] = (f"// Code generated by protoc-gen-go. DO NOT EDIT.\n// source: x{i}.proto\n\n/*\nPackage ps is generated.\n*/\npackage ps\n\n"
                                    f"// {T}Server is the server API.\ntype {T} interface{{ M() }}\n")
    elif kind == "tag-off":
        txt = ""
        extra[f"ps/off{i}.go"] = f"//go:build !vtag\n\npackage ps\n\ntype {T} interface{{ M() }}\n"
    elif kind == "ignored-file":
        txt = ""
        extra[f"ps/ign{i}.go"] = f"//go:build ignore\n\npackage main\n\ntype {T} interface{{ M() }}\n\nfunc main() {{}}\n"
    elif kind == "test-file":
        txt = ""
        extra[f"ps/t{i}_test.go"] = f"package ps\n\ntype {T} interface{{ M() }}\n"
    elif kind == "init-funcs":
        txt = f"func init() {{}}\n\nfunc init() {{ _ = unsafe.Sizeof(V0{i}) }}\n\nvar V0{i} uintptr"
        imports.add("unsafe")
    elif kind == "inst":
        txt = f"type {T} GenBase[int]"
    elif kind == "alias":
        txt = f"type {T} = Anchor"
    elif kind == "constraint":
        txt = f"type {T} interface{{ ~int | ~string }}"
    # ---- aliases / defined types denoting an interface type (go/types: *types.Alias, or *types.Named over an instance)
    elif kind == "alias-iface-lit":
        txt = f"type {T} = interface{{ M{i}() }}"
    elif kind == "alias-embed-lit":
        txt = f"type {T} = interface {{\n\tio.Reader\n\tAnchor\n}}"
        imports.add("io")
    elif kind == "alias-inst":
        txt = f"type {T} = GenBase[int]"
    elif kind == "alias-inst2":
        txt = f"type {T} = GenPair[string, []int]"
    elif kind == "alias-of-alias":
        txt = f"type {T} = U{i}\n\ntype U{i} = Anchor"
    elif kind == "alias-foreign-iface":
        txt = f"type {T} = io.Reader"
        imports.add("io")
    elif kind == "alias-any":
        txt = f"type {T} = any"
    elif kind == "alias-error":
        txt = f"type {T} = error"
    elif kind == "defined-over-foreign-iface":
        txt = f"type {T} io.Reader"
        imports.add("io")
    elif kind == "defined-over-local-iface":
        txt = f"type {T} Anchor"
    # ---- aliases / defined types that do not denote an interface type
    elif kind == "alias-struct-lit":
        txt = f"type {T} = struct{{ X int }}"
    elif kind == "alias-func":
        txt = f"type {T} = func(int) error"
    elif kind == "alias-pointer":
        txt = f"type {T} = *GenStruct[int]"
    elif kind == "alias-map":
        txt = f"type {T} = map[string]interface{{ M() }}"
    elif kind == "alias-chan-of-iface":
        txt = f"type {T} = chan Anchor"
    elif kind == "alias-slice-inst":
        txt = f"type {T} = []GenBase[int]"
    elif kind == "alias-basic":
        txt = f"type {T} = int"
    elif kind == "alias-struct-inst":
        txt = f"type {T} = GenStruct[int]"
    elif kind == "defined-over-struct-inst":
        txt = f"type {T} GenStruct[int]"
    # ---- recursive type shapes: constraints in terms of the constrained parameter, recursive named types, self-referential interfaces
    elif kind == "rec-constraint-named":
        txt, mock = (f"type Lesser{i}[T any] interface{{ Less(other T) bool }}\n\n"
                     f"type {T}[T Lesser{i}[T]] interface {{\n\tInsert(v T) bool\n\tMin() (T, bool)\n}}"), T
    elif kind == "rec-constraint-inline":
        txt, mock = f"type {T}[T interface{{ Less(T) bool }}] interface{{ Sort(items []T) []T }}", T
    elif kind == "rec-constraint-mutual":
        txt, mock = f"type Ord{i}[X any] interface{{ Cmp(X) int }}\n\ntype {T}[K Ord{i}[V], V Ord{i}[K]] interface{{ Pair(k K, v V) bool }}", T
    elif kind == "rec-constraint-pointer-core":
        txt, mock = f"type {T}[E any, PE interface {{\n\t*E\n\tSet(string)\n}}] interface{{ New() PE }}", T
    elif kind == "rec-constraint-embedded-comparable":
        txt, mock = (f"type Cmp{i}[T any] interface {{\n\tcomparable\n\tLess(T) bool\n}}\n\n"
                     f"type {T}[T Cmp{i}[T]] interface{{ Max(a, b T) T }}"), T
    elif kind == "rec-constraint-slice-elem":
        txt, mock = f"type {T}[S ~[]E, E interface{{ Less(E) bool }}] interface{{ Sort(s S) S }}", T
    elif kind == "rec-named-slice-in-sig":
        txt, mock = f"type Rec{i} []Rec{i}\n\ntype {T} interface{{ M(r Rec{i}) Rec{i} }}", T
    elif kind == "rec-struct-in-sig":
        txt, mock = f"type N{i} struct {{\n\tnext *N{i}\n\tkids []N{i}\n}}\n\ntype {T} interface{{ Walk(n *N{i}) N{i} }}", T
    elif kind == "rec-functype-in-sig":
        txt, mock = f"type Fn{i} func(Fn{i}) Fn{i}\n\ntype {T} interface{{ M(f Fn{i}) Fn{i} }}", T
    elif kind == "rec-map-chan-in-sig":
        txt, mock = f"type Mp{i} map[string]Mp{i}\n\ntype Ch{i} chan Ch{i}\n\ntype {T} interface{{ M(m Mp{i}, c Ch{i}) }}", T
    elif kind == "rec-generic-struct-in-sig":
        txt, mock = (f"type Gs{i}[T any] struct {{\n\tnext *Gs{i}[T]\n\tm    map[string]Gs{i}[T]\n}}\n\n"
                     f"type {T}[T any] interface{{ Walk(g Gs{i}[T]) *Gs{i}[T] }}"), T
    elif kind == "rec-iface-self-method":
        txt, mock = f"type {T} interface {{\n\tNext() {T}\n\tChildren() []{T}\n\tVisit(func({T}) bool)\n}}", T
    elif kind == "rec-iface-mutual":
        txt, mock = f"type {T} interface{{ Other() Ot{i} }}\n\ntype Ot{i} interface{{ Back() {T} }}", T
    elif kind == "rec-generic-self-instance":
        txt, mock = f"type {T}[X any] interface {{\n\tSub() {T}[X]\n\tWrap() []{T}[X]\n}}", T
    elif kind == "rec-iface-embeds-generic-of-self":
        txt, mock = f"type Nd{i}[T any] interface{{ Children() []T }}\n\ntype {T} interface{{ Nd{i}[{T}] }}", T
    else:
        raise MachineryError("PipelineValid.tla has a declaration kind the harness cannot concretise: " + kind)
    return txt, extra, imports, mock


GOMOD = {
    "plain": "module example.com/w\n", "tab": "module\texample.com/w\n", "quoted": 'module "example.com/w"\n',
    "comment": "module example.com/w // the module\n", "block": "module (\n\texample.com/w\n)\n",
    "block-comment": "// leading comment\nmodule ( // why not\n\texample.com/w // here\n)\n", "crlf": "module example.com/w\r\n",
    "v2": "module example.com/w/v2\n",
}
# go.mod files for the output directory (nested module) -- with and without a module directive
NESTED = {
    "empty": "", "whitespace-only": "\n\n  \t\n", "comment-only": "// this directory is not part of the module\n", "go-only": "go 1.23\n",
    "toolchain-only": "go 1.23\n\ntoolchain go1.23.7\n", "require-only": "go 1.23\n\nrequire github.com/stretchr/testify v1.10.0\n",
    "replace-only": "replace example.com/a => ../a\n", "exclude-only": "exclude example.com/a v1.0.0\n", "retract-only": "retract v1.0.0 // oops\n",
    "bom-module": "\ufeffmodule example.com/nested\n",
    "module-plain": "module example.com/nested\n\ngo 1.23\n", "module-last": "go 1.23\n\nrequire example.com/a v1.0.0\n\nmodule example.com/nested\n",
    "module-v2": "module example.com/nested/v2\n\ngo 1.23\n", "module-crlf": "module example.com/nested\r\n\r\ngo 1.23\r\n",
    "module-quoted": 'module "example.com/nested"\n', "module-block": "module (\n\texample.com/nested\n)\n", "module-only-no-go": "module example.com/nested",
}


FUZZ_VALUES = {"null": None, "string": "some text", "empty-string": "", "int": 7, "float": 1.5, "bool": True, "empty-list": [],
               "list-of-strings": ["a", "b"], "list-of-null": [None], "empty-map": {}, "map": {"k": "v"},
               "nested-map": {"a": {"b": {"c": [1, {"d": None}]}}}, "templated-string": "{{.InterfaceName}}{{ .NoSuchField }}"}


def fuzz_config(pos, val, other="-"):
    """a valid configuration in which the value at one position of the tree is replaced by a value of one YAML kind;
    other = higher-nonempty / lower-nonempty: the levels above / below hold a conforming non-empty value for the same key"""
    P = f"{MOD}/ps"
    conf = {"all": False, "dir": "mocks/{{.SrcPackageName}}", "filename": "mocks.go", "pkgname": "mocks", "structname": "{{.Mock}}{{.InterfaceName}}",
            "template": "testify", "formatter": "goimports", "force-file-write": True, "template-data": {"unroll-variadic": True},
            "exclude-subpkg-regex": ["nothing"], "include-interface-regex": "", "exclude-interface-regex": "", "recursive": False,
            "build-tags": "vtag", "log-level": "info", "_anchors": {}, "template-schema": "{{.Template}}.schema.json",
            "require-template-schema-exists": True,
            "replace-type": {"example.com/w/ps": {"GenStruct": {"pkg-path": "example.com/w/ps", "type-name": "GenStruct"}}},
            "packages": {P: {"config": {"all": True, "dir": "mocks/{{.SrcPackageName}}", "template-data": {}, "recursive": False,
                                        "exclude-subpkg-regex": [], "replace-type": {}},
                             "interfaces": {"Anchor": {"config": {"structname": "AnchorMock", "template-data": {}},
                                                       "configs": [{"structname": "AnchorOne", "force-file-write": True, "template-data": {}}]}}}}}
    RT = {"example.com/w/ps": {"GenStruct": {"pkg-path": "example.com/w/ps", "type-name": "GenStruct"}}}
    levels = [("root", []), ("pkg.config", ["packages", P, "config"]), ("iface.config", ["packages", P, "interfaces", "Anchor", "config"]),
              ("entry", ["packages", P, "interfaces", "Anchor", "configs", 0])]
    lv = next((k for k, (name, _) in enumerate(levels) if pos == name or pos.startswith(name + ".")), None)
    key = next((k for k in ("replace-type", "template-data", "_anchors") if lv is not None and pos[len(levels[lv][0]):].startswith("." + k)), None)
    if key is not None:
        good = {"replace-type": RT, "template-data": {"unroll-variadic": True}, "_anchors": {"a": {"b": 1}}}[key]
        for k, (name, pth) in enumerate(levels):
            cur = conf
            for seg in pth:
                cur = cur[seg]
            if k == lv:
                if key == "replace-type":
                    cur[key] = json.loads(json.dumps(RT))       # the path below the position exists
                continue
            if (other == "higher-nonempty" and k < lv) or (other == "lower-nonempty" and k > lv):
                cur[key] = json.loads(json.dumps(good))
            elif key == "replace-type" or (key == "template-data" and other != "-"):
                cur.pop(key, None) if other != "-" or k != 0 else None
    if lv is not None and pos[len(levels[lv][0]):].startswith(".replace-type"):
        rest = pos[len(levels[lv][0]) + 1:].split(".")
        path_generic = levels[lv][1] + ["replace-type"] + (["example.com/w/ps"] if len(rest) > 1 else []) + (["GenStruct"] if len(rest) > 2 else []) + rest[3:]
    else:
        path_generic = None
    path = path_generic or {"root.replace-type.pkg": ["replace-type", "example.com/w/ps"], "root.replace-type.pkg.type": ["replace-type", "example.com/w/ps", "GenStruct"],
            "root.replace-type.pkg.type.pkg-path": ["replace-type", "example.com/w/ps", "GenStruct", "pkg-path"],
            "pkg": ["packages", P], "iface": ["packages", P, "interfaces", "Anchor"], "entry": ["packages", P, "interfaces", "Anchor", "configs", 0]}.get(pos)
    if path is None:
        head, _, rest = pos.partition(".")
        base = {"root": [], "pkg": ["packages", P], "iface": ["packages", P, "interfaces", "Anchor"],
                "entry": ["packages", P, "interfaces", "Anchor", "configs", 0]}[head]
        path = base + rest.split(".")
    if pos.endswith(".replace-type.pkg.type.pkg-path") and path_generic:
        path = path_generic
    cur = conf
    for k in path[:-1]:
        cur = cur[k]
    cur[path[-1]] = FUZZ_VALUES[val]
    return conf


CFG_TEXT = {
    "tabs-indent": "packages:\n\texample.com/w/ps:\n\t\tconfig:\n\t\t\tall: true\n",
    "duplicate-keys": "dir: mocks/a\ndir: mocks/b\npackages:\n  example.com/w/ps:\n    config:\n      all: true\n      all: false\n  example.com/w/ps:\n    config:\n      all: true\n",
    "empty-file": "", "only-comment": "# nothing configured\n", "garbage": "\x7fELF\x02\x01\x01 }{ ][ : - ? &*!|>'\"%@`\n",
    "list-at-top": "- packages\n- example.com/w/ps\n", "scalar-at-top": "just a string\n",
    "bom": "\ufeffdir: mocks/{{.SrcPackageName}}\npackages:\n  example.com/w/ps:\n    config:\n      all: true\n",
    "crlf": "dir: \"mocks/{{.SrcPackageName}}\"\r\nfilename: mocks.go\r\npkgname: mocks\r\npackages:\r\n  example.com/w/ps:\r\n    config:\r\n      all: true\r\n",
    "undefined-alias": "packages:\n  example.com/w/ps:\n    config: *nowhere\n",
    "multi-document": "dir: a\n---\npackages:\n  example.com/w/ps:\n    config:\n      all: true\n---\n- 1\n",
    "deep-nesting": "template-data:\n" + "".join("  " * (k + 1) + f"k{k}:\n" for k in range(60)) + "  " * 61 + "leaf: 1\npackages:\n  example.com/w/ps:\n    config:\n      all: true\n",
    "nul-byte": "dir: mocks\x00/x\npackages:\n  example.com/w/ps:\n    config:\n      all: true\n",
    "huge-scalar": "structname: \"" + "X" * 200000 + "\"\npackages:\n  example.com/w/ps:\n    config:\n      all: true\n",
    "recursive-alias": "_anchors:\n  a: &a\n    self: *a\npackages:\n  example.com/w/ps:\n    config:\n      all: true\n",
}


def many_world(shape):
    """hundreds of mocks / files / packages in one run"""
    files, expected = {}, []
    conf = {"dir": "mocks/{{.SrcPackageName}}", "filename": "mocks.go", "pkgname": "mocks", "packages": {}}
    if shape == "40-packages":
        for k in range(40):
            files[f"many/p{k:02d}/x.go"] = f"package p{k:02d}\n\ntype I{k} interface{{ M{k}(x int) error }}\n"
            conf["packages"][f"{MOD}/many/p{k:02d}"] = {"config": {"all": True}} if k % 2 else {"interfaces": {f"I{k}": {}}}
            expected.append((f"mocks/p{k:02d}/mocks.go", f"MockI{k}"))
    else:
        n = 300 if shape.startswith("300") else 150
        files["many/big/x.go"] = "package big\n\n" + "".join(f"type I{k} interface{{ M{k}(x int) (string, error) }}\n\n" for k in range(n))
        conf["packages"][f"{MOD}/many/big"] = {"config": {"all": True}}
        if shape.startswith("150"):
            conf["filename"] = "mock_{{.InterfaceName}}.go"
        expected = [(f"mocks/big/mock_I{k}.go" if shape.startswith("150") else "mocks/big/mocks.go", f"MockI{k}") for k in range(n)]
    return files, conf, expected


def build_valid(case):
    w = case["world"]
    files = {"ps/support.go": "package ps\n\n// Anchor is always there, so every world has something to write.\ntype Anchor interface{ Ping() }\n\n"
                              "type GenBase[T any] interface{ Get() T }\n\ntype GenPair[K comparable, V any] interface{ Get(K) V }\n\n"
                              "type GenStruct[T any] struct{ V T }\n"}
    conf = {"dir": "mocks/{{.SrcPackageName}}", "filename": "mocks.go", "pkgname": "mocks", "build-tags": "vtag",
            "packages": {f"{MOD}/ps": {"config": {"all": True}}}}
    gomod = None
    expected = [("mocks/ps/mocks.go", "MockAnchor")]
    named = ["Anchor"]
    if w["kind"] == "many":
        files, conf, expected = many_world(w["shape"])
        return files, conf, None, expected
    if w["kind"] in ("decls", "gomod", "cfgshape", "gomod-nested", "gomod-root-nomodule", "cfgfuzz", "cfgtext", "cli", "envfuzz"):
        body, imports = [], set()
        for i, k in enumerate(w["decls"], start=1):
            txt, extra, imps, mock = decl_text(k, i)
            if txt:
                body.append(txt)
            files.update(extra)
            imports |= imps
            if i in case["expect"]["must"]:
                if mock is None:
                    raise MachineryError(f"contract says {k} must be mocked but the harness has no mock name for it")
                name = ("Mock" if mock[0].isupper() else "mock") + mock
                expected.append(("mocks/ps/mocks.go", name))
                named.append(mock)
        imp = "".join(f'import "{x}"\n' for x in sorted(imports))
        files["ps/decls.go"] = "package ps\n\n" + imp + "\n" + "\n\n".join(body) + "\n"
        if w.get("select", "all") != "all":       # by name (the must-declarations) / only the anchor: the rest is parsed, not selected
            conf["packages"][f"{MOD}/ps"] = {"interfaces": {n: {} for n in named}}
    if w["kind"] == "gomod-nested":
        files["mocks/go.mod"] = NESTED[w["shape"]]
    if w["kind"] == "gomod-root-nomodule":
        gomod = {"empty": "", "comment-only": "// no module here\n", "go-only": "go 1.23\n"}[w["shape"]]
    if case["expect"]["exit"] != "zero":
        expected = []
    if w["kind"] == "gomod" and w["spelling"] in ("module-last", "many-directives", "v2"):
        rest = GO_SUM_MOD.replace("module example.com/w\n", "")
        if w["spelling"] == "module-last":
            gomod = rest + "\nmodule example.com/w\n"
        elif w["spelling"] == "many-directives":
            gomod = ("// Deprecated: not really\nmodule example.com/w\n" + rest + "\ntoolchain go1.23.7\n\nreplace example.com/unused => ./unused\n\n"
                     "exclude example.com/unused v0.0.1\n\nretract (\n\tv0.0.1 // first\n\t[v0.1.0, v0.2.0]\n)\n")
        else:
            gomod = GOMOD["v2"] + rest
            conf["packages"] = {f"{MOD}/v2/ps": conf["packages"][f"{MOD}/ps"]}
        if w["layout"] == "inpkg":
            conf.update({"dir": "{{.InterfaceDir}}", "filename": "mocks_gen.go", "pkgname": "{{.SrcPackageName}}"})
            expected = [("ps/mocks_gen.go", s_) for _, s_ in expected]
    elif w["kind"] == "gomod":
        gomod = GO_SUM_MOD.replace("module example.com/w\n", GOMOD[w["spelling"]])
        if w["spelling"] == "crlf":
            gomod = gomod.replace("\n", "\r\n")
        if w["layout"] == "inpkg":
            conf.update({"dir": "{{.InterfaceDir}}", "filename": "mocks_gen.go", "pkgname": "{{.SrcPackageName}}"})
            expected = [("ps/mocks_gen.go", s) for _, s in expected]
    if w["kind"] == "cfgshape":
        # null / empty sections at every level of the configuration file; _anchors.  Both Anchor and T1 stay selected.
        shape = w["shape"]
        P = f"{MOD}/ps"
        both = ["Anchor", "T1"]
        pk = {"config": {"all": True}}
        if shape == "package-null":
            conf["all"] = True
            pk = None
        elif shape == "pkg-config-null":
            conf["all"] = True
            pk = {"config": None}
        elif shape == "interfaces-null":
            pk["interfaces"] = None
        elif shape == "interfaces-empty":
            pk["interfaces"] = {}
        elif shape == "iface-null":
            pk = {"interfaces": {n: None for n in both}}
        elif shape == "iface-config-null":
            pk = {"interfaces": {n: {"config": None} for n in both}}
        elif shape == "configs-null":
            pk = {"interfaces": {n: {"configs": None} for n in both}}
        elif shape == "configs-empty":
            pk = {"interfaces": {n: {"configs": []} for n in both}}
        elif shape == "configs-null-entry":
            pk = {"interfaces": {n: {"configs": [None]} for n in both}}
        elif shape == "configs-null-entry-among-entries":
            pk = {"interfaces": {"Anchor": {"configs": [{"structname": "AnchorTwo"}, None]}, "T1": {"config": {}, "configs": [None, {"structname": "TOneTwo"}]}}}
            expected += [("mocks/ps/mocks.go", "AnchorTwo"), ("mocks/ps/mocks.go", "TOneTwo")]
        elif shape == "root-template-data-null":
            conf["template-data"] = None
        elif shape == "pkg-template-data-null":
            pk["config"]["template-data"] = None
        elif shape == "iface-template-data-null":
            pk = {"interfaces": {n: {"config": {"template-data": None}, "configs": [{"template-data": None}]} for n in both}}
        elif shape == "anchors-nonempty":
            conf["_anchors"] = {"common": {"all": False, "dir": "elsewhere"}, "n": 3}
        elif shape == "anchors-nested":
            conf["_anchors"] = {"a": [1, {"b": None}, "s"], "c": {"d": {"e": [True]}}}
            pk["config"]["_anchors"] = {"pkg-level": {"x": 1}}
        elif shape == "pkgname-equal-after-templating":
            pk = {"interfaces": {"Anchor": {"config": {"pkgname": "mocks_{{.SrcPackageName}}"}}, "T1": {"config": {"pkgname": "mocks_ps"}}}}
        elif shape == "same-template-url-twice":
            files["tmpl/ok.templ"] = CUSTOM_TEMPLATE
            tcfg = {"template": "file://tmpl/ok.templ", "require-template-schema-exists": False}
            pk = {"interfaces": {"Anchor": {"config": dict(tcfg)}, "T1": {"configs": [dict(tcfg)]}}}
        elif shape == "same-name-packages-own-files":
            files.update(API)
            for k, vv in (("v1", "V1Only"), ("v2", "V2Only")):
                conf["packages"][f"{MOD}/{k}/api"] = {"config": {"all": True, "dir": "mocks/{{.SrcPackagePath}}"}}
                expected.append((f"mocks/{MOD}/{k}/api/mocks.go", "MockClient", vv))
        elif shape == "anchors-empty":
            conf["_anchors"] = {}
        elif shape == "anchors-null":
            conf["_anchors"] = None
        conf["packages"][P] = pk
        if w["ctx"] == "among":
            files["pr/r.go"] = "package pr\n\ntype R interface{ Run() error }\n"
            conf["packages"][f"{MOD}/pr"] = {"config": {"all": True}}
            expected.append(("mocks/pr/mocks.go", "MockR"))
        if shape == "yaml-anchor-merge":
            # real YAML anchors and a merge key, as the documentation of _anchors suggests
            conf = ("_anchors:\n  common: &common\n    all: true\n  names: &names [a, b]\n"
                    "dir: \"mocks/{{.SrcPackageName}}\"\nfilename: mocks.go\npkgname: mocks\nbuild-tags: vtag\npackages:\n"
                    f"  {P}:\n    config:\n      <<: *common\n"
                    + (f"  {MOD}/pr:\n    config: *common\n" if w["ctx"] == "among" else ""))
    if w["kind"] == "pkgshape":
        shape = w["shape"]
        files.update({
            "only-test-files": {"pq/x_test.go": "package pq\n\ntype InTest interface{ M() }\n"},
            "no-interfaces": {"pq/n.go": "package pq\n\ntype S struct{}\n\nfunc F() {}\n"},
            "all-files-tagged-off": {"pq/a.go": "//go:build !vtag\n\npackage pq\n\ntype Off interface{ M() }\n"},
            "only-ignored-files": {"pq/a.go": "//go:build ignore\n\npackage pq\n\ntype Ign interface{ M() }\n"},
            "doc-only-file": {"pq/doc.go": "// Package pq has only a doc file.\npackage pq\n"},
        }[shape])
        conf["packages"][f"{MOD}/pq"] = {"config": {"all": True}}
        if w["ctx"] == "alone":
            del conf["packages"][f"{MOD}/ps"]
            expected = []
    if w["kind"] == "cfgfuzz":
        conf = fuzz_config(w["pos"], w["val"], w.get("other", "-"))
    elif w["kind"] == "cfgtext":
        conf = CFG_TEXT[w["shape"]]
    return files, conf, gomod, expected


CLI = {"config-missing": (["--config", "does-not-exist.yml"], True), "config-is-dir": (["--config", "ps"], True),
       "unknown-flag": (["--no-such-flag"], True), "no-config-anywhere": ([], False), "log-level-bogus": (["--log-level", "shouting"], True),
       "extra-positional-arg": (["stray", "args"], True), "config-flag-empty": (["--config", ""], True),
       "config-unreadable-yaml-dir-entry": (["--config", "./"], True)}


def replay_valid(ctx, item, runs, runlock):
    case = item["case"]
    w, exp = case["world"], case["expect"]
    d = newdir(ctx, "v")
    files, conf, gomod, expected = build_valid(case)
    args = ()
    env = None
    if w["kind"] == "envfuzz":
        env = {"MOCKERY_" + w["pos"]: {"empty": "", "true": "true", "TRUE": "TRUE", "False": "False", "maybe": "maybe", "number": "7",
                                        "json-map": '{"a": 1}', "list": "a,b", "spaces": "  x  ", "templated": "{{.InterfaceName}}{{.Nope}}"}[w["val"]]}
    if w["kind"] == "cli":
        args, keep_config = CLI[w["shape"]]
        if not keep_config:
            conf = None
    materialise(d, files, conf, gomod)
    r = pipetrace.run(ctx, d, args=args, env=env, timeout=300 if w["kind"] == "many" else 120)
    with runlock:
        runs.append((r, item["id"]))
    if r.timed_out:
        if exp["exit"] == "any":       # a hang on malformed input is as bad as a crash
            return [({"world": w["kind"], "shape": w["shape"], "pos": w.get("pos", "-"), "val": w.get("val", "-"), "kind": "hang"},
                     {"case": case, "config": conf})], {"id": item["id"], "world": {k: w.get(k, "-") for k in ("kind", "decls", "select", "spelling", "layout", "shape", "ctx")}, "exit": -9, "mocks_expected": []}
        raise MachineryError(f"mockery timed out on valid world {item['id']}")
    kinds = list(w["decls"])
    sig0 = {"world": w["kind"], "shape": w["shape"], "spelling": w["spelling"] if w["kind"] == "gomod" else "-",
            "layout": w["layout"], "has_local": bool(case.get("has_local")), "has_alias": bool(case.get("has_alias")),
            "select": w.get("select", "all"), "pos": w.get("pos", "-"), "val": w.get("val", "-"), "other": w.get("other", "-")}
    detail = {"case": case, "config": conf if len(str(conf)) < 5000 else str(conf)[:5000], "args": list(args), "run": r.brief(),
              "decls_go": files.get("ps/decls.go")}
    out = []
    if crashed(r):
        out.append((dict(sig0, kind="panic", how=crashed(r), has_recursive=bool(case.get("has_recursive")),
                         decl=next((k for k in kinds if k.startswith(("local", "alias", "defined", "rec-")) or "shadow" in k), kinds[0] if kinds else "-")), detail))
    if r.code == 0 and exp["exit"] == "nonzero":
        out.append((dict(sig0, kind="exit-status", expected="nonzero", got="zero"), detail))
    if r.code != 0 and exp["exit"] == "zero":
        # which declaration kind is it?  (single-kind worlds identify it; otherwise report the list)
        out.append((dict(sig0, kind="valid-input-rejected", decl=kinds[0] if len(set(kinds)) == 1 else "+".join(sorted(set(kinds)))), detail))
    if r.code != 0 and not has_diagnostic(r):
        out.append((dict(sig0, kind="no-diagnostic"), detail))
    if r.code == 0 and exp["exit"] == "zero":
        for rel, struct, *needle in expected:
            p = d / rel
            txt = p.read_text(errors="replace") if p.is_file() else ""
            if not re.search(r"\btype\s+" + re.escape(struct) + r"\b", txt):
                out.append((dict(sig0, kind="exit-zero-but-mock-not-written", decl=struct), dict(detail, missing_mock=[rel, struct])))
                break
            if needle and needle[0] not in txt:      # the mock was generated from another package's interface
                out.append((dict(sig0, kind="mock-from-wrong-interface", decl=struct), dict(detail, path=rel, expected_method=needle[0], head=txt[:600])))
                break
    if not out and not os.environ.get("VERIF_KEEP"):
        shutil.rmtree(d, ignore_errors=True)
    return out, {"id": item["id"], "world": {k: w[k] for k in ("kind", "decls", "select", "spelling", "layout", "shape", "ctx")},
                 "exit": r.code, "mocks_expected": [e[1] for e in expected]}


# ------------------------------------------------------------------------------------------------ two mocks, one output file
CVAL = {"pkgname": {"a": "mocks", "b": "otherpkg"}, "template": {"a": "testify", "b": "matryer"}}


def build_conflict(case):
    """PipelineConflict.tla world -> files, config, [(relpath, struct)] of the two mocks"""
    w = case["world"]
    rel, param, a, loc, struct = w["rel"], w["param"], w["a"], w["loc"], w["struct"]
    files = base_files()
    conf = {"packages": {}}
    # mock m -> (package, interface, index of its configs entry)
    mocks = {"same-iface": [("pa", "A1", 0), ("pa", "A1", 1)], "same-pkg": [("pa", "A1", 0), ("pa", "A2", 0)],
             "cross-pkg": [("pa", "A1", 0), ("pb", "B1", 0)]}[rel]
    nentries = 2 if rel == "same-iface" else 1

    def node(m, level, create=True):
        p, n, k = mocks[m]
        if level == "root":
            return conf
        pc = conf["packages"].setdefault(f"{MOD}/{p}", {"interfaces": {}})
        if level == "pkg":
            return pc.setdefault("config", {})
        ic = pc["interfaces"].setdefault(n, {})
        if level == "iface":
            return ic.setdefault("config", {})
        es = ic.setdefault("configs", [{} for _ in range(nentries)])
        return es[k]

    for m in (0, 1):
        p, n, k = mocks[m]
        conf["packages"].setdefault(f"{MOD}/{p}", {"interfaces": {}})["interfaces"].setdefault(n, {})
        if rel == "same-iface":
            node(m, "entry")                     # two configs entries = two mocks of the one interface
        for level in ("root", "pkg", "iface", "entry"):
            v = a[m][level]
            if v != "unset":
                node(m, level)[param] = CVAL[param][v]
        node(m, loc).update({"dir": "mocks/shared", "filename": "mocks.go"})
    if struct == "same":
        if rel != "same-iface":                  # (two entries of one interface share the default struct name)
            conf["structname"] = "MockShared"
        names = ["MockShared" if rel != "same-iface" else "MockA1"] * 2
    elif rel == "same-iface":
        names = ["MockOne", "MockTwo"]
        for m in (0, 1):
            node(m, "entry")["structname"] = names[m]
    else:
        names = ["Mock" + mocks[m][1] for m in (0, 1)]
    return files, conf, [("mocks/shared/mocks.go", nm) for nm in names]


def replay_conflict(ctx, item, runs, runlock):
    case = item["case"]
    w, exp = case["world"], case["expect"]
    d = newdir(ctx, "x")
    files, conf, mocks = build_conflict(case)
    materialise(d, files, conf)
    r = pipetrace.run(ctx, d)
    with runlock:
        runs.append((r, item["id"]))
    if r.timed_out:
        raise MachineryError(f"mockery timed out on conflict world {item['id']}")
    sig0 = {"world": "conflict", "rel": w["rel"], "param": w["param"], "struct": w["struct"], "loc": w["loc"],
            "src": "/".join(exp["src"]), "conflict": "+".join(sorted(exp["conflict"])) or "-"}
    detail = {"case": case, "config": conf, "run": r.brief()}
    out = []
    if crashed(r):
        out.append((dict(sig0, kind="panic", how=crashed(r)), detail))
    got = "zero" if r.code == 0 else "nonzero"
    if exp["exit"] != "any" and got != exp["exit"]:
        out.append((dict(sig0, kind="exit-status", expected=exp["exit"], got=got), detail))
    if r.code != 0 and not has_diagnostic(r):
        out.append((dict(sig0, kind="no-diagnostic"), detail))
    if r.code == 0:
        # exit 0 only if every configured mock was written (also where the exit status itself is left open)
        for m in (exp["written"] if exp["exit"] == "zero" else [1, 2]):
            rel_, st = mocks[m - 1]
            p = d / rel_
            if not (p.is_file() and re.search(r"\btype\s+" + re.escape(st) + r"\b", p.read_text(errors="replace"))):
                out.append((dict(sig0, kind="exit-zero-but-mock-not-written"), dict(detail, missing_mock=[rel_, st])))
                break
    if not out and not os.environ.get("VERIF_KEEP"):
        shutil.rmtree(d, ignore_errors=True)
    return out, {"id": item["id"], "world": {k: w[k] for k in ("rel", "param", "struct", "loc")}, "levels_in_effect": exp["src"],
                 "conflict": exp["conflict"], "expected": exp["exit"], "exit": r.code}


# ------------------------------------------------------------------------------------------------ main
def run(ctx):
    thorough = ctx.thorough()
    rng = ctx.rng
    res = {}

    def bg(name, *a, **kw):
        def go():
            try:
                res[name] = ctx.tlc(*a, **kw)
            except BaseException as e:  # noqa: BLE001
                res[name] = e
        t = threading.Thread(target=go, daemon=True)
        t.start()
        time.sleep(0.15)
        return t

    def joined(t, name):
        t.join()
        if isinstance(res[name], BaseException):
            raise res[name]
        return res[name]

    cfg = "Pipeline_c09_thorough.cfg" if thorough else "Pipeline_c09.cfg"
    t_mc = bg("mc", "PipelineMC", cfg, workers=1, timeout=1800, count=False, coverage=thorough)
    t_v = bg("valid", "PipelineValid", "PipelineValid_thorough.cfg" if thorough else "PipelineValid_quick.cfg",
             workers=1, timeout=900, count=False)
    t_x = bg("conflict", "PipelineConflict", "PipelineConflict_thorough.cfg" if thorough else "PipelineConflict_quick.cfg",
             workers=1, timeout=900, count=False, seed=ctx.seed)
    ctx.mockery()
    r_mc = joined(t_mc, "mc")
    if not r_mc.ok:
        raise MachineryError(f"TLC: Pipeline.tla on the C09 worlds failed ({r_mc.violated}):\n" + r_mc.tail())
    cases = r_mc.prints("CASE")
    behs = r_mc.prints("BEH")
    r_v = joined(t_v, "valid")
    if not r_v.ok:
        raise MachineryError("TLC failed on PipelineValid:\n" + r_v.tail())
    seen = set()
    vcases = []
    for c in r_v.prints("VCASE"):
        k = json.dumps(c["world"], sort_keys=True)
        if k not in seen:
            seen.add(k)
            vcases.append(c)
    r_x = joined(t_x, "conflict")
    if not r_x.ok:
        raise MachineryError(f"TLC failed on PipelineConflict ({r_x.violated}):\n" + r_x.tail())
    xcases, xseen = [], set()
    for c in r_x.prints("XCASE"):
        k = json.dumps(c["world"], sort_keys=True)
        if k not in xseen:
            xseen.add(k)
            xcases.append(c)
    ctx.cov["states"] += r_mc.distinct + r_v.distinct + r_x.distinct
    ctx.cov["transitions"] += r_mc.generated + r_v.generated + r_x.generated

    # ---- vacuity guards on the exports
    classes = {c["world"]["fault"]["class"] for c in cases}
    need = {"unknown-template", "unknown-formatter", "unknown-key", "schema-data", "cyclic", "include-regex", "exclude-regex",
            "subpkg-regex", "missing-iface", "pkg-missing-all", "pkg-missing-listed", "pkg-typeerr", "pkg-parseerr",
            "conflict-srcpkg", "conflict-pkgname", "conflict-template", "-"}
    if not need <= classes:
        raise MachineryError(f"vacuous: classes never exported: {sorted(need - classes)}")
    undecided = [c for c in cases if c["expect"]["exit"] == "any"]
    if any(c["world"]["fault"]["class"] not in ("cyclic-shadowed", "untidy-module") or
           (c["world"]["fault"]["class"] == "cyclic-shadowed" and c["world"]["fault"]["level"] == "pkg") for c in undecided):
        raise MachineryError("contract export broken: only a shadowed cycle at top / interface level and an untidy module may be left undecided")
    if not any(c["expect"]["exit"] == "zero" for c in cases) or not all(
            c["expect"]["exit"] == "nonzero" for c in cases if c["world"]["fault"]["kind"] == "input" and c not in undecided):
        raise MachineryError("contract export broken: the fault-free world must expect exit 0 and every invalid input a non-zero exit")
    if not any(c["world"]["fault"]["class"] == "cyclic-shadowed" and c["expect"]["exit"] == "nonzero" for c in cases) or \
            len({c["world"]["fault"]["feature"] for c in cases}) < 8:
        raise MachineryError("vacuous: no shadowed cycle that must fail / package faults are not combined with package features")
    for lv in ("root", "pkg", "iface", "entry"):
        if not any(c["world"]["fault"]["level"] == lv for c in cases):
            raise MachineryError("vacuous: level never used: " + lv)
    if not any(b["exit"] == 1 and b["written"] for b in behs) or not any(b["exit"] == 1 and not b["order"] for b in behs):
        raise MachineryError("vacuous: no failing behaviour that wrote a file first / none that failed before the per-file loop")
    vk = {k for c in vcases for k in c["world"]["decls"]}
    if not any(c["world"]["kind"] == "cfgshape" for c in vcases) or len(vk) < 50 or not any(c.get("has_alias") and c["world"]["select"] == "none" for c in vcases) or not any(c["world"]["kind"] == "gomod" for c in vcases) or not any(c["world"]["kind"] == "pkgshape" for c in vcases):
        raise MachineryError("vacuous: PipelineValid exported too few kinds of valid worlds")

    if len({k for c in vcases if c.get("has_recursive") for k in c["world"]["decls"] if k.startswith("rec-")}) < 12:
        raise MachineryError("vacuous: PipelineValid exported too few recursive type shapes")
    # two mocks in one file: every relation x parameter with a conflict, without one, with the same struct name (two configs
    # entries of one interface that differ only in pkgname / template), and with the deciding value at every level
    for rel_ in ("same-iface", "same-pkg", "cross-pkg"):
        for par_ in ("pkgname", "template"):
            mine = [c for c in xcases if c["world"]["rel"] == rel_ and c["world"]["param"] == par_]
            if not any(par_ in c["expect"]["conflict"] and (c["world"]["struct"] == "same" or rel_ != "same-iface") for c in mine) or \
                    not any(par_ in c["expect"]["conflict"] and (c["world"]["struct"] == "diff" or rel_ != "same-iface") for c in mine) or \
                    (rel_ != "cross-pkg" and not any(c["expect"]["exit"] == "zero" for c in mine)) or \
                    (rel_ == "cross-pkg" and not any(c["expect"]["conflict"] == ["srcpkg"] for c in mine)):
                raise MachineryError(f"vacuous: PipelineConflict exported no conflict / no conflict-free look-alike for {rel_} x {par_}")
    if {s_ for c in xcases for s_ in c["expect"]["src"]} != {"default", "root", "pkg", "iface", "entry"} or \
            any((c["expect"]["exit"] == "nonzero") != bool(c["expect"]["conflict"]) for c in xcases):
        raise MachineryError("contract export broken: PipelineConflict must decide every level and fail exactly the conflicts")

    # ---- replay
    runs, runlock = [], threading.Lock()
    if getattr(ctx, "replay", None):
        det = json.loads(open(ctx.replay).read())["detail"]
        xitems = []
        if "choices" in det:
            items, vitems = [{"id": "replay", "case": det["case"], "choices": det["choices"]}], []
        elif det["case"]["world"].get("kind") == "conflict":
            items, vitems, xitems = [], [], [{"id": "replay", "case": det["case"]}]
        else:
            items, vitems = [], [{"id": "replay", "case": det["case"]}]
    else:
        xitems = [{"id": f"x{i}", "case": c} for i, c in enumerate(xcases)]
        reps = 4 if thorough else 2     # concretisation variants per world (4 exist; quick takes v and v+2)
        items = []
        for i, c in enumerate(cases):
            v0 = rng.randrange(4)
            occupied = any(v != "absent" for v in c["world"]["fs0"].values())
            combined = c["world"]["fault"].get("feature", "-") != "-" and c["world"]["fault"]["class"].startswith("pkg-")
            for k in range(1 if occupied or (combined and not thorough) else reps):
                ch = choose_input(c, rng)
                ch["variant"] = (v0 + (k if thorough else 2 * k)) % 4
                # an outcome that may depend on the order the runtime draws: the same world several times
                order_dependent = c["world"]["fault"].get("feature") == "shared-template-mixed-require"
                for rep_ in range(3 if order_dependent else 1):   # x 6 worlds x 2 variants of this kind
                    items.append({"id": f"i{i}.{k}" + (f"#{rep_}" if rep_ else ""), "case": c, "choices": ch})
        vitems = [{"id": f"v{i}", "case": c} for i, c in enumerate(vcases)]
    t0 = time.time()
    results = pipetrace.pmap(lambda it: replay_input(ctx, it, runs, runlock), items, workers=10)
    vresults = pipetrace.pmap(lambda it: replay_valid(ctx, it, runs, runlock), vitems, workers=10)
    xresults = pipetrace.pmap(lambda it: replay_conflict(ctx, it, runs, runlock), xitems, workers=10)
    replay_wall = time.time() - t0
    summaries, vsummaries = [], []
    xsummaries = []
    for viols, s in xresults:
        xsummaries.append(s)
        for sig, detail in viols:
            ctx.violation(sig, detail)
    for viols, s in results:
        summaries.append(s)
        for sig, detail in viols:
            ctx.violation(sig, detail)
    for viols, s in vresults:
        vsummaries.append(s)
        for sig, detail in viols:
            ctx.violation(sig, detail)
    ctx.cov["evaluations"] += len(items) + len(vitems) + len(xitems)

    # ---- the code-shaped model's prediction for what was observed (drift only)
    pred = {}
    for b in behs:
        pred.setdefault(json.dumps(b["world"], sort_keys=True), []).append(b)
    drift = 0
    for it, (_, s) in zip(items, results):
        bs = pred.get(json.dumps(it["case"]["world"], sort_keys=True), [])
        if bs and not any((b["exit"] == 0) == (s["exit"] == 0) and len(b["written"]) == s["files_written"] for b in bs):
            # conflict-srcpkg/alone configures a partner package the model does not know: not comparable
            if not (it["case"]["world"]["fault"]["class"] == "conflict-srcpkg"):
                drift += 1
                if drift <= 3:
                    ctx.note("drift: code-shaped model predicted " + json.dumps([{"exit": b["exit"], "written": len(b["written"])} for b in bs])
                             + " but the binary did " + json.dumps({"exit": s["exit"], "written": s["files_written"], "fault": s["fault"]}))
    ctx.cov["impl_drift_cases"] = drift

    # ---- traces
    allruns = [r for r, _ in runs]
    labels = [lab for _, lab in runs]
    rej = pipetrace.validate_runs(ctx, allruns)
    ctx.cov["traces_validated_against_impl"] += rej.validated
    for x in rej:
        ctx.violation({"kind": "trace-rejected", "why": x["why"][0], "ev": x["event"]["ev"]},
                      {"case": labels[x["index"]], "why": x["why"], "event": x["event"], "at": x["at"], "projected_trace": x["events"]})
    # the root run-level trace specification (spec/MockeryTrace.tla) over the complete event stream of the same runs
    rsel = list(range(len(allruns))) if thorough or len(allruns) <= 400 else sorted(rng.sample(range(len(allruns)), 400))
    rrej = runtrace.validate_runs(ctx, [allruns[k] for k in rsel])
    own, other = runtrace.mine(rrej, "C09")
    for x in own:
        ctx.violation({"kind": "run-trace-rejected", "why": x["why"][0]},
                      {"case": labels[rsel[x["index"]]], "why": x["why"], "at": x["at"], "event": x["event"], "events": x["events"]})
    for x in other:
        ctx.note(f"run-trace clause of {x['props']} rejected a run: {x['why']}")
    for dn in rrej.drift[:5]:
        ctx.note("drift: " + ", ".join(dn["why"]))
    ctx.cov["traces_validated_against_impl"] += rrej.validated
    ctx.cov["run_traces_validated"] = rrej.validated
    badidx = {x["index"] for x in rej}
    good = next((r for k, r in enumerate(allruns) if k not in badidx and r.code == 0 and any(e.get("ev") == "Write" for e in r.trace)), None)
    if good is not None:
        ctx.cov["trace_selftest_rejections"] = pipetrace.selftest(ctx, good)
    elif not ctx.violations:
        raise MachineryError("no successful run at all")
    if thorough:
        z = pipetrace.final_coverage_zero(r_mc)
        if z:
            raise MachineryError("actions of Pipeline.tla never taken on the C09 worlds: " + "; ".join(z[:5]))

    # ---- evidence
    by_class = {}
    for s in summaries:
        by_class.setdefault(s["fault"]["class"], [0, 0])
        by_class[s["fault"]["class"]][0] += 1
        by_class[s["fault"]["class"]][1] += s["exit"] != 0
    ctx.cov["invalid_input_runs_by_class"] = {k: {"runs": v[0], "nonzero_exit": v[1]} for k, v in sorted(by_class.items())}
    ctx.cov["valid_unusual_worlds"] = {"total": len(vsummaries), "exit_zero": sum(1 for s in vsummaries if s["exit"] == 0),
                                       "declaration_kinds": len(vk)}
    ctx.cov["one_file_two_mocks_worlds"] = {"total": len(xsummaries), "expected_nonzero": sum(1 for s in xsummaries if s["expected"] == "nonzero"),
                                            "expected_zero": sum(1 for s in xsummaries if s["expected"] == "zero"),
                                            "exit_nonzero": sum(1 for s in xsummaries if s["exit"] != 0),
                                            "level_pairs": len({(s["world"]["rel"], tuple(s["levels_in_effect"])) for s in xsummaries})}
    ctx.cov["distinct_nontrivial"] = len({json.dumps(s["fault"], sort_keys=True) for s in summaries if s["fault"]["class"] != "-"}) + \
        len({json.dumps(s["world"], sort_keys=True) for s in vsummaries}) + \
        len({json.dumps([s["world"], s["levels_in_effect"], s["conflict"]], sort_keys=True) for s in xsummaries})
    ctx.cov["rule"] = ("invalid-input worlds = class x level x first/last package x alone/among (two of the four concretisation variants each; "
                       "thorough: all four, and also with occupied output paths); valid worlds = declaration-kind sequences (exhaustive up "
                       "to MaxLen + random longer ones), go.mod spellings x layout, package shapes x alone/among; one-file-two-mocks worlds = relation x "
                       "parameter x deciding-level pair x differs? (one assignment per stratum; thorough: four, every dir/filename level, both struct modes)")
    ctx.cov["replay_wall_s"] = round(replay_wall, 1)
    for s in summaries[:1] + [s for s in summaries if s["fault"]["class"] in ("cyclic", "conflict-template", "pkg-missing-all")][:3]:
        ctx.sample(s)
    for s in [s for s in vsummaries if len(s["world"]["decls"]) >= 3][:1]:
        ctx.sample(s)
    for s in [s for s in xsummaries if s["world"]["rel"] == "same-iface" and s["conflict"]][:1]:
        ctx.sample(s)
    ctx.assumptions += [
        "one fault class at a time (the statement lists classes; combinations are 'alone' or 'among valid packages'), except that a "
        "package which fails to load is also combined with every unusual-but-valid package trait (ignored / test-only / generated files ...)",
        "a cyclic templated value that every level below overrides (no mock uses it) must fail when written at package level -- there the "
        "statement's list and the unchanged code agree; written at top level or at interface level the unchanged code never resolves it "
        "(exit 0): the contract leaves those two placements undecided (exit 'any', only panic / trace / mocks-written are judged)",
        "conflicting requirements for one output file: different source package PATHS (also when the package names and the interface "
        "names coincide), pkgnames that differ as strings after templating (also only in case), template values that differ as strings; "
        "equal-after-templating pkgnames and the same URL twice are valid worlds; one file reached by two spellings of its URL is not judged",
        "two mocks in one output file (PipelineConflict.tla): two configs entries of one interface / two interfaces of a package / interfaces "
        "of two packages; pkgname resp. template written at any subset of the four levels for each mock (shared levels hold one value), the "
        "most specific level wins, unset everywhere = the documented default (testify; the source package's name); effective values differ or "
        "source packages differ => non-zero exit; equal requirements with distinct struct names => exit 0 and both mocks written; equal "
        "requirements with the SAME struct name (duplicate declaration) is left open; quick: one assignment per (relation, parameter, "
        "deciding-level pair, differs?) stratum and one level for dir/filename drawn at random",
        "a crash is `panic:`, a Go runtime fatal error (`fatal error:`, `runtime: goroutine stack exceeds`, goroutine dump with exit status "
        "other than 0/1) or death by signal; a harness timeout is not counted as one",
        "go.mod: the destination's governing go.mod may be a nested one; without a module directive (empty, comment-only, only go / toolchain / "
        "require / replace / exclude / retract, BOM) the run must fail with a diagnostic and never panic, with one (anywhere in the file) it succeeds",
        "an invalid regular expression is only required to fail where the expression is in effect (all: false / include set / recursive with a sub-package)",
        "a diagnostic is any output line that is not an INF/DBG/WRN log line; wording is not checked",
        "valid worlds are judged by exit status, panic scan and presence of `type <Mock> ` in the output; that the output compiles is C01's business",
        "panic-freedom on 'any compilable Go source' is sampled: declaration-kind sequences from PipelineValid.tla, not arbitrary programs",
    ]
    return {"level": "model_checking", "exhaustive": False}


def run_guarded(ctx):
    """an I/O problem of the harness itself (disk full, ...) is 'could not decide' (exit 2), never exit 1"""
    try:
        return run(ctx)
    except OSError as e:
        raise MachineryError(f"harness I/O error: {e!r}")


if __name__ == "__main__":
    main("C09", run_guarded)
