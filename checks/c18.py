#!/usr/bin/env python3
"""C18 -- `mockery init` bootstraps safely and its output round-trips.

1. TLC checks the code-shaped model of init.go / showconfig / the plain run (spec/InitCmd.tla: O_CREATE|O_EXCL
   open, encode, strict load, run with the stated defaults) against the contract operators of
   spec/InitCmdContract.tla on every transition, over worlds x --config classes x initial contents of the
   target path x package-path strings x histories (Init; Init / Init; Run; Init / Init(a); Init(b) ...).
2. Every generated transition is exported with a representative history and the contract's verdict per step
   (`allow` / `expect`, computed in TLA+) and replayed with the REAL binary in a scratch Go module: real
   `mockery init`, `mockery showconfig`, plain `mockery`; target-path snapshot before/after, exit status,
   loaded package keys (mockery's loader and PyYAML), stated/effective defaults, mocked interfaces.
3. The op log of every replay is validated by TLC against spec/InitCmdTrace.tla, which evaluates the same
   contract operators (InitAllowed, LoadExpect, DefaultsStated, DefaultsInEffect, RunExpect) on what the
   real code did.  Verdicts come from 2 and 3 only; a difference between the code and the code-shaped
   model that the contract accepts is reported as drift.

Coverage table (statement clause / quantifier dimension -> where it is explored -> what is still thin)
  initial state of the target path   start: absent, empty, valid, garbage, dir, non-empty dir, live symlink, dangling
                                     symlink, byte-identical twin, named pipe; decoy at the lexically cleaned place.
                                     THIN: device nodes, read-only directory / file (checks run as root), sockets.
  --config target paths              14 classes: default, relative, ./.., absolute, sub-dir, missing parent, .yaml,
                                     --config=, flag after the sub-command, cwd below the module root, symlink/..
                                     (rel+abs), through a symlinked dir, double slash.  THIN: MOCKERY_CONFIG as the
                                     ONLY source of the path (statement names --config; env class "config" only checks
                                     that the flag/default target is still the one written), non-UTF-8 / very long paths.
  package-path strings               66 fixed (YAML indicators, scalars look-alikes, schema words, multi-line, unicode,
                                     327 / 5999 chars, 300 words) + seed-dependent random ones + module paths that are
                                     themselves YAML scalars (true, 123, ...).  THIN: invalid UTF-8, NUL (argv cannot).
  argument shapes                    one package; none; two (either outcome, never a failure that leaves a file).
  histories                          Init;Init, Init(a);Init(b), Init;Load, Init;Run;Init, Init;Run;Run, load / run from
                                     a sub-directory; n = 2,3,5,8 concurrent inits (TLC all interleavings, real runs sampled).
                                     THIN: init concurrent with a running `mockery`; crash in the middle of init.
  ambient configuration              12 MOCKERY_* classes + a persistent flag (--log-level) while init runs.
                                     THIN: other persistent flags do not exist today.
  "accepted by mockery itself"       showconfig (strict loader) + PyYAML on every judged load.
  "documented defaults"              docs init example + parameter table (cross-checked with docs at start-up).
  "plain run mocks all interfaces"   exported/unexported/generic/embedding interfaces in 2 files, non-interfaces;
                                     ancestor configs 1-2 levels up.  THIN: the mocks are not compiled here (C01).
  source files of the named package  14 file classes (InitCmdContract!FileClass): hand-written, `// Code generated ... DO NOT
                                     EDIT.` header, that text after the package clause, _test.go (in-package / external
                                     _test package), //go:build satisfied / not, GOOS suffix host / foreign, //go:build
                                     ignore + package main, non-interface types only, doc.go, further files.  Sets: each
                                     class next to a hand-written file, each compiled class alone, all, all but the
                                     hand-written one + seed-dependent sets (thorough: all sets of <= 2 and >= 13 classes
                                     + 40 random); every mock exactly once.  Which files are compiled: go/packages oracle.
                                     THIN: cgo, GOARCH suffixes, build-tags set in the config, vendored / nested modules.
"""
import json
import os
import re
import shutil
import stat
import subprocess
import sys
import threading
import time
from concurrent.futures import ThreadPoolExecutor
from pathlib import Path

sys.path.insert(0, os.path.join(os.path.dirname(__file__), "..", "lib"))
import vlib  # noqa: E402
from vlib import MachineryError, main, sha, tree_hash, go_env, PANIC_RE  # noqa: E402

try:
    import yaml
except ImportError:  # pragma: no cover
    yaml = None

# ------------------------------------------------------------------ concretisation (total, injective)
MODS = {"main": "example.com/w", "m_true": "true", "m_null": "null", "m_int": "123", "m_float": "1.5",
        "m_yes": "yes", "m_hex": "0x1f", "m_on": "on", "m_n": "n", "m_date": "2001-01-01",
        "m_punct": "a-b.c_d~e/V2", "m_dot": ".x", "m_tilde": "a~b"}
WEIRD = {
    "w_colon": "a:b", "w_colonsp": "exa: mple", "w_hash": "a #b", "w_hash0": "#x", "w_brack": "[a]",
    "w_brace": "{a: b}", "w_star": "*a", "w_amp": "&a", "w_squote": "it's", "w_dquote": 'say "x"',
    "w_dash": "-x", "w_dashsp": "- x", "w_space": "a b", "w_lead": " a", "w_trail": "a ", "w_pipe": "a|b",
    "w_pct": "%a", "w_uni": "\u00e9/\u00fc", "w_null": "null", "w_true": "true", "w_int": "123", "w_tilde": "~",
    "w_nl": "a\nb", "w_tab": "a\tb", "w_empty": "", "w_bang": "!x", "w_at": "@x", "w_bt": "`x", "w_q": "? x",
    "w_merge": "<<", "w_eq": "=", "w_date": "2001-01-01", "w_long": "/".join(["x" * 40] * 8), "w_ctrl": "a\x01b",
    "w_bom": "\ufeffa", "w_emoji": "\U0001F600/p", "w_bs": "a\\b", "w_comma": "a, b", "w_gt": ">x", "w_pipe0": "|",
    "w_dots": "a.b.c", "w_mix": 'k: "v" #c {x} [y] *z &w !t |p >q %r @s `u', "w_yes": "yes", "w_float": "1.5",
    "w_crlf": "a\r\nb", "w_nbsp": "\u00a0a", "w_ls": "a\u2028b", "w_del": "a\x7fb", "w_pipes": "a|b|c",
    "w_tpl": "{{.InterfaceDir}}",
    "w_dollar": "a$b", "w_dollarbrace": "x/${HOME}/y", "w_dollarset": "example.com/$VERIF_C18_SET/v2",
    "w_dollarunset": "p${VERIF_C18_UNSET}q", "w_dollardollar": "$$", "w_dollardigit": "cost$5/$1", "w_pctvar": "%PATH%/%VERIF_C18_SET%",
    "w_tildepath": "~/go/src/x",
    "w_kall": "all", "w_kpackages": "packages", "w_kconfig": "config", "w_ktd": "template-data",
    "w_kinterfaces": "interfaces", "w_kConfig": "Config",
    "w_longsp": " ".join("word%d" % i for i in range(300)), "w_xlong": "/".join(["y" * 59] * 100),
    "w_dslash": "a//b", "w_dotrel": "./x/../y", "w_upper": "Example.COM/X", "w_trailsl": "a/b/",
    "w_leadnl": "\nabc", "w_tabml": "\tx\ny", "w_lsml": "\u2028x\ny", "w_nlonly": "\n",
}
assert len(set(WEIRD.values())) == len(WEIRD)

# seed-dependent extra strings (ids w_r<n>), drawn from the characters YAML gives a meaning to
RND_ALPHABET = ["$", "$a", "${a}", "$1", "$$", "%a%", "~/"] + list(":#{}[]*&!|>'\"%@`,-?<=~ \t\n\r/.\\") + list("abzAZ019_") + \
    ["\u00e9", "\u2028", "\u2029", "\U0001F600", "\ufeff", "\u00a0", "\u0085", "\x01", "\x1b", "\x7f", "\u200b", ": ", " #", "- ", "? ",
     "null", "true", "~", "0x", "1e3", ".inf", ".nan", "!!str ", "<<", "---", "...", "%YAML"]


def random_strings(rng, n):
    out = {}
    seen = set(WEIRD.values())
    while len(out) < n:
        s_ = "".join(rng.choice(RND_ALPHABET) for _ in range(rng.randint(1, 7)))
        if s_ in seen:
            continue
        seen.add(s_)
        out["w_r%d" % (len(out) + 1)] = s_
    return out


RND_MODULE = """---- MODULE InitCmdRnd ----
EXTENDS InitCmdMC
MCWorldsRnd == {%s}
====
"""

# MOCKERY_* variables present while `mockery init` runs (load / run always get a clean environment)
ENVS = {
    "none": {},
    "flagloglevel": {"_argv": "--log-level=debug"},      # a persistent flag instead of a variable
    "loglevel": {"MOCKERY_LOG_LEVEL": "debug"},
    "dir": {"MOCKERY_DIR": "envmocks/{{.SrcPackageName}}"},
    "filename": {"MOCKERY_FILENAME": "env_mocks.go"},
    "force": {"MOCKERY_FORCE_FILE_WRITE": "true"},
    "all": {"MOCKERY_ALL": "True"},
    "template": {"MOCKERY_TEMPLATE": "matryer"},
    "config": {"MOCKERY_CONFIG": "envconf.yml"},
    "buildtags": {"MOCKERY_BUILD_TAGS": "envtag"},
    "unknown": {"MOCKERY_NOT_A_PARAMETER": "x"},
    "several": {"MOCKERY_LOG_LEVEL": "warn", "MOCKERY_DIR": "envmocks", "MOCKERY_FORCE_FILE_WRITE": "true",
                "MOCKERY_RECURSIVE": "true", "MOCKERY_PKGNAME": "envpkg", "MOCKERY_CONFIG": "other/envconf.yml"},
    "lower": {"MOCKERY_Log_Level": "trace", "MOCKERY_Formatter": "gofmt"},
}

ROOT_GO = """package root

type R interface{ F(x int) string }

type rr interface{ G() }

type NotAnInterface struct{ X int }
"""
SUB_A_GO = """package sub

import "io"

type A interface{ F(x int, r io.Reader) (string, error) }

type b interface{ G(xs ...string) }

type C interface {
	A
	H() error
}

type G[T any] interface{ Get() T }

type S struct{}

type Fn func(int) int

// no methods of their own: only embedded interfaces (local, imported, an instantiated generic one)
type RW interface {
	A
	Z
}

type RC interface {
	io.Reader
	io.Closer
}

type GS interface{ G[string] }

type E interface{}

// left open by the statement: constraint interfaces, aliases, a defined type over a named interface
type Num interface{ ~int | ~string }

type Cmp interface{ comparable }

type Mixed interface {
	Num
	M()
}

type Al = A

type AlF = io.Writer

type Named A
"""
SUB_Z_GO = """package sub

type Z interface{ Last() }
"""
# Source-file classes of the package "mix" (ids = InitCmdContract!FileClass; which of them the toolchain compiles
# into the package and what that means for the run is decided in TLA+, cross-checked with go/types at start-up).
# Every file is self-contained and cgo-free, the declared names are disjoint, so any subset is a package.
HOST_GOOS = None


def host_goos():
    global HOST_GOOS
    if HOST_GOOS is None:
        p = subprocess.run(["go", "env", "GOOS"], capture_output=True, text=True, env=go_env(), timeout=120)
        HOST_GOOS = p.stdout.strip()
        if p.returncode != 0 or not HOST_GOOS:
            raise MachineryError("go env GOOS failed: " + p.stderr[-300:])
    return HOST_GOOS


def mix_sources():
    """file class -> (file name, source)"""
    goos = host_goos()
    other = "windows" if goos != "windows" else "linux"
    return {
        "plain": ("p.go", "package mix\n\ntype P interface{ F(x int) string }\n\ntype pu interface{ G() }\n\ntype PS struct{ X int }\n"),
        "gen": ("svc_grpc.pb.go", "// Code generated by protoc-gen-go-grpc. DO NOT EDIT.\n// versions:\n// - protoc-gen-go-grpc v1.3.0\n// source: svc.proto\n\n"
                "package mix\n\nimport \"context\"\n\ntype GenReq struct{ ID string }\n\n"
                "type GenClient interface {\n\tGet(ctx context.Context, in *GenReq) (*GenReq, error)\n}\n\n"
                "type GenServer interface {\n\tGet(context.Context, *GenReq) (*GenReq, error)\n\tmustEmbedUnimplementedGenServer()\n}\n\n"
                "type genUnsafe interface{ mustEmbedUnimplementedGenServer() }\n"),
        "genmid": ("mid.go", "package mix\n\n// Hand-written.  The table below was pasted from a tool whose output said\n// \"Code generated by tool. DO NOT EDIT.\"\n"
                   "// -- after the package clause that is not a generated-code marker.\n\ntype GenMid interface{ Mid() }\n"),
        "intest": ("in_test.go", "package mix\n\ntype InTest interface{ T() }\n"),
        "exttest": ("ext_test.go", "package mix_test\n\ntype ExtTest interface{ T() }\n"),
        "tagon": ("tagon.go", "//go:build !verif_c18_never_set\n\npackage mix\n\ntype TagOn interface{ On() bool }\n"),
        "tagoff": ("tagoff.go", "//go:build verif_c18_never_set\n\npackage mix\n\ntype TagOff interface{ Off() bool }\n"),
        "suffixon": (f"os_{goos}.go", "package mix\n\ntype SuffixOn interface{ Host() string }\n"),
        "suffixoff": (f"os_{other}.go", "package mix\n\ntype SuffixOff interface{ Foreign() string }\n"),
        "ignore": ("mkstuff.go", "//go:build ignore\n\npackage main\n\ntype Ignored interface{ I() }\n\nfunc main() {}\n"),
        "types": ("types.go", "package mix\n\ntype TS struct{ A int }\n\ntype TF func(int) int\n\ntype TI int\n"),
        "doc": ("doc.go", "// Package mix is made of the source files one exported case names.\npackage mix\n"),
        "more1": ("m1.go", "package mix\n\ntype M1 interface{ One() }\n\ntype M1b interface {\n\tM1\n\tTwo(s ...string) error\n}\n"),
        "more2": ("m2.go", "package mix\n\ntype M2S struct{}\n\ntype M2 interface{ Get() *M2S }\n"),
    }


def write_mix(d, mix):
    src = mix_sources()
    d.mkdir(parents=True, exist_ok=True)
    for f in mix:
        if f not in src:
            raise MachineryError(f"source-file class without a concretisation: {f}")
        (d / src[f][0]).write_text(src[f][1])


GO_IFACES = {"root": {"R", "rr"}, "sub": {"A", "b", "C", "G", "Z", "RW", "RC", "GS", "E"}}
GO_MAY = {"root": set(), "sub": {"Num", "Cmp", "Mixed", "Al", "AlF", "Named"}}


def str_class(s_):
    """Input class of a package string (used in violation signatures only)."""
    if s_ == "<<":
        return "merge-key"
    if "\n" in s_ and s_[:1] in ("\n", "\t", "\u2028", "\u2029"):
        return "multiline-starting-with-tab-or-linebreak"
    if "\n" in s_:
        return "multiline"
    return "single-line"


def module_of(world):
    return MODS.get(world, "example.com/w")


ARG_SHAPES = {"a_none": [], "a_two": ["example.com/w/one", "example.com/w/two"]}


def pkg_args(world, pid):
    return ARG_SHAPES[pid] if pid in ARG_SHAPES else [pkg_string(world, pid)]


def pkg_string(world, pid):
    if pid in ARG_SHAPES:
        return " ".join(ARG_SHAPES[pid])
    if pid == "root":
        return module_of(world)
    if pid == "sub":
        return module_of(world) + "/sub"
    if pid == "mix":
        return module_of(world) + "/mix"
    return WEIRD[pid]


# --config classes -> (cwd relative to the module root, target path relative to cwd or absolute marker,
#                      argv prefix before the sub-command, argv inserted after the sub-command)
def cfg_layout(cfg, root):
    cwd = root
    pre, post = [], []
    if cfg == "default":
        target = root / ".mockery.yml"
    elif cfg == "cwdsub":
        cwd = root / "sub"
        target = cwd / ".mockery.yml"
    elif cfg == "rel":
        target, pre = root / "conf.yml", ["--config", "conf.yml"]
    elif cfg == "reldot":
        target, pre = root / "c.yml", ["--config", "./cfgs/../c.yml"]
    elif cfg == "abs":
        target = root / "cfgs" / "abs.yml"
        pre = ["--config", str(target)]
    elif cfg == "subdir":
        target, pre = root / "cfgs" / "conf.yml", ["--config", "cfgs/conf.yml"]
    elif cfg == "missing":
        target, pre = root / "nodir" / "deeper" / "conf.yml", ["--config", "nodir/deeper/conf.yml"]
    elif cfg == "yamlext":
        target, pre = root / ".mockery.yaml", ["--config", ".mockery.yaml"]
    elif cfg == "eqform":
        target, pre = root / "conf.yml", ["--config=conf.yml"]
    elif cfg in ("linkup", "linkupabs", "linkdir"):
        # lnk -> far/inner (a directory elsewhere).  lnk/.. is far/ for the kernel, the module root lexically.
        (root / "far" / "inner").mkdir(parents=True, exist_ok=True)
        if not os.path.lexists(root / "lnk"):
            os.symlink("far/inner", root / "lnk")
        if cfg == "linkup":
            target, pre = root / "far" / "x.yml", ["--config", "lnk/../x.yml"]
        elif cfg == "linkupabs":
            target, pre = root / "far" / "xa.yml", ["--config", str(root / "lnk") + "/../xa.yml"]
        else:
            target, pre = root / "far" / "inner" / "ld.yml", ["--config", "lnk/ld.yml"]
    elif cfg.startswith("ext-"):
        (root / "ci").mkdir(exist_ok=True)
        name = {"ext-json": "mockery.json", "ext-JSON": "mockery.JSON", "ext-toml": "mockery.toml", "ext-txt": "mockery.txt",
                "ext-none": "mockeryconf", "ext-jsonyml": "a.json.yml", "ext-dot": ".mockeryrc", "ext-absjson": "abs.json"}[cfg]
        target = root / "ci" / name
        pre = ["--config", str(target) if cfg == "ext-absjson" else "ci/" + name]
    elif cfg == "dslash":
        target, pre = root / "cfgs" / "conf.yml", ["--config", "cfgs//./conf.yml"]
    elif cfg == "after":
        target, post = root / "conf.yml", ["--config", "conf.yml"]   # flag after the sub-command (init only)
    else:
        raise MachineryError(f"unknown --config class {cfg}")
    return cwd, target, pre, post


USER_VALID = "# written by the user, not by init\nall: false\nlog-level: warn\npackages:\n  {mod}/sub:\n    config:\n      all: true\n"


def decoy_path(cfg, root):
    """Where lexical cleaning of the --config string would point (None when that is the target itself)."""
    return {"linkup": root / "x.yml", "linkupabs": root / "xa.yml"}.get(cfg)


def load_args(cfg, target, pre, post):
    """argv prefix for showconfig / the plain run.  koanf's file provider cleans the path lexically when READING, so
    for the classes where that differs from kernel resolution the written file is loaded by its physical path."""
    if cfg in ("linkup", "linkupabs"):
        return ["--config", str(target)]
    return pre + post


def elsewhere(before, after, root, target):
    """Paths of the world (relative to the module root) created / changed / removed, other than the target path and
    the directories leading to it."""
    trel = os.path.relpath(target, root)
    parts = trel.split(os.sep)[:-1]
    lead = {os.sep.join(parts[:i]) for i in range(1, len(parts) + 1)}
    return sorted(p_ for p_ in set(before) | set(after)
                  if before.get(p_) != after.get(p_) and p_ != trel and p_ not in lead and not p_.startswith(trel + "/"))


def tree_state(root):
    """relpath -> kind:hash for everything below root; special files (pipes) are never opened."""
    out = {}
    for dp, dns, fns in os.walk(root):
        rel = os.path.relpath(dp, root)
        for n_ in sorted(dns) + sorted(fns):
            p_ = os.path.join(dp, n_)
            r_ = os.path.normpath(os.path.join(rel, n_))
            st = os.lstat(p_)
            if stat.S_ISLNK(st.st_mode):
                out[r_] = "link:" + os.readlink(p_)
            elif stat.S_ISDIR(st.st_mode):
                out[r_] = "DIR"
            elif stat.S_ISREG(st.st_mode):
                out[r_] = "file:" + sha(open(p_, "rb").read())
            else:
                out[r_] = "special:%o" % stat.S_IFMT(st.st_mode)
    return out


def snapshot(target: Path):
    """Projection of the target path into the trace's snapshot string."""
    if os.path.islink(target):
        dest = os.readlink(target)
        real = target.parent / dest
        inner = snapshot(real) if os.path.lexists(real) else "none"
        return f"link:{dest}:{inner}"
    if not os.path.lexists(target):
        return "absent"
    if stat.S_ISFIFO(os.lstat(target).st_mode):
        return "fifo"
    if target.is_dir():
        th = tree_hash(target)
        return "dir:" + sha(json.dumps(th, sort_keys=True).encode())
    return "file:" + sha(target.read_bytes())


def presence(target: Path):
    """lstat: anything at the path -- also a symbolic link that dangles -- is something that exists."""
    return "yes" if os.path.lexists(target) else "no"


def jtxt(v):
    return json.dumps(v, sort_keys=True, ensure_ascii=False)


class Runner:
    def __init__(self, ctx):
        self.ctx = ctx
        self.bin = str(ctx.mockery())
        self.n = 0
        self.twins = {}
        self.lock = threading.Lock()

    def mockery(self, cwd, args, trace_file=None, timeout=120, env=None):
        e = go_env(env)
        e["VERIF_C18_SET"] = "EXPANDED"       # a variable some package strings refer to ($VERIF_C18_SET); _UNSET is not set
        e.pop("VERIF_C18_UNSET", None)
        if trace_file:
            e["VERIFHOOK_TRACE"] = str(trace_file)
        t = time.time()
        try:
            p = subprocess.run([self.bin, *args], cwd=cwd, env=e, capture_output=True, timeout=timeout)
        except subprocess.TimeoutExpired:
            raise MachineryError(f"mockery {args} timed out after {timeout}s")
        out = p.stdout.decode("utf8", "replace")
        err = p.stderr.decode("utf8", "replace")
        evs = []
        if trace_file and os.path.exists(trace_file):
            for ln in open(trace_file, encoding="utf8", errors="replace").read().splitlines():
                try:
                    evs.append(json.loads(ln))
                except ValueError:
                    pass
            os.unlink(trace_file)
        return p.returncode, out, err, evs, time.time() - t


def make_world(ctx, run, idx, case):
    world = case["world"]
    mod = module_of(world)
    base = ctx.scratch / "worlds" / f"w{idx}"
    root = base / "up2" / "up1"          # two directories above the module root belong to the world
    root.mkdir(parents=True)
    (root / "other").mkdir()
    (root / "other" / "o.go").write_text("package other\n\ntype O interface{ F() }\n")
    if any(o["op"] == "run" for o in case["ops"]):
        (root / "go.mod").write_text(vlib.GO_SUM_MOD.replace("example.com/w", mod))
        shutil.copy(vlib.REPO / "go.sum", root / "go.sum")
    else:       # init and showconfig never consult the module
        (root / "go.mod").write_text(f"module {mod}\n\ngo 1.23\n")
    (root / "r.go").write_text(ROOT_GO)
    (root / "sub").mkdir()
    (root / "sub" / "a.go").write_text(SUB_A_GO)
    (root / "sub" / "z.go").write_text(SUB_Z_GO)
    (root / "cfgs").mkdir()
    if case.get("mix"):
        write_mix(root / "mix", case["mix"])
    cwd, target, pre, post = cfg_layout(case["cfg"], root)
    dp = decoy_path(case["cfg"], root)
    if dp is not None and case.get("decoy") == "valid":
        dp.write_text("# a config that happens to sit where the cleaned --config string would point\n" + USER_VALID.format(mod=mod))
    anc = case.get("anc", "none")
    if anc != "none":
        # u<levels above the working directory>-<yaml|yml>-<valid|empty>
        up, ext, kind = anc.split("-")
        adir = cwd.parents[int(up[1:]) - 1]
        (adir / (".mockery." + ext)).write_text(
            "" if kind == "empty" else f"# an older config further up\nall: false\npackages:\n  {mod}/other:\n    config:\n      all: true\n")
    k = case["start"]
    if k == "absent":
        pass
    elif k == "empty":
        target.write_bytes(b"")
    elif k == "valid":
        target.write_text(USER_VALID.format(mod=mod))
    elif k == "garbage":
        target.write_bytes(b"\x00\xff{{{ not: [yaml\n\t- at all")
    elif k == "dir":
        target.mkdir()
    elif k == "dirfull":
        target.mkdir()
        (target / "keep.txt").write_text("user data\n")
    elif k == "link":
        (target.parent / "real-config.yml").write_text(USER_VALID.format(mod=mod))
        os.symlink("real-config.yml", target)
    elif k == "dangling":
        os.symlink("nowhere.yml", target)
    elif k == "fifo":
        os.mkfifo(target)
    elif k == "twin":
        # byte-identical to what init writes for the first init of the history (or sub)
        first = next((o["pkg"] for o in case["ops"] if o["op"] == "init"), "sub")
        target.write_bytes(twin_bytes(ctx, run, world, first))
    else:
        raise MachineryError(f"unknown start kind {k}")
    return root, cwd, target, pre, post


def twin_bytes(ctx, run, world, pid):
    key = (world, pid)
    with run.lock:
        return _twin_bytes(ctx, run, world, pid, key)


def _twin_bytes(ctx, run, world, pid, key):
    if key not in run.twins:
        d = ctx.scratch / "twins" / f"{world}-{pid}"
        d.mkdir(parents=True, exist_ok=True)
        code, out, err, _, _ = run.mockery(d, ["--config", "t.yml", "init", "--", pkg_string(world, pid)])
        f = d / "t.yml"
        if code != 0 or not f.exists():
            raise MachineryError(f"could not obtain init output for the twin file: exit {code} {err[-300:]}")
        run.twins[key] = f.read_bytes()
    return run.twins[key]


def read_file_projection(target):
    """Independent reader (PyYAML): package keys, packages[k].config.all, top-level entries."""
    try:
        raw = Path(target).read_bytes()
        y = yaml.safe_load(raw.decode("utf8"))
    except Exception as e:  # unreadable / not YAML: a projection value, judged by the contract
        return ["<unreadable: %s>" % type(e).__name__], "-", {}
    if not isinstance(y, dict):
        return ["<not a mapping>"], "-", {}
    pk = y.get("packages")
    keys = [k if isinstance(k, str) else "<non-string key %r>" % (k,) for k in pk.keys()] if isinstance(pk, dict) else ["<no packages map>"]
    allv = "-"
    if isinstance(pk, dict) and len(pk) == 1:
        v = list(pk.values())[0]
        if isinstance(v, dict) and isinstance(v.get("config"), dict) and "all" in v["config"]:
            allv = jtxt(v["config"]["all"])
        # anything else init puts under the package must be empty
        if isinstance(v, dict):
            extra = {k2: v2 for k2, v2 in v.items() if k2 != "config" and v2 not in ({}, [], None)}
            extra2 = {k2: v2 for k2, v2 in (v.get("config") or {}).items() if k2 != "all"}
            if extra or extra2:
                allv = allv + "+extra:" + jtxt([extra, extra2])
    top = {str(k): jtxt(v) for k, v in y.items() if k != "packages"}
    return keys, allv, top


def read_showconfig(out):
    try:
        y = yaml.safe_load(out)
    except Exception as e:
        return ["<showconfig output unreadable: %s>" % type(e).__name__], {}
    if not isinstance(y, dict):
        return ["<showconfig output not a mapping>"], {}
    pk = y.get("packages")
    keys = [k if isinstance(k, str) else "<non-string key %r>" % (k,) for k in pk.keys()] if isinstance(pk, dict) else []
    conf = y.get("Config") if isinstance(y.get("Config"), dict) else {k: v for k, v in y.items() if k != "packages"}
    eff = {str(k): jtxt(v) for k, v in conf.items()}
    return keys, eff


def mocked_interfaces(root, world, pid, hook_events):
    """Which interfaces got a mock: from the written file (constructor + struct per mock); the hook's
    Collect events give the interface<->struct pairing when available."""
    d = root if pid == "root" else root / pid
    own = {"r.go", "a.go", "z.go"} | {n for n, _ in mix_sources().values()}
    files = [f for f in d.rglob("*.go") if f.name not in own]
    text = "\n".join(f.read_text(errors="replace") for f in files)
    # one entry per mock written: a mock written twice (two files, twice in one file) shows twice
    structs = re.findall(r"^type (\w+)(?:\[[^\n]*\])? struct", text, re.M)
    pairs = {(e.get("iface"), e.get("struct")) for e in hook_events if e.get("ev") == "Collect"}
    if pairs:
        return sorted(i for i, s in pairs for _ in range(structs.count(s)))
    out = []
    for s in structs:
        m = re.match(r"^(?:Mock|mock)(\w+)$", s)
        if m and re.search(r"^func New%s\b" % re.escape(s), text, re.M):
            out.append(m.group(1))
    return sorted(out)


def replay_case(ctx, run, idx, case):
    """Run one exported history against the real binary.  Returns (events, per-op observations)."""
    world = case["world"]
    root, cwd, target, pre, post = make_world(ctx, run, idx, case)
    mod = module_of(world)
    gopkgs = [{"s": pkg_string(world, p), "ifaces": sorted(GO_IFACES[p]), "may": sorted(GO_MAY[p]), "files": []} for p in ("root", "sub")]
    if case.get("mix"):     # what this package declares follows from its files: InitCmdTrace.tla works it out
        gopkgs.append({"s": pkg_string(world, "mix"), "ifaces": [], "may": [], "files": sorted(case["mix"])})
    events = [{"op": "reset", "case": idx, "snap": snapshot(target), "parent_ok": target.parent.is_dir(),
               "gopkgs": gopkgs, "anc": case.get("anc", "none")}]
    obs = []
    for j, o in enumerate(case["ops"]):
        before = snapshot(target)
        pres = presence(target)
        tf = ctx.scratch / "worlds" / f"w{idx}.trace{j}"
        if o["op"] == "init":
            s = pkg_string(world, o["pkg"])
            tree0 = tree_state(root)
            amb = dict(ENVS[case.get("env", "none")])
            extra = [amb.pop("_argv")] if "_argv" in amb else []
            try:
                code, out, err, hev, wall = run.mockery(cwd, pre + extra + ["init"] + post + ["--"] + pkg_args(world, o["pkg"]), tf, env=amb, timeout=30)
                hang = False
            except MachineryError:      # did not end: neither success nor a reported failure
                code, out, err, hev, wall, hang = -1, "", "timeout", [], 30.0, True
            after = snapshot(target)
            else_ = elsewhere(tree0, tree_state(root), root, target)
            created = after != before and pres != "yes" and os.path.isfile(target)
            ev = {"op": "init", "case": idx, "pkg": s, "exit": code, "before": before, "after": after,
                  "presence": pres, "created": created, "elsewhere": else_, "env": sorted(ENVS[case.get("env", "none")]),
                  "argc": len(pkg_args(world, o["pkg"])), "hang": hang}
            ob = {"ok": code == 0, "after": "same" if after == before else ("created" if created else "changed"), "elsewhere": else_, "hang": hang}
        elif o["op"] == "load":
            code, out, err, hev, wall = run.mockery(cwd / "sub" if o.get("from") == "below" else cwd,
                                                    load_args(case["cfg"], target, pre, post) + ["showconfig"], tf)
            after = snapshot(target)
            keys, eff = read_showconfig(out) if code == 0 else ([], {})
            fkeys, allv, top = read_file_projection(target) if os.path.isfile(target) else (["<no file>"], "-", {})
            ev = {"op": "load", "case": idx, "exit": code, "before": before, "after": after, "keys": keys,
                  "fkeys": fkeys, "all": allv, "top": top, "eff": eff}
            ob = {"ok": code == 0, "keys": keys, "fkeys": fkeys, "all": allv}
        elif o["op"] == "run":
            code, out, err, hev, wall = run.mockery(cwd / "sub" if o.get("from") == "below" else cwd,
                                                    load_args(case["cfg"], target, pre, post), tf)
            after = snapshot(target)
            pid = o["pkg"]
            mocked = mocked_interfaces(root, world, pid, hev) if pid in ("root", "sub", "mix") else []
            ev = {"op": "run", "case": idx, "exit": code, "before": before, "after": after, "mocked": mocked}
            ob = {"ok": code == 0, "mocked": mocked, "hook": hev}
        else:
            raise MachineryError(f"unknown op {o['op']}")
        ob["panic"] = bool(PANIC_RE.search(err) or PANIC_RE.search(out))
        ob["exit"] = code
        ob["tail"] = (err + out)[-400:]
        ob["before"], ob["after_snap"] = before, after
        events.append(ev)
        obs.append(ob)
    if not os.environ.get("VERIF_KEEP"):
        shutil.rmtree(root.parent.parent, ignore_errors=True)
    return events, obs


def race_case(ctx, run, idx, n, rnd):
    """n concurrent `mockery init` commands (distinct package strings) on one absent target path, then a load.
    Returns (events, observation)."""
    case = {"world": "main", "cfg": ("default", "rel", "subdir")[rnd % 3], "start": "absent", "ops": []}
    root, cwd, target, pre, post = make_world(ctx, run, idx, case)
    mod = module_of("main")
    pkgs = [f"{mod}/racer{i}" for i in range(n)]
    events = [{"op": "reset", "case": idx, "snap": snapshot(target), "parent_ok": target.parent.is_dir(), "gopkgs": []}]
    before, pres = snapshot(target), presence(target)
    # all commands block on a FIFO and are released together (as close to simultaneous as processes get)
    fifo = root.parent.parent / "gate"
    os.mkfifo(fifo)
    gate = os.open(fifo, os.O_RDWR)       # we are a writer, so the racers' reads block until we close
    procs = [subprocess.Popen(["sh", "-c", 'read _ < "$0"; exec "$@"', str(fifo), run.bin, *pre, "init", *post, "--", pkgs[i]],
                              cwd=cwd, env=go_env(), stdout=subprocess.PIPE, stderr=subprocess.STDOUT) for i in range(n)]
    deadline = time.time() + 60
    for p_ in procs:                      # wait until every racer sits in its read on the FIFO
        while True:
            try:
                if os.readlink(f"/proc/{p_.pid}/fd/0") == str(fifo):
                    break
            except OSError:
                pass
            if time.time() > deadline:
                os.close(gate)
                for q in procs:
                    q.kill()
                raise MachineryError("concurrent inits: the racers did not reach the gate")
            time.sleep(0.002)
    os.close(gate)                        # no writer left: every read returns, all commands start together
    res = []
    for p_ in procs:
        try:
            out_, _ = p_.communicate(timeout=120)
        except subprocess.TimeoutExpired:
            p_.kill()
            raise MachineryError("a concurrent mockery init did not finish")
        res.append((p_.returncode, out_.decode("utf8", "replace")[-300:]))
    after = snapshot(target)
    winners = [pkgs[i] for i in range(n) if res[i][0] == 0]
    ev = {"op": "race", "case": idx, "n": n, "exits": [r[0] for r in res], "oks": len(winners),
          "winner": winners[0] if len(winners) == 1 else "-", "before": before, "after": after, "presence": pres,
          "created": after != before and os.path.isfile(target) and not os.path.islink(target)}
    events.append(ev)
    stray = sorted(x.name for x in target.parent.iterdir() if x.name.startswith(target.name) and x.name != target.name)
    # what survives must be what the winner wrote: load it
    code, out, err, _, _ = run.mockery(cwd, pre + post + ["showconfig"])
    keys, eff = read_showconfig(out) if code == 0 else ([], {})
    fkeys, allv, top = read_file_projection(target) if os.path.isfile(target) else (["<no file>"], "-", {})
    events.append({"op": "load", "case": idx, "exit": code, "before": after, "after": snapshot(target), "keys": keys,
                   "fkeys": fkeys, "all": allv, "top": top, "eff": eff})
    ob = {"n": n, "exits": ev["exits"], "oks": len(winners), "winners": winners, "survivor_keys": fkeys, "loaded_keys": keys,
          "load_exit": code, "stray_files": stray, "tails": [r[1] for r in res][:3]}
    if not os.environ.get("VERIF_KEEP"):
        shutil.rmtree(root.parent.parent, ignore_errors=True)
    return events, ob


def conc(world, ids):
    return [pkg_string(world, i) for i in ids]


def judge_case(ctx, idx, case, obs):
    """Compare what the real code did with the contract's verdict exported by TLC (`allow`/`expect`).
    Returns list of (sig, detail); also notes drift (code != code-shaped model, contract satisfied)."""
    bad = []
    world = case["world"]
    for j, (o, ob) in enumerate(zip(case["ops"], obs)):
        base = {"op": o["op"], "from": o.get("from", "cwd"), "world_class": "main" if world == "main" else world[0], "cfg": case["cfg"],
                "files": ",".join(sorted(case.get("mix") or [])), "start": case["start"], "env": case.get("env", "none"), "anc": case.get("anc", "none"), "decoy": case.get("decoy", "none"), "pkg_id": o["pkg"], "step": j,
                "str_class": str_class(pkg_string(world, o["pkg"])) if o["pkg"] != "-" else "-"}
        det = {"case": case, "step": j, "observed": {k: v for k, v in ob.items() if k != "hook"}, "pkg_string": pkg_string(world, o["pkg"]) if o["pkg"] != "-" else None,
               "module": module_of(world)}
        if o["op"] == "init":
            got = {"ok": ob["ok"], "after": ob["after"]}
            if ob.get("hang"):
                bad.append((dict(base, kind="init-hang"), dict(det, expect="the command ends and reports failure")))
            elif got not in o["allow"]:
                bad.append((dict(base, kind="init-outcome", got_ok=ob["ok"], got_after=ob["after"]), dict(det, allowed=o["allow"])))
            elif ob["elsewhere"]:
                bad.append((dict(base, kind="init-wrote-elsewhere", where=",".join(ob["elsewhere"])[:80]), dict(det, expect="created exactly at the target path, nothing else touched")))
            elif got != {"ok": o["ok"], "after": o["after"]}:
                ctx.note(f"drift: init outcome {got} differs from InitCmd.tla ({o['ok']},{o['after']}) but is allowed (cfg={case['cfg']}, start={case['start']})")
        elif o["op"] == "load":
            e = o["expect"]
            if e["judged"]:
                want = conc(world, e["keys"])
                if ob["ok"] != e["ok"]:
                    bad.append((dict(base, kind="load-rejected"), dict(det, expect=e)))
                elif ob["keys"] != want or ob["fkeys"] != want:
                    bad.append((dict(base, kind="load-keys"), dict(det, expect_keys=want)))
                elif ob["all"] != e["all"]:
                    bad.append((dict(base, kind="load-all"), dict(det, expect=e)))
        elif o["op"] == "run":
            e = o["expect"]
            if e["judged"]:
                if ob["ok"] != e["ok"]:
                    bad.append((dict(base, kind="run-failed"), dict(det, expect=e)))
                elif not (set(e["mocked"]) <= set(ob["mocked"]) <= set(e["mocked"]) | set(e["may"])):
                    bad.append((dict(base, kind="run-mocked", missing=",".join(sorted(set(e["mocked"]) - set(ob["mocked"]))),
                                     extra=",".join(sorted(set(ob["mocked"]) - set(e["mocked"]) - set(e["may"])))), dict(det, expect=e)))
                elif len(ob["mocked"]) != len(set(ob["mocked"])):
                    bad.append((dict(base, kind="run-mocked-twice", twice=",".join(sorted({x for x in ob["mocked"] if ob["mocked"].count(x) > 1}))),
                                dict(det, expect=e)))
    return bad


def fn_(x):
    return [] if x in ([], {}) else x


def check_oracle(ctx):
    """Which names of the scratch packages are interfaces that must / may be mocked is decided by go/types
    (drivers/initifaces: go/packages + types.Interface.IsMethodSet), independently of mockery's discovery code;
    the tables of spec/InitCmdMC.tla must say the same (otherwise exit 2)."""
    drv = ctx.build_driver("initifaces")
    w = ctx.scratch / "oracle"
    (w / "sub").mkdir(parents=True)
    (w / "go.mod").write_text("module example.com/w\n\ngo 1.23\n")
    (w / "r.go").write_text(ROOT_GO)
    (w / "sub" / "a.go").write_text(SUB_A_GO)
    (w / "sub" / "z.go").write_text(SUB_Z_GO)
    for pid, pat in (("root", "example.com/w"), ("sub", "example.com/w/sub")):
        p = subprocess.run([str(drv), str(w), pat], capture_output=True, text=True, env=go_env(), timeout=300)
        if p.returncode != 0:
            raise MachineryError("go/types oracle failed: " + p.stderr[-500:])
        got = json.loads(p.stdout)
        if set(got["required"]) != GO_IFACES[pid] or set(got["optional"]) != GO_MAY[pid]:
            raise MachineryError(f"go/types says package {pid}: required {got['required']} optional {got['optional']}; "
                                 f"tables say {sorted(GO_IFACES[pid])} / {sorted(GO_MAY[pid])}")
    ctx.cov["oracle"] = "go/types (drivers/initifaces) agrees with IfacesOf / MayOf"


def check_oracle_files(ctx, cases, fileclass):
    """The packages given by their source files: for every set of file classes an exported history runs on, go/packages
    + go/types (drivers/initifaces) must say what the TLA+ contract says -- the files with status "in" are exactly
    the ones the toolchain compiles into the package on this host, the interfaces that must be mocked are exactly
    the method-set interfaces of the type-checked package, and none of the names left open is declared in it."""
    src = mix_sources()
    if set(src) != set(fileclass):
        raise MachineryError(f"file classes of InitCmdContract.tla and checks/c18.py differ: {sorted(set(src) ^ set(fileclass))}")
    expect = {}
    for c in cases:
        for o in c["ops"]:
            if o["op"] == "run" and o["pkg"] == "mix" and o["expect"]["judged"]:
                expect.setdefault(frozenset(c["mix"]), o["expect"])
    if not expect:
        raise MachineryError("vacuous: no judged run on a package given by its source files")
    drv = ctx.build_driver("initifaces")
    w = ctx.scratch / "oracle-files"
    w.mkdir()
    (w / "go.mod").write_text("module example.com/w\n\ngo 1.23\n")
    mixes = sorted(expect, key=sorted)
    for i, m in enumerate(mixes):
        write_mix(w / f"o{i}" / "mix", m)
    p = subprocess.run([str(drv), str(w)] + [f"example.com/w/o{i}/mix" for i in range(len(mixes))],
                       capture_output=True, text=True, env=go_env(), timeout=600)
    if p.returncode != 0:
        raise MachineryError("go/types oracle failed on the file-class packages: " + p.stderr[-800:])
    got = json.loads(p.stdout)
    if len(mixes) == 1:
        got = {got["package"][0]: got}
    for i, m in enumerate(mixes):
        g, e = got.get(f"example.com/w/o{i}/mix"), expect[m]
        if g is None:
            raise MachineryError(f"go/types oracle returned nothing for files {sorted(m)}")
        compiled = {src[f][0] for f in m if fileclass[f]["status"] == "in"}
        other = {n for f in m if fileclass[f]["status"] == "in" for n in fn_(fileclass[f]["other"])}
        why = None
        if set(g["gofiles"]) != compiled:
            why = f"the toolchain compiles {g['gofiles']} (leaves out {g['ignored']}), the contract says {sorted(compiled)}"
        elif set(g["required"]) != set(e["mocked"]):
            why = f"go/types: required {g['required']}; contract: {sorted(e['mocked'])}"
        elif g["optional"] or set(g["other"]) != other:
            why = f"go/types: optional {g['optional']} other {g['other']}; contract: other {sorted(other)}"
        elif set(fn_(e["may"])) & (set(g["required"]) | set(g["other"])):
            why = f"names left open by the contract are declared in the package: {e['may']}"
        if why:
            raise MachineryError(f"go/types oracle and InitCmdContract!FileClass disagree for files {sorted(m)}: {why}")
    ctx.cov["oracle_file_sets"] = len(mixes)
    return expect


def check_docs(ctx, docinit, doctable):
    """The documented defaults transcribed in spec/InitCmdDocs.tla must still be what /repo/docs says."""
    p = vlib.REPO / "docs" / "configuration.md"
    try:
        text = p.read_text()
    except OSError as e:
        raise MachineryError(f"cannot read {p}: {e}")
    m = re.search(r'```yaml title="\.mockery\.yml"\n(.*?)```', text, re.S)
    if not m:
        raise MachineryError("docs/configuration.md: init example not found")
    got = {}
    for ln in m.group(1).splitlines():
        if ln.startswith("packages:"):
            break
        k, _, v = ln.partition(": ")
        v = v.strip()
        if v[:1] == "'" and v[-1:] == "'":
            v = v[1:-1]
        if v in ("true", "false"):
            got[k] = v
        else:
            got[k] = json.dumps(v)
    if got != docinit:
        raise MachineryError(f"InitCmdDocs.tla MCDocInit disagrees with docs/configuration.md: doc={got} spec={docinit}")
    rows = {}
    for ln in text.splitlines():
        m = re.match(r"^\| (?:\[)?`([\w-]+)`[^|]*\|[^|]*\| `#!yaml (.*?)`\s*\|", ln)
        if m:
            rows[m.group(1)] = m.group(2)
    for k, v in doctable.items():
        if k not in rows:
            raise MachineryError(f"docs/configuration.md has no parameter row for {k}")
        d = rows[k]
        if d != v:
            raise MachineryError(f"InitCmdDocs.tla MCDocTable[{k}]={v} disagrees with docs ({d})")


def validate(ctx, events, by_case):
    """TLC trace validation of the concatenated op log in one run.  InitCmdTrace.tla records the first event
    of every case the contract does not accept (REJECTED) and skips the rest of that case."""
    ok, r = ctx.validate_trace("InitCmdTraceMC", "InitCmdTrace.cfg", events, timeout=900)
    n_cases = sum(1 for e in events if e["op"] == "reset")
    if r.consumed is None or r.consumed[0] != len(events):
        raise MachineryError("trace validation did not consume the whole op log:\n" + r.tail())
    m = re.search(r'<<\s*"REJECTED",\s*"(\[[\d,\s]*\])"\s*>>', r.text, re.S)   # TLC wraps long tuples over lines
    if not m:
        raise MachineryError("trace validation printed no REJECTED line:\n" + r.tail())
    idxs = json.loads(m.group(1))
    if ok != (len(idxs) == 0):
        raise MachineryError("trace validation verdict and REJECTED list disagree:\n" + r.tail())
    rejected = []
    for i1 in idxs:
        at = events[i1 - 1]
        rejected.append({"case": at["case"], "at": at, "events": by_case[at["case"]]})
    return n_cases, rejected


def run_replay(ctx, path):
    """bin/check C18 quick --replay <file>: re-run exactly the recorded history against the current tree."""
    try:
        rec = json.loads(Path(path).read_text())
        case = rec["detail"]["case"]
    except (OSError, ValueError, KeyError) as e:
        raise MachineryError(f"cannot read replay file {path}: {e}")
    for o in case["ops"]:
        if o["pkg"].startswith("w_r") and o["pkg"] not in WEIRD:
            WEIRD[o["pkg"]] = rec["detail"].get("pkg_string") or ""
    run_ = Runner(ctx)
    (ctx.scratch / "worlds").mkdir()
    evs, obs = replay_case(ctx, run_, 0, case)
    flagged = {}
    for sig, det in judge_case(ctx, 0, case, obs):
        flagged[0] = sig
        ctx.violation(sig, det)
    n_ok, rej = validate(ctx, evs, {0: evs})
    for rj in rej:
        if 0 not in flagged:
            ctx.violation({"kind": "trace-" + rj["at"]["op"], "op": rj["at"]["op"]}, {"case": case, "rejected_event": rj["at"], "op_log": evs})
    ctx.cov["evaluations"] = 1
    ctx.cov["traces_validated_against_impl"] = 1
    ctx.sample({"replayed": path, "op_log": evs})
    return {"level": "model_checking", "exhaustive": False}


def run(ctx):
    if yaml is None:
        raise MachineryError("PyYAML not available")
    if getattr(ctx, "replay", None):
        return run_replay(ctx, ctx.replay)
    thorough = ctx.thorough()
    # ---------------------------------------------------------------- 1. model checking
    cfg = "InitCmd_thorough.cfg" if thorough else "InitCmd_quick.cfg"
    r = ctx.tlc("InitCmdMC", cfg, workers=1, timeout=1200, coverage=thorough)
    if r.violated:
        ctx.note(f"model-level: {r.violated} violated on InitCmd (prediction only; the replay decides)")
    elif not r.ok:
        raise MachineryError("TLC failed on InitCmd:\n" + r.tail())
    if thorough:
        z = r.coverage_zero()
        if z:
            raise MachineryError("vacuous: spec actions never taken: " + "; ".join(z[:5]))
    docinit = r.prints("DOCINIT")
    doctable = r.prints("DOCTABLE")
    ifaces = r.prints("IFACES")
    if not (docinit and doctable and ifaces):
        raise MachineryError("TLC did not print the constant tables")
    check_docs(ctx, docinit[0], doctable[0])
    may = r.prints("MAY")
    if {k: set(v) for k, v in ifaces[0].items()} != GO_IFACES or not may or {k: set(fn_(v)) for k, v in may[0].items()} != GO_MAY:
        raise MachineryError("IfacesOf / MayOf in InitCmdMC.tla disagree with the tables in checks/c18.py")
    check_oracle(ctx)
    fileclass = r.prints("FILECLASSES")
    if not fileclass:
        raise MachineryError("TLC did not print the file-class table")
    fileclass = fileclass[0]
    cases = r.prints("CASE")
    # seed-dependent strings: same state machine, package ids w_r<n> concretised from ctx.rng
    rnd = random_strings(ctx.rng, 120 if thorough else 16)
    WEIRD.update(rnd)
    ids = sorted(rnd, key=lambda x: int(x[3:]))
    groups = [ids[i:i + 4] for i in range(0, len(ids), 4)]
    worlds_txt = ", ".join('W("r%d", {%s, "sub"}, {%s}, {"absent"})' % (gi + 1, ", ".join(json.dumps(x) for x in g), '"default", "rel"' if thorough else '"default"')
                           for gi, g in enumerate(groups))
    # seed-dependent sets of source files for the package "mix" (each with at least one compiled file that declares
    # an interface -- the others would be dropped by InitCmd!Init)
    fcs = sorted(fileclass)
    declaring = [f for f in fcs if fileclass[f]["status"] == "in" and fn_(fileclass[f]["ifaces"])]
    rmix = set()
    while len(rmix) < (40 if thorough else 3):
        m = set(ctx.rng.sample(fcs, ctx.rng.randint(3, len(fcs) - 2))) | {ctx.rng.choice(declaring)}
        rmix.add(frozenset(m))
    worlds_txt += ', WM("rfiles", {"default"}, {%s})' % ", ".join(
        "{" + ", ".join(json.dumps(f) for f in sorted(m)) + "}" for m in sorted(rmix, key=sorted))
    r2 = ctx.tlc("InitCmdRnd", "InitCmd_rnd.cfg", workers=1, timeout=600, files={"InitCmdRnd.tla": RND_MODULE % worlds_txt})
    if not r2.ok:
        raise MachineryError("TLC failed on InitCmdRnd:\n" + r2.tail())
    cases += r2.prints("CASE")
    # keep maximal histories only: a case that is a proper prefix of another one is replayed as part of it
    keyed = {}
    for c in cases:
        keyed[json.dumps(c, sort_keys=True)] = c
    cases = list(keyed.values())
    def opkey(c):
        return (c["world"], c["cfg"], c["start"], c.get("env", "none") + "/" + c.get("anc", "none") + "/" + c.get("decoy", "none"), tuple(json.dumps(o, sort_keys=True) for o in c["ops"]))
    keys = {opkey(c) for c in cases}
    prefixes = set()
    for k in keys:
        for n in range(1, len(k[4])):
            prefixes.add((k[0], k[1], k[2], k[3], k[4][:n]))
    n_transitions = len(cases)
    cases = [c for c in cases if opkey(c) not in prefixes]
    n_maximal = len(cases)
    # Histories that share everything but their last operation are replayed as one when that last operation
    # leaves the state as it is (a refused init, a load): the contract's verdict on an operation depends on the
    # state only, and "a refused init changes nothing" is itself judged at that operation.
    groups, order = {}, []
    for c in cases:
        k = opkey(c)
        gk = k[:4] + (k[4][:-1],)
        if gk not in groups:
            groups[gk] = []
            order.append(gk)
        groups[gk].append(c)
    merged = []
    for gk in order:
        keep, chain = [], []
        for c in groups[gk]:
            o = c["ops"][-1]
            if len(c["ops"]) >= 2 and ((o["op"] == "init" and not o["ok"]) or o["op"] == "load"):
                chain.append(c)
            else:
                keep.append(c)
        merged += keep
        if chain:
            merged.append(dict(chain[0], ops=chain[0]["ops"][:-1] + [c["ops"][-1] for c in chain]))
    cases = merged
    if len(cases) < 200:
        raise MachineryError(f"too few exported histories ({len(cases)}): vacuous")
    # vacuity guards on the exported cases
    def has(pred):
        return any(pred(c) for c in cases)
    guards = {
        "init on an existing file": lambda c: any(o["op"] == "init" and not o["ok"] for o in c["ops"]) and c["start"] not in ("absent",),
        "Init; Init": lambda c: [o["op"] for o in c["ops"][:2]] == ["init", "init"] and c["ops"][0]["ok"],
        "Init(a); Init(b)": lambda c: len(c["ops"]) >= 2 and c["ops"][0]["op"] == "init" and c["ops"][1]["op"] == "init" and c["ops"][0]["pkg"] != c["ops"][1]["pkg"] and c["ops"][0]["ok"],
        "Init; Run; Init": lambda c: [o["op"] for o in c["ops"][:3]] == ["init", "run", "init"] and c["ops"][1]["ok"],
        "judged run": lambda c: any(o["op"] == "run" and o["expect"]["judged"] for o in c["ops"]),
        "judged load of an odd string": lambda c: any(o["op"] == "load" and o["expect"]["judged"] and o["pkg"].startswith("w_") for o in c["ops"]),
        "YAML-significant module path run": lambda c: c["world"].startswith("m_") and any(o["op"] == "run" and o["expect"]["judged"] and o["pkg"] == "root" for o in c["ops"]),
        "missing parent directory": lambda c: c["cfg"] == "missing",
        "init under MOCKERY_* variables, judged load": lambda c: c.get("env", "none") != "none" and any(o["op"] == "load" and o["expect"]["judged"] for o in c["ops"]),
        "init under MOCKERY_* variables, judged run": lambda c: c.get("env", "none") != "none" and any(o["op"] == "run" and o["expect"]["judged"] for o in c["ops"]),
        "ancestor config, judged run": lambda c: c.get("anc", "none") != "none" and any(o["op"] == "run" and o["expect"]["judged"] for o in c["ops"]),
        "ancestor .mockery.yaml two levels up": lambda c: c.get("anc", "").startswith("u2-yaml"),
        "symlink/.. target with a file at the real target only": lambda c: c["cfg"] in ("linkup", "linkupabs") and c["start"] != "absent" and c.get("decoy") == "absent",
        "symlink/.. target absent, decoy present": lambda c: c["cfg"] in ("linkup", "linkupabs") and c["start"] == "absent" and c.get("decoy") == "valid" and any(o["op"] == "load" and o["expect"]["judged"] for o in c["ops"]),
        "load from a sub-directory (search upwards)": lambda c: any(o["op"] == "load" and o.get("from") == "below" and o["expect"]["judged"] for o in c["ops"]),
        "run from a sub-directory": lambda c: any(o["op"] == "run" and o.get("from") == "below" and o["expect"]["judged"] for o in c["ops"]),
        "named pipe at the target": lambda c: c["start"] == "fifo",
        "init without a package argument on an absent target": lambda c: c["start"] == "absent" and c["ops"] and c["ops"][0]["op"] == "init" and c["ops"][0]["pkg"] == "a_none",
        "init under MOCKERY_CONFIG": lambda c: c.get("env") in ("config", "several") and any(o["op"] == "init" and o["ok"] for o in c["ops"]),
        "dangling link": lambda c: c["start"] == "dangling",
        "directory at the target": lambda c: c["start"] in ("dir", "dirfull"),
    }
    for name, pred in guards.items():
        if not has(pred):
            raise MachineryError(f"vacuous: no exported history with: {name}")
    # source-file classes: every class appears in a judged run; the classes that matter are there on their own terms
    mix_expect = check_oracle_files(ctx, cases, fileclass)
    seen_fc = set().union(*mix_expect)
    if seen_fc != set(fileclass):
        raise MachineryError(f"vacuous: file classes in no judged run: {sorted(set(fileclass) - seen_fc)}")
    fguards = {
        "a file with a generated-code header next to a hand-written one": lambda m: {"gen", "plain"} <= m,
        "a package that is nothing but a generated file": lambda m: all(fileclass[f]["status"] != "in" or f == "gen" for f in m) and "gen" in m,
        "a file left out by the toolchain next to compiled ones": lambda m: any(fileclass[f]["status"] == "either" for f in m),
        "several files declaring interfaces": lambda m: sum(1 for f in m if fileclass[f]["status"] == "in" and fn_(fileclass[f]["ifaces"])) >= 3,
        "every class at once": lambda m: m == set(fileclass),
    }
    for name, pred in fguards.items():
        if not any(pred(set(m)) for m in mix_expect):
            raise MachineryError(f"vacuous: no judged run on a package with: {name}")
    for m, e in mix_expect.items():
        if not set(e["mocked"]) or set(e["mocked"]) & set(fn_(e["may"])):
            raise MachineryError(f"vacuous / inconsistent expectation for files {sorted(m)}: {e}")
    used_ids = {o["pkg"] for c in cases for o in c["ops"] if o["pkg"] not in ("-", "root", "sub", "mix") and o["pkg"] not in ARG_SHAPES}
    unknown_env = {c.get("env", "none") for c in cases} - set(ENVS)
    if unknown_env:
        raise MachineryError(f"environment classes without a concretisation: {unknown_env}")
    unknown = used_ids - set(WEIRD)
    if unknown:
        raise MachineryError(f"package ids without a concretisation: {unknown}")
    used_worlds = {c["world"] for c in cases}
    if not {"main"} <= used_worlds or not any(w.startswith("m_") for w in used_worlds):
        raise MachineryError("vacuous: worlds missing")

    # ---------------------------------------------------------------- 2. replay with the real binary
    run_ = Runner(ctx)
    (ctx.scratch / "worlds").mkdir()
    # module-path sanity (machinery, not verdict): every world module must be loadable by the go tool
    t0 = time.time()
    results = [None] * len(cases)

    def work(i):
        return replay_case(ctx, run_, i, cases[i])

    with ThreadPoolExecutor(max_workers=min(10, ctx.workers())) as ex:
        for i, res in enumerate(ex.map(work, range(len(cases)))):
            results[i] = res
    replay_wall = time.time() - t0
    all_events = []
    by_case = {}
    n_ops = 0
    flagged = {}
    for i, (evs, obs) in enumerate(results):
        all_events += evs
        by_case[i] = evs
        n_ops += len(obs)
        for sig, det in judge_case(ctx, i, cases[i], obs):
            flagged[i] = sig
            ctx.violation(sig, det)
    ctx.cov["evaluations"] += len(cases)
    ctx.cov["real_invocations"] = n_ops
    ctx.cov["replay_wall_s"] = round(replay_wall, 1)
    ctx.cov["ops_by_kind"] = {k: sum(1 for c in cases for o in c["ops"] if o["op"] == k) for k in ("init", "load", "run")}

    # ---------------------------------------------------------------- 2b. concurrent inits
    # TLC: the O_EXCL model satisfies "exactly one winner, never replaced" under every interleaving; the split
    # check-then-rename model must violate it (the race exists in the model, so the cases are not vacuous).
    ra = ctx.tlc("InitCmdConc", "InitCmdConc_atomic.cfg", workers=2, timeout=600)
    if not ra.ok:
        raise MachineryError("TLC: the atomic concurrent-init model does not satisfy its contract:\n" + ra.tail())
    rs = ctx.tlc("InitCmdConc", "InitCmdConc_split.cfg", workers=1, timeout=600, count=False)
    if rs.violated != "ExactlyOneWinner":
        raise MachineryError("vacuous: TLC finds no race in the split (check, then publish) model:\n" + rs.tail())
    ns = sorted({c["n"] for c in ra.prints("CONC")})
    if len(ns) < 3:
        raise MachineryError(f"concurrent-init model exported too few sizes: {ns}")
    # schedules cannot be forced: repeat for a time budget (at least min_rounds, at most max_rounds rounds)
    min_rounds, max_rounds, budget = (24, 400, 60.0) if thorough else (8, 80, 7.0)
    race_obs = []
    t0 = time.time()
    for rnd in range(max_rounds):
        if rnd >= min_rounds and time.time() - t0 > budget:
            break
        for n in ns:
            idx = len(cases) + len(race_obs)
            evs, ob = race_case(ctx, run_, idx, n, rnd)
            race_obs.append(ob)
            by_case[idx] = evs
            all_events += evs
            if ob["oks"] != 1:          # expectation exported by the model: oks = 1
                sig = {"kind": "concurrent-init-winners", "op": "race", "n": n, "oks": ob["oks"], "pkg_id": "-", "str_class": "-", "step": 0}
                flagged[idx] = sig
                ctx.violation(sig, {"observed": ob, "expect": "exactly one of the concurrent inits reports success"})
            elif ob["survivor_keys"] != ob["winners"] or ob["loaded_keys"] != ob["winners"]:
                sig = {"kind": "concurrent-init-survivor", "op": "race", "n": n, "pkg_id": "-", "str_class": "-", "step": 1}
                flagged[idx] = sig
                ctx.violation(sig, {"observed": ob, "expect": "the surviving file is the winner's"})
    ctx.cov["concurrent_init_races"] = len(race_obs)
    ctx.cov["concurrent_init_sizes"] = ns
    ctx.cov["concurrent_wall_s"] = round(time.time() - t0, 1)
    ctx.cov["evaluations"] += len(race_obs)

    # ---------------------------------------------------------------- 3. trace validation of the op logs
    n_ok, rej = validate(ctx, all_events, by_case)
    ctx.cov["traces_validated_against_impl"] += n_ok
    ctx.cov["traces_rejected"] = len(rej)
    for rj in rej:
        if rj["case"] >= len(cases):        # a concurrent-init case
            if rj["case"] not in flagged:
                ctx.violation({"kind": "trace-" + rj["at"]["op"], "op": rj["at"]["op"], "pkg_id": "-", "str_class": "-", "race": True},
                              {"rejected_event": rj["at"], "op_log": rj["events"]})
            continue
        c = cases[rj["case"]]
        at = rj["at"]
        step = sum(1 for e in rj["events"][:rj["events"].index(at)] if e["op"] != "reset")
        o = c["ops"][step] if step < len(c["ops"]) else {"op": at["op"], "pkg": "-"}
        if rj["case"] in flagged and flagged[rj["case"]]["step"] == step:
            continue  # same step already reported by the replay comparison with a more precise signature
        kind = "trace-" + at["op"]
        why = None
        if at["op"] == "load":
            # for the report only: which documented default is not stated / not in effect
            di, dt = docinit[0], doctable[0]
            diff = {k: at["top"].get(k) for k in di if at["top"].get(k) != di[k]}
            diff.update({k: v for k, v in at["top"].items() if k not in di and dt.get(k) != v})
            diff_eff = {k: at["eff"].get(k) for k in di if at["eff"].get(k) != di[k]}
            if diff:
                kind, why = "defaults-stated", diff
            elif diff_eff:
                kind, why = "defaults-in-effect", diff_eff
        sig = {"kind": kind, "op": at["op"], "world_class": "main" if c["world"] == "main" else c["world"][0],
               "cfg": c["cfg"], "start": c["start"], "env": c.get("env", "none"), "anc": c.get("anc", "none"), "pkg_id": o["pkg"], "step": step,
               "str_class": str_class(pkg_string(c["world"], o["pkg"])) if o["pkg"] != "-" else "-"}
        if why:
            sig["keys"] = ",".join(sorted(why))
        ctx.violation(sig, {"case": c, "rejected_event": at, "op_log": rj["events"], "why": why,
                            "contract": "spec/InitCmdTrace.tla + InitCmdContract.tla"})

    # ---------------------------------------------------------------- 3b. hook traces of the plain runs
    # The build-tag hooks fire during the plain `mockery` runs; their traces are validated against the
    # pipeline trace specification (spec/PipelineTrace.tla, owned by C09/C10).  A rejection there is not a
    # C18 verdict (C18's contract is InitCmdContract): it is reported as a note.
    try:
        from pipetrace import validate_runs
        hook_runs = [vlib.RunResult(ob["exit"], "", "", 0.0, False, ob["hook"])
                     for _, obs in results for ob in obs if ob.get("hook")]
        if hook_runs:
            rj = validate_runs(ctx, hook_runs[:400])
            ctx.cov["hook_traces_validated_against_PipelineTrace"] = getattr(rj, "validated", 0)
            for x in list(rj)[:3]:
                ctx.note(f"hook trace of a plain run rejected by PipelineTrace.tla (C09/C10 matter): {x.get('why')}")
    except MachineryError as e:
        ctx.note(f"hook traces not validated (PipelineTrace machinery): {str(e)[:200]}")
    except ImportError:
        ctx.note("hook traces not validated: lib/pipetrace.py not available")

    # ---------------------------------------------------------------- evidence
    mid = len(cases) // 2
    for i in (0, mid, len(cases) - 1):
        ctx.sample({"case": {k: cases[i].get(k) for k in ("world", "cfg", "start", "env", "anc", "decoy")},
                    "ops": [{"op": o["op"], "pkg": pkg_string(cases[i]["world"], o["pkg"]) if o["pkg"] != "-" else None} for o in cases[i]["ops"]],
                    "op_log": by_case[i][1:]})
    for i, c in enumerate(cases):
        if c["world"].startswith("m_") and any(o["op"] == "run" and o["expect"]["judged"] for o in c["ops"]):
            ctx.sample({"case": {k: c[k] for k in ("world", "cfg", "start")}, "module": module_of(c["world"]), "op_log": by_case[i][1:]})
            break
    ctx.cov["distinct_nontrivial"] = sum(1 for c in cases if len(c["ops"]) >= 2)
    ctx.cov["rule"] = ("every transition TLC generated on InitCmd.tla, each with a representative history (maximal histories replayed); "
                       "non-trivial = at least two operations")
    ctx.cov["model_transitions_exported"] = n_transitions
    ctx.cov["maximal_histories"] = n_maximal
    ctx.cov["histories_replayed"] = len(cases)
    ctx.cov["package_strings"] = len(used_ids) + 2 * len(used_worlds)
    ctx.cov["worlds"] = sorted(used_worlds)
    ctx.cov["source_file_sets"] = len(mix_expect)
    ctx.cov["source_file_classes"] = sorted(seen_fc)
    ctx.cov["runs_on_file_sets"] = sum(1 for c in cases for o in c["ops"] if o["op"] == "run" and o["pkg"] == "mix" and o["expect"]["judged"])
    ctx.assumptions += [
        "small-scope: histories up to MaxHist operations over one target path per behaviour; the alphabets are in spec/InitCmdMC.tla",
        "package strings are the %d listed in checks/c18.py (argv cannot carry NUL; invalid UTF-8 not tried)" % len(WEIRD),
        "documented defaults = the init example of docs/configuration.md, for other keys the parameter table (cross-checked against the docs at start-up)",
        "the plain run is judged only for strings that name a Go package of the scratch module (module paths incl. YAML-significant ones: true, null, 123, 1.5, yes, on, n, 0x1f, 2001-01-01)",
        "source files of the named package: the 14 classes of InitCmdContract!FileClass (cgo-free; host GOOS from `go env`); which files the toolchain compiles is cross-checked with go/packages at start-up; "
        "interfaces in _test.go files, in the external _test package and in files excluded on this host are left open (may be mocked or not)",
        "runs as root: permission-based protection of an existing file is not exercised",
        "concurrent inits: real schedules cannot be forced (init.go has no hook); n processes are released from a barrier, several rounds per n -- the model check covers every interleaving, the replay samples them",
    ]
    return {"level": "model_checking", "exhaustive": False}


if __name__ == "__main__":
    main("C18", run)
