#!/usr/bin/env python3
"""ROOT -- the whole `mockery` run as one state machine (spec/Mockery.tla), development / auxiliary check.

  1. TLC checks the root specification exhaustively over a small world (3 packages incl. a recursive parent with a
     sub-package, <= 2 interfaces each, <= 2 `configs` entries, 2 templated parameters with markers at the 4 levels,
     3-5 output files, one optional fault; every command of the binary): END-TO-END invariants composing selection,
     configuration resolution, template resolution and the per-file pipeline; no deadlock = every behaviour of the
     code-shaped model satisfies every clause of the run skeleton AND the contract-* clauses.
  2. Every world is exported with the contract's expectation (Mockery!Contract, computed by TLC), materialised
     (scratch module + config file(s) + environment + flags + pre-existing files), run through the binary built from
     the working tree, and the observed exit status / file tree / showconfig output compared with the expectation.
  3. The COMPLETE hook trace of every run is validated by TLC against spec/MockeryTrace.tla (lib/runtrace.py), with
     the contract's expectation attached; plus a few hundred / thousand runs over randomly built diverse worlds
     (calibration: the world-free clauses must accept whatever the real code legitimately does).
  4. Behaviour no listed property names: showconfig shows what a run uses, log level (flag / MOCKERY_LOG_LEVEL) changes
     neither files nor status, version / help / unknown flag / unknown sub-command leave the tree untouched.
  5. Binding self-test: ~25 single-field corruptions / dropped events of an accepted real trace must each be rejected
     with the clause they target.
Python only concretises, runs, projects and compares; every expectation comes out of TLC.
"""
from __future__ import annotations

import json
import os
import re
import shutil
import sys
import threading
import time
from pathlib import Path

sys.path.insert(0, os.path.join(os.path.dirname(os.path.abspath(__file__)), "..", "lib"))
import pipetrace  # noqa: E402
import runtrace  # noqa: E402
import vlib  # noqa: E402
from vlib import MachineryError  # noqa: E402

PROBES = Path(__file__).resolve().parent.parent / "probes" / "root"
TEMPLATES = {p.name: p.read_text() for p in sorted((PROBES / "tmpl").iterdir())}
MOD = "example.com/w"
SRC = {
    "w/a/svc.go": "package apk\n\ntype A1 interface{ F(x int) string }\n\ntype A2 interface{ G() error }\n",
    "w/a/b/svc.go": "package bpk\n\ntype B1 interface{ F(x int) string }\n",
    "w/a/b/c/svc.go": "package cpk\n\ntype C1 interface{ F(x int) string }\n",
    "w/k/svc.go": "package kpk\n\ntype K1 interface{ F(x int) string }\n\ntype K2 interface{ G() }\n",
    "w/unrelated.txt": "keep me\n",
    "w/a/notes.md": "keep me too\n",
}
PKGPATH = {"a": MOD + "/a", "ab": MOD + "/a/b", "abc": MOD + "/a/b/c", "k": MOD + "/k"}
PKGNAME = {"a": "apk", "ab": "bpk", "abc": "cpk", "k": "kpk"}
GO_TOOL_FILES = ("w/go.mod", "w/go.sum")      # inputs the go command may touch; never written by mockery
ARGV = {"run": [], "showconfig": ["showconfig"], "version": ["version"], "help": ["--help"], "badflag": ["--no-such-flag"],
        "badcmd": ["frobnicate"], "completion": ["completion", "bash"], "helpcmd": ["help", "showconfig"], "init": ["init", MOD + "/a"], "migrate": ["migrate"]}
V2DOC = {"with-expecter": True, "mockname": "M{{.InterfaceName}}", "outpkg": "mocks",
         "packages": {MOD + "/a": {"config": {"all": True}}, MOD + "/k": {"interfaces": {"K1": {"config": {"mockname": "Kay"}}}}}}
MIGRATE_OUT = {"default": [], "rel": ["--outfile", "out/v3.yml"]}
TEMPLATED = ("filename", "structname", "pkgname", "template-schema")


# ---------------------------------------------------------------------------------------------------- concretisation
def tok_text(toks):
    out = []
    for t in toks:
        if t["k"] == "lit":
            out.append(t["s"])
        elif t["k"] == "var":
            out.append("{{." + t["v"] + "}}")
        else:
            raise MachineryError(f"token kind {t['k']} is not concretised")
    return "".join(out)


DIRFORM = {"def": "{{.InterfaceDir}}", "mocks": "{{.InterfaceDir}}/mocks", "up": "{{.InterfaceDir}}/../gen"}
SUBTAG = {"ab": "/a/b$", "abc": "/a/b/c$"}
DATAVAL = {"str": "yes", "int": 7}


def value(param, v, R):
    """abstract parameter value (as exported by TLC) -> what is written into .mockery.yml / shown by showconfig"""
    if param in TEMPLATED:
        return tok_text(v)
    if param == "dir":
        return DIRFORM[v]
    if param == "template":
        return v if v in ("testify", "matryer") else f"file://{R}/tmpl/{v}.templ"
    if param in ("include-interface-regex", "exclude-interface-regex"):
        return "^(" + "|".join(sorted(v)) + ")$" if v else ""
    if param == "exclude-subpkg-regex":
        return [SUBTAG[x] for x in v]
    if param == "template-data":
        return {k: DATAVAL[x] for k, x in (v.items() if isinstance(v, dict) else [])}
    return v


def level(cfg, node, R):
    return {p: value(p, v, R) for p, v in cfg.get(node, {}).items()}


def config_doc(world, R, decoy=False):
    cfg, shape = world["cfg"], world["shape"]
    if world.get("cfgkind") == "empty":
        return None
    doc = level(cfg, "root", R)
    if decoy:
        doc["structname"] = "Decoy{{.InterfaceName}}"
    if world["pkgfault"] == "unknown-key":
        doc["no-such-parameter"] = 1
    pa = {"config": level(cfg, "a", R)}
    pk = {"config": level(cfg, "k", R), "interfaces": {"K1": {"config": level(cfg, "k.K1", R)}}}
    if shape in ("S1", "S3"):
        pa["interfaces"] = {"A1": {"config": level(cfg, "a.A1", R),
                                   "configs": [level(cfg, "a.A1.1", R), level(cfg, "a.A1.2", R)]}}
    if shape == "S3":
        pk["interfaces"]["Nope"] = {"config": level(cfg, "k.Nope", R)}
    doc["packages"] = {PKGPATH["a"]: pa, PKGPATH["k"]: pk}
    if shape == "S4":
        doc["packages"][PKGPATH["ab"]] = {"config": level(cfg, "ab", R)}
    if world.get("cfgkind") == "nopackages":
        del doc["packages"]
    return doc


BOOL_SPELL = {"lower": ("true", "false"), "upper": ("TRUE", "FALSE"), "title": ("True", "False"), "mixed": ("tRuE", "fAlSe"),
              "one": ("1", "0")}


def env_of(world, R):
    """MOCKERY_<PARAM>: the parameter's name upper-cased with '-' spelled '_'; booleans in the world's spelling"""
    env = {}
    t, f = BOOL_SPELL[world.get("envspell", "lower")]
    for p, v in world["cfg"].get("env", {}).items():
        x = value(p, v, R)
        env["MOCKERY_" + p.upper().replace("-", "_")] = (t if x else f) if isinstance(x, bool) else ",".join(x) if isinstance(x, list) else str(x)
    return env


def absdir(R, segs):
    return os.path.join(R, *segs) if segs else R


def subst(x, R):
    """replace Layout!RootStr in everything TLC exported"""
    if isinstance(x, str):
        return x.replace("%R%", R)
    if isinstance(x, list):
        return [subst(y, R) for y in x]
    if isinstance(x, dict):
        return {subst(k, R): subst(v, R) for k, v in x.items()}
    return x


def user_content(path):
    pk = {"a": "apk", "b": "bpk", "c": "cpk", "k": "kpk"}.get(os.path.basename(os.path.dirname(path)), "gen")
    return f"package {pk}\n\n// USER CONTENT of {os.path.basename(path)}: must survive unless force-file-write is on\n"


class World:
    """one exported case, materialised"""

    def __init__(self, ctx, cid, case):
        self.cid, self.case = cid, case
        self.world = case["world"]
        d = ctx.scratch / f"rw{cid}"
        d.mkdir(parents=True, exist_ok=True)
        self.R = str(d)
        self.exp = subst(case["expect"], self.R)
        lay = subst(case["layout"], self.R)
        files = dict(SRC)
        files["w/go.mod"] = vlib.GO_SUM_MOD
        for n, t in TEMPLATES.items():
            files["tmpl/" + n] = t
        if self.world.get("tagged"):
            files["w/k/svc.go"] = "package kpk\n\ntype K1 interface{ F(x int) string }\n"
            files["w/k/extra.go"] = "//go:build extra\n\npackage kpk\n\ntype K2 interface{ G() }\n"
        if self.world.get("container"):
            del files["w/a/svc.go"]                    # package a: a directory with sub-packages only
        if self.world["pkgfault"] == "parse-error":
            files["w/k/broken.go"] = "package kpk\n\nfunc broken( {\n"
        vlib.write_files(d, files)
        shutil.copy(vlib.REPO / "go.sum", d / "w" / "go.sum")
        if self.world["pkgfault"] != "nocfg":
            for segs, name, role in lay["files"]:
                p = Path(absdir(self.R, segs)) / name
                p.parent.mkdir(parents=True, exist_ok=True)
                doc = config_doc(self.world, self.R, decoy=(role == "decoy"))
                if self.world["argv"] == "migrate":            # the file in place is a v2 configuration
                    doc = V2DOC
                p.write_text("" if doc is None else json.dumps(doc, indent=1))
        for f in subst(self.world["occ"], self.R):
            Path(f).parent.mkdir(parents=True, exist_ok=True)
            Path(f).write_text(user_content(f))
        self.cwd = absdir(self.R, lay["cwd"])
        self.env = env_of(self.world, self.R)
        self.args = list(ARGV[self.world["argv"]])
        if self.world["argv"] == "migrate":
            self.args += MIGRATE_OUT[self.world["mout"]]
            (Path(self.R) / "w" / "out").mkdir(exist_ok=True)      # the directory --outfile points into exists
        mode = self.world["lay"]["mode"]
        if mode.startswith("flag"):
            self.args = ["--config", lay["param"]] + self.args
        if mode.startswith("env_"):
            self.env["MOCKERY_CONFIG"] = lay["param"]
        if mode.startswith("flagenv"):
            self.env["MOCKERY_CONFIG"] = lay["envparam"]
        fl = self.world["cfg"].get("flag", {})
        if "log-level" in fl:
            self.args = ["--log-level", fl["log-level"]] + self.args
        fp = self.world["fp"]
        self.fail = None if fp["point"] == "-" else f"{fp['point']}:{subst(fp['key'], self.R)}"

    def run(self, ctx, extra_args=(), extra_env=None):
        env = dict(self.env)
        env.update(extra_env or {})
        return pipetrace.run(ctx, self.cwd, args=list(extra_args) + self.args, env=env, timeout=120, fail=self.fail)


# ---------------------------------------------------------------------------------------------------- observation
PAIR_RE = [re.compile(r"^// (\w+) is an autogenerated mock type for the (\w+) type", re.M),
           re.compile(r"^// (\w+) is a mock implementation of (?:\w+\.)?(\w+)\.", re.M),
           re.compile(r"^// (\w+) stands in for (\w+)\.", re.M)]


def observe_file(path):
    try:
        text = Path(path).read_text(errors="replace")
    except OSError:
        return None
    m = re.search(r"^package (\w+)", text, re.M)
    pairs = set()
    for rx in PAIR_RE:
        for s, i in rx.findall(text):
            pairs.add((i, s))
    return {"pkgname": m.group(1) if m else "", "structs": sorted(pairs), "generated": "DO NOT EDIT" in text}


def tree_changes(R, before, after):
    ch = {}
    for k in set(before) | set(after):
        if k in GO_TOOL_FILES:
            continue
        if before.get(k) != after.get(k):
            ch[k] = (before.get(k), after.get(k))
    return ch


def judge_run(ctx, W, r, before, after):
    """contract expectation (from TLC) vs. what the real binary did.  -> list of (sig, detail)"""
    w, exp, R = W.world, W.exp, W.R
    out = []
    base = {"tag": w["tag"], "argv": w["argv"], "shape": w["shape"], "fault": w["pkgfault"], "fp": w["fp"]["point"],
            "envspell": w.get("envspell", "lower")}

    def bad(kind, **kw):
        sig = dict(base, kind=kind)
        sig.update({k: v for k, v in kw.items() if k in ("param", "what")})
        out.append((sig, {"case": W.case, "root": R, "args": W.args, "env": W.env, "observed": kw, "run": r.brief()}))

    if r.timed_out:
        bad("timeout")
        return out
    if r.panicked:
        bad("panic")
    if (r.code == 0) != (exp["exit"] == "zero"):
        bad("exit-status", expected=exp["exit"], got=r.code)
    ch = tree_changes(R, before, after)
    designated = {os.path.relpath(f, R): f for f in exp["files"]}
    cmdout = {loc_path(k): k for k in exp["cmdout"]}          # init / migrate: the one file they may create (relative to R)
    allowed_dirs = set()
    for rel in designated:
        p = os.path.dirname(rel)
        while p:
            allowed_dirs.add(p)
            p = os.path.dirname(p)
    for rel, (b, a) in sorted(ch.items()):
        if rel in designated:
            continue
        if rel in cmdout and b is None:
            continue
        if rel in allowed_dirs and b is None and a == "DIR":
            continue
        bad("frame", what="changed-outside-designated-paths", path=rel, before=b, after=a)
    for rel, f in sorted(designated.items()):
        allowed = exp["allowed"][f]
        if rel not in ch:
            got = "old"
        else:
            o = observe_file(f)
            want = exp["new"][f]
            if o is not None and o["pkgname"] == want["pkgname"] and o["structs"] == sorted(tuple(x) for x in want["structs"]):
                got = "new"
            else:
                got = "other"
                bad("file-content", what="neither-old-nor-the-contracts-new-content", path=rel, observed=o, expected=want)
                continue
        if got not in allowed:
            bad("file-outcome", what=f"{got}-not-in-{'/'.join(sorted(allowed))}", path=rel, mustkeep=exp["mustkeep"][f])
    r.changed = [os.path.join(R, rel) for rel, (b, a) in ch.items() if a != "DIR" and b != "DIR"]
    return out


SHOW_PARAMS = ("all", "recursive", "dir", "filename", "structname", "pkgname", "template", "template-schema", "force-file-write",
               "log-level", "build-tags", "formatter", "require-template-schema-exists", "template-data", "include-interface-regex", "exclude-interface-regex", "exclude-subpkg-regex")


def judge_showconfig(ctx, W, r):
    import yaml
    w, exp, R = W.world, W.exp, W.R
    out = []
    base = {"tag": w["tag"], "argv": "showconfig", "shape": w["shape"], "fault": w["pkgfault"]}

    def bad(kind, **kw):
        out.append((dict(base, kind=kind, **{k: v for k, v in kw.items() if k in ("param", "node", "what")}),
                    {"case": W.case, "root": R, "args": W.args, "env": W.env, "observed": kw, "run": r.brief()}))

    if exp["exit"] != "zero" or r.code != 0:
        return out
    try:
        doc = yaml.safe_load(r.out)
    except yaml.YAMLError as e:
        bad("showconfig-unparsable", err=str(e))
        return out
    if not isinstance(doc, dict) or "packages" not in doc:
        bad("showconfig-shape", got=str(doc)[:300])
        return out

    def cmp(node, shown, want):
        for p in SHOW_PARAMS:
            e = value(p, want[p], R)
            g = shown.get(p)
            if p == "exclude-subpkg-regex":
                g = g or []
            if p == "template-data":
                g = g or {}
            if g != e:
                bad("showconfig-value", node=node, param=p, expected=e, got=g)

    # round trip: what showconfig prints is "a yaml representation of the config": fed back through --config it must be
    # accepted by the loader and show the same again (the file path itself aside)
    if w["lay"]["mode"].startswith("search"):
        rt = Path(R) / "roundtrip.yml"
        rt.write_text(r.out)
        r2 = pipetrace.run(ctx, W.cwd, args=["--config", str(rt), "showconfig"], env=W.env, timeout=120)
        strip = lambda t: [ln for ln in t.splitlines() if not ln.strip().startswith("config:")]  # noqa: E731
        if r2.code != 0:
            bad("showconfig-roundtrip", what="output-not-loadable", exit=r2.code, err=(r2.err + r2.out)[-300:])
        elif strip(r2.out) != strip(r.out):
            bad("showconfig-roundtrip", what="output-changes-when-loaded")
        rt.unlink()

    cmp("top", doc.get("Config", {}), exp["top"])
    want_pkgs = {t["path"]: t["cfg"] for t in exp["table"].values()}
    got_pkgs = doc.get("packages") or {}
    if set(got_pkgs) != set(want_pkgs):
        bad("showconfig-packages", expected=sorted(want_pkgs), got=sorted(got_pkgs))
    for path, want in want_pkgs.items():
        if path in got_pkgs:
            cmp(path, (got_pkgs[path] or {}).get("config") or {}, want)
    for n, want in exp["nodes"].items():
        pid, iface = n.split(".")[0], n.split(".")[1]
        ic = ((got_pkgs.get(PKGPATH[pid]) or {}).get("interfaces") or {}).get(iface) or {}
        if n.count(".") == 1:
            cmp(n, ic.get("config") or {}, want)
        else:
            k = int(n.split(".")[2]) - 1
            cs = ic.get("configs") or []
            cmp(n, cs[k] if k < len(cs) else {}, want)
    return out


def loc_path(k):
    """location id of a file init / migrate may create (MigrateContract!OutLocId, "config") -> path relative to R"""
    if k == "config":
        return "w/.mockery.yml"
    if k.startswith("cwd:"):
        return os.path.normpath(os.path.join("w", k[4:]))
    raise MachineryError("location id not concretised: " + k)


def judge_writer(ctx, W, r, before, after):
    """init / migrate: exactly the designated file appears iff the contract says the command succeeds, and mockery
    itself loads it (showconfig)."""
    import yaml
    w, exp, R = W.world, W.exp, W.R
    out = []
    base = {"tag": w["tag"], "argv": w["argv"], "fault": w["pkgfault"]}

    def bad(kind, **kw):
        out.append((dict(base, kind=kind), {"case": W.case, "root": R, "args": W.args, "observed": kw, "run": r.brief()}))

    ch = tree_changes(R, before, after)
    want = {loc_path(k) for k in exp["cmdout"]} if exp["exit"] == "zero" else set()
    got = {rel for rel, (b, a) in ch.items() if a != "DIR"}
    if got != want:
        bad("writer-files", expected=sorted(want), got=sorted(got))
    if r.trace:
        bad("non-default-command-ran-the-pipeline", events=len(r.trace))
    if exp["exit"] == "zero" and r.code == 0 and got == want:
        target = os.path.join(R, sorted(want)[0])
        sc = pipetrace.run(ctx, W.cwd, args=["--config", target, "showconfig"], timeout=120)
        try:
            doc = yaml.safe_load(sc.out) if sc.code == 0 else None
        except yaml.YAMLError:
            doc = None
        if not isinstance(doc, dict):
            bad("written-config-not-loadable", exit=sc.code, err=sc.err[-300:])
        elif w["argv"] == "init":
            le = exp["initload"]
            keys = sorted((doc.get("packages") or {}).keys())
            allv = ((doc["packages"].get(le["keys"][0]) or {}).get("config") or {}).get("all") if keys else None
            if keys != sorted(le["keys"]) or json.dumps(allv) != le["all"]:
                bad("init-load", expected=le, got={"keys": keys, "all": allv})
        else:
            keys = sorted((doc.get("packages") or {}).keys())
            if keys != sorted(V2DOC["packages"]) or doc.get("Config", {}).get("structname") != V2DOC["mockname"]:
                bad("migrate-load", got={"keys": keys, "structname": doc.get("Config", {}).get("structname")})
    return out


def judge_simple(ctx, W, r):
    w, R = W.world, W.R
    out = []
    base = {"tag": w["tag"], "argv": w["argv"]}

    def bad(kind, **kw):
        out.append((dict(base, kind=kind), {"case": W.case, "root": R, "args": W.args, "observed": kw, "run": r.brief()}))

    if w["argv"] == "version" and not re.match(r"^v\d+\.\d+\.\d+", r.out.strip()):
        bad("version-output", got=r.out[:200])
    if w["argv"] in ("help", "helpcmd") and "Usage:" not in r.out:
        bad("help-output", got=r.out[:200])
    if w["argv"] == "completion" and "completion" not in r.out[:200]:
        bad("completion-output", got=r.out[:200])
    if w["argv"] in ("badflag", "badcmd") and "unknown" not in (r.err + r.out).lower():
        bad("usage-error-undiagnosed", got=(r.err + r.out)[:200])
    if r.trace:
        bad("non-default-command-ran-the-pipeline", events=len(r.trace))
    return out


def replay_case(ctx, item):
    cid, case = item
    W = World(ctx, cid, case)
    before = vlib.tree_hash(W.R)
    r = W.run(ctx)
    r.cwd = W.cwd
    after = vlib.tree_hash(W.R)
    r.expect = {k: W.exp["exp"][k] for k in ("sel", "known", "mocks", "force", "src", "exit")} if W.world["argv"] == "run" else None
    viols = judge_run(ctx, W, r, before, after)
    if W.world["argv"] == "showconfig":
        viols += judge_showconfig(ctx, W, r)
    elif W.world["argv"] in ("init", "migrate"):
        viols += judge_writer(ctx, W, r, before, after)
    elif W.world["argv"] != "run":
        viols += judge_simple(ctx, W, r)
    summary = {"cid": cid, "tag": W.world["tag"], "argv": W.world["argv"], "exit": r.code, "expect_exit": W.exp["exit"],
               "files": len(W.exp["files"]), "written": sum(1 for e in r.trace if e.get("ev") == "Write"), "events": len(r.trace)}
    if not os.environ.get("VERIF_KEEP"):
        shutil.rmtree(W.R, ignore_errors=True)
    return r, viols, summary


def loglevel_pair(ctx, item):
    """--log-level / MOCKERY_LOG_LEVEL: quiet vs debug must change neither the files nor the status"""
    cid, case = item
    res = []
    for k, (args, env) in enumerate(((["--log-level", "debug"], {}), ([], {"MOCKERY_LOG_LEVEL": "error"}), ([], {}))):
        W = World(ctx, f"{cid}L{k}", case)
        r = W.run(ctx, extra_args=args, extra_env=env)
        h = {os.path.relpath(os.path.join(dp, f), W.R): vlib.sha(open(os.path.join(dp, f), "rb").read().replace(W.R.encode(), b"%R%"))
             for dp, _, fns in os.walk(W.R) for f in fns if os.path.relpath(os.path.join(dp, f), W.R) not in GO_TOOL_FILES}
        res.append((r, h, len(r.err)))
        shutil.rmtree(W.R, ignore_errors=True)
    viols = []
    (r0, h0, e0), (r1, h1, e1), (r2, h2, e2) = res
    # a failing run stops at the first failing file of a Go map range: which other files exist then is legitimately
    # order dependent, so only the status is compared there
    deterministic = case["expect"]["exit"] == "zero"
    if not (r0.code == r1.code == r2.code) or (deterministic and not (h0 == h1 == h2)):
        diff = sorted(k for k in set(h0) | set(h1) | set(h2) if not (h0.get(k) == h1.get(k) == h2.get(k)))
        viols.append(({"kind": "log-level-changes-outcome", "tag": case["world"]["tag"]},
                      {"case": case, "codes": [r0.code, r1.code, r2.code], "differing_paths": diff[:10]}))
    return [r0, r1, r2], viols, {"debug_bytes": e0, "error_bytes": e1, "default_bytes": e2}


# ---------------------------------------------------------------------------------------------------- vacuity
def vacuity(cases):
    def any_(pred, what):
        if not any(pred(c) for c in cases):
            raise MachineryError("vacuity: no exported world with " + what)
    E = lambda c: c["expect"]  # noqa: E731
    Wd = lambda c: c["world"]  # noqa: E731
    any_(lambda c: Wd(c)["argv"] == "run" and E(c)["exit"] == "zero" and len(E(c)["files"]) >= 3, "a successful run writing >= 3 files")
    any_(lambda c: any(len(v["structs"]) >= 2 for v in E(c)["new"].values()), "two mocks sharing one output file")
    any_(lambda c: "ab" in E(c)["table"], "a discovered sub-package")
    any_(lambda c: Wd(c)["argv"] == "run" and "ab" not in E(c)["table"] and any(
        "exclude-subpkg-regex" in lv for lv in Wd(c)["cfg"].values()), "an excluded sub-package")
    any_(lambda c: Wd(c)["occ"] and E(c)["exit"] == "zero", "an existing file overwritten under force-file-write")
    any_(lambda c: Wd(c)["occ"] and any(E(c)["mustkeep"].values()), "an existing file blocking the write")
    any_(lambda c: not all(E(c)["uniform"].values()), "a per-file uniformity conflict")
    any_(lambda c: any(not i["ok"] for i in E(c)["infos"]), "a cyclic templated value")
    any_(lambda c: E(c)["missing"], "a missing interface")
    any_(lambda c: Wd(c)["fp"]["point"] != "-", "a failpoint")
    any_(lambda c: any(i["tid"] not in ("testify", "matryer") for i in E(c)["infos"]), "a custom template")
    any_(lambda c: Wd(c)["lay"]["decoy"] != ["-"], "a decoy config file")
    any_(lambda c: len({i["struct"] for i in E(c)["infos"] if i["iface"] == "A1"}) == 2, "two entries with different struct names")
    for argv in ARGV:
        any_(lambda c, a=argv: Wd(c)["argv"] == a, "command " + argv)
        any_(lambda c, a=argv: Wd(c)["argv"] == a and E(c)["exit"] == ("nonzero" if a.startswith("bad") else "zero"), "command " + argv + " at work")
    any_(lambda c: Wd(c)["argv"] == "init" and E(c)["exit"] == "nonzero", "init over an existing config file")
    any_(lambda c: Wd(c)["argv"] == "migrate" and E(c)["exit"] == "nonzero", "migrate without a config file")
    any_(lambda c: Wd(c).get("tagged") and any(i["iface"] == "K2" for i in E(c)["infos"]), "an interface behind a build tag that is mocked")
    any_(lambda c: Wd(c).get("tagged") and Wd(c)["argv"] == "run" and not any(i["iface"] == "K2" for i in E(c)["infos"]), "an interface behind a build tag that is not seen")
    T = lambda c: E(c)["table"]  # noqa: E731
    any_(lambda c: "abc" in T(c) and T(c)["abc"]["src"] == "ab", "a/b/c carrying the settings of the explicitly configured recursive a/b")
    any_(lambda c: Wd(c)["shape"] == "S4" and "abc" in T(c) and T(c)["abc"]["src"] == "a", "a/b/c carrying a's settings past a non-recursive a/b")
    any_(lambda c: Wd(c)["shape"] == "S4" and Wd(c)["argv"] == "run" and "abc" not in T(c), "a/b/c outside the table below a configured a/b")
    any_(lambda c: "abc" in T(c) and T(c).get("ab", {}).get("src") == "a", "two discovered levels below one recursive package")
    any_(lambda c: Wd(c)["tag"] == "schema" and any(E(c)["mustkeep"].values()) and not all(E(c)["mustkeep"].values()),
         "template-data rejected for some files of a run and accepted for others")
    any_(lambda c: Wd(c)["tag"] == "schema" and E(c)["exit"] == "zero", "template-data accepted at file level and per mock")
    any_(lambda c: Wd(c)["tag"] == "perfile" and len({i["tid"] for i in E(c)["infos"]}) >= 2 and E(c)["exit"] == "zero",
         "a successful run whose files use different templates")
    any_(lambda c: Wd(c)["tag"] == "perfile" and len({i["force"] for i in E(c)["infos"]}) == 2, "force-file-write differing between files")
    any_(lambda c: Wd(c)["tag"] == "perfile" and len({i["req"] for i in E(c)["infos"]}) == 2, "require-template-schema-exists differing between files")
    any_(lambda c: Wd(c).get("container") and Wd(c)["argv"] == "run" and E(c)["exit"] == "zero" and len(E(c)["infos"]) >= 2,
         "a recursive container package whose sub-packages are mocked")
    any_(lambda c: Wd(c).get("container") and Wd(c)["argv"] == "run" and E(c)["exit"] == "nonzero", "a package without Go files that is no container")
    any_(lambda c: Wd(c)["tag"] == "env" and Wd(c).get("envspell") == "one" and E(c)["exit"] == "nonzero", "a boolean MOCKERY_ variable in an unrecognised spelling")
    any_(lambda c: Wd(c)["tag"] == "env" and Wd(c).get("envspell") == "upper" and E(c)["exit"] == "zero", "a boolean MOCKERY_ variable spelled TRUE")
    for prm in ("all", "recursive", "force-file-write", "require-template-schema-exists", "dir", "filename", "structname", "pkgname",
                "template", "formatter", "include-interface-regex", "exclude-interface-regex", "log-level", "build-tags"):
        any_(lambda c, q=prm: Wd(c)["tag"] == "env" and q in Wd(c)["cfg"].get("env", {}) and q not in Wd(c)["cfg"].get("root", {}),
             "MOCKERY_ variable alone for " + prm)
        any_(lambda c, q=prm: Wd(c)["tag"] == "env" and q in Wd(c)["cfg"].get("env", {}) and q in Wd(c)["cfg"].get("root", {}),
             "MOCKERY_ variable against the config file for " + prm)
    any_(lambda c: Wd(c).get("cfgkind") == "empty" and Wd(c)["argv"] == "run", "a run over an empty config file")
    any_(lambda c: Wd(c).get("cfgkind") == "nopackages" and Wd(c)["argv"] == "showconfig", "showconfig of a config without packages")
    for lvl in ("env", "root", "flag", "a", "a.A1", "a.A1.1"):
        any_(lambda c, n=lvl: n in Wd(c)["cfg"], "a setting at level " + lvl)


# ---------------------------------------------------------------------------------------------------- diverse worlds
# Calibration of the world-free clauses of the trace specification: randomly built worlds far outside the model's small
# world (package trees, several interfaces per file, several `configs` entries, custom templates with schemas, failing
# stages, existing files with / without force-file-write, missing interfaces, invalid inputs).  No expectation is
# attached: whatever the real code legitimately does must be accepted.
NAMES = ["alpha", "beta", "gamma", "delta", "al", "alp", "x1", "zeta"]
DIRS = ["{{.InterfaceDir}}", "{{.InterfaceDir}}/mocks", "mocks/{{.SrcPackageName}}", "{{.InterfaceDir}}/../gen/{{.SrcPackageName}}",
        "./out/./{{.SrcPackageName}}/", "{{.ConfigDir}}/all", "{{.InterfaceDirRelative}}/m", "out//x/../y"]
FILENAMES = ["mocks_test.go", "m_{{.InterfaceName}}.go", "sub/{{.InterfaceName | snakecase}}.go", "{{.StructName}}_mock.go",
             "{{.SrcPackageName}}_mocks.go", "./z/../mock_{{.InterfaceName | lower}}.go"]
STRUCTNAMES = ["{{.Mock}}{{.InterfaceName}}", "M{{.InterfaceName}}", "{{.InterfaceName}}Mock", "X{{.InterfaceName | firstUpper}}",
               "{{.StructName}}Z", "{{.Mock}}{{.SrcPackageName | firstUpper}}{{.InterfaceName}}"]
PKGNAMES = ["{{.SrcPackageName}}", "mocks", "{{.SrcPackageName}}_mocks"]
TEMPLS = ["testify", "testify", "testify", "matryer", "ok", "ok", "needkey", "needkey+", "badexec", "badfmt", "noschema", "gone", "nosuch"]


def diverse_world(ctx, wi, rng):
    d = ctx.scratch / f"dv{wi}"
    R = str(d)
    files = {"go.mod": vlib.GO_SUM_MOD, "unrelated.txt": "x\n"}
    for n, t in TEMPLATES.items():
        files["tmpl/" + n] = t
    # package tree
    pkgs = {}      # rel dir -> [iface names]

    def grow(rel, depth):
        if len(pkgs) >= 7:
            return
        kind = rng.choice(["go", "go", "go", "go", "test", "empty"]) if rel else "go"
        ifs = [f"{rng.choice('ABCDEFG')}{rng.randint(1, 9)}" for _ in range(rng.randint(1, 3))]
        ifs = sorted(set(ifs))
        pname = "p" + (os.path.basename(rel) or "root")
        if kind == "go":
            body = f"package {pname}\n\n" + "".join(f"type {n} interface{{ F{j}(x int) (string, error) }}\n\n" for j, n in enumerate(ifs))
            body += "type S struct{ N int }\n\nfunc Local() { type L interface{ Q() }; var _ L }\n"
            if rng.random() < 0.2:
                body += "type lower interface{ q() }\n"
                ifs = ifs + ["lower"]
            files[os.path.join(rel, "svc.go")] = body
            pkgs[rel] = ifs
        elif kind == "test":
            files[os.path.join(rel, "only_test.go")] = f"package {pname}\n"
        else:
            files[os.path.join(rel, "README")] = "empty\n"
        if depth < 3:
            for n in rng.sample(NAMES, rng.randint(0, 3 if depth < 2 else 1)):
                grow(os.path.join(rel, n), depth + 1)

    for n in rng.sample(NAMES, rng.randint(1, 3)):
        grow(n, 1)
    if not pkgs:
        files["alpha/svc.go"] = "package palpha\n\ntype A1 interface{ F() }\n"
        pkgs["alpha"] = ["A1"]

    def templ(t):
        if t in ("testify", "matryer", "nosuch"):
            return t
        if t == "gone":
            return f"file://{R}/tmpl/gone.templ"
        return f"file://{R}/tmpl/{t.rstrip('+')}.templ"

    def cfg_level(depth):
        c = {}
        if rng.random() < 0.35:
            c["dir"] = rng.choice(DIRS)
        if rng.random() < 0.45:
            c["filename"] = rng.choice(FILENAMES)
        if rng.random() < 0.35:
            c["structname"] = rng.choice(STRUCTNAMES)
        if rng.random() < 0.2:
            c["pkgname"] = rng.choice(PKGNAMES)
        if rng.random() < 0.2:
            t = rng.choice(TEMPLS)
            c["template"] = templ(t)
            if t == "needkey+":
                c["template-data"] = {"need": "yes"}
            if t == "ok" and rng.random() < 0.3:
                c["require-template-schema-exists"] = False
        if rng.random() < 0.15:
            c["force-file-write"] = rng.random() < 0.7
        if rng.random() < 0.08:
            c["formatter"] = rng.choice(["gofmt", "noop", "goimports", "nosuchfmt"])
        if depth <= 1:
            if rng.random() < 0.45:
                c["all"] = rng.random() < 0.8
            if rng.random() < 0.35:
                c["recursive"] = rng.random() < 0.8
            if rng.random() < 0.2:
                c["include-interface-regex"] = rng.choice(["^[A-C]", "1$", ".*", "(", "^Z"])
            if rng.random() < 0.12:
                c["exclude-interface-regex"] = rng.choice(["^A", "[0-4]$", "("])
            if rng.random() < 0.2:
                c["exclude-subpkg-regex"] = rng.sample(["/al$", "/alpha", "beta", "/[a-z]+/[a-z]+/", "("], rng.randint(0, 2))
        return c

    doc = cfg_level(0)
    if rng.random() < 0.05:
        doc["log-level"] = rng.choice(["debug", "bogus", "error"])
    if rng.random() < 0.03:
        doc["no-such-key"] = True
    packages = {}
    rels = sorted(pkgs)
    for rel in rng.sample(rels, rng.randint(1, min(4, len(rels)))):
        pc = {}
        if rng.random() < 0.8:
            pc["config"] = cfg_level(1)
        if rng.random() < 0.6:
            ifs = {}
            for n in rng.sample(pkgs[rel], rng.randint(1, len(pkgs[rel]))):
                r = rng.random()
                if r < 0.25:
                    ifs[n] = None
                elif r < 0.55:
                    ifs[n] = {"config": cfg_level(2)}
                else:
                    ifs[n] = {"config": cfg_level(2), "configs": [rng.choice([cfg_level(3), cfg_level(3), {}, None]) for _ in range(rng.randint(1, 3))]}
            if rng.random() < 0.12:
                ifs["Nope"] = None
            pc["interfaces"] = ifs
        packages[MOD + "/" + rel] = pc if pc else None
    if rng.random() < 0.04:
        packages[MOD + "/does/not/exist"] = {"config": {"all": True}}
    if rng.random() < 0.04:
        files[os.path.join(rels[0], "broken.go")] = "package x\nfunc (\n"
    doc["packages"] = packages
    if rng.random() < 0.03:
        doc["packages"] = {}
    files[".mockery.yml"] = json.dumps(doc, indent=1)
    vlib.write_files(d, files)
    shutil.copy(vlib.REPO / "go.sum", d / "go.sum")
    env = {}
    if rng.random() < 0.1:
        env["MOCKERY_FORCE_FILE_WRITE"] = "true"
    if rng.random() < 0.05:
        env["MOCKERY_LOG_LEVEL"] = rng.choice(["debug", "warn"])
    fail = None
    if rng.random() < 0.12:
        fail = rng.choice(["mkdir", "stat", "write"]) + ":" + rng.choice(["*", ".go", "A1.go", "mocks_test.go"])
    return {"root": R, "env": env, "fail": fail, "doc": doc}


def diverse_run(ctx, item):
    wi, seed = item
    import random
    rng = random.Random(seed)
    w = diverse_world(ctx, wi, rng)
    runs = []
    h0 = vlib.tree_hash(w["root"])
    r1 = pipetrace.run(ctx, w["root"], env=w["env"], timeout=120, fail=w["fail"])
    h1 = vlib.tree_hash(w["root"])
    # files whose content differs (relative `dir` values make Write.file relative: runtrace normalises with .cwd)
    r1.cwd = w["root"]
    r1.changed = [os.path.join(w["root"], k) for k in set(h0) | set(h1)
                  if h0.get(k) != h1.get(k) and h0.get(k) != "DIR" and h1.get(k) != "DIR" and k not in ("go.mod", "go.sum")]
    runs.append(r1)
    # a second run over the produced tree: existing files with / without force-file-write
    if rng.random() < 0.5:
        runs.append(pipetrace.run(ctx, w["root"], env=w["env"], timeout=120))
    if not os.environ.get("VERIF_KEEP"):
        shutil.rmtree(w["root"], ignore_errors=True)
    for r in runs:
        r.world = {"doc": w["doc"], "env": w["env"], "fail": w["fail"]}
    return runs


WITNESSES = ("NeverZero", "NeverSharedFile", "NeverInjectNew", "NeverExclude", "NeverOverwrite", "NeverBlocked", "NeverConflict",
             "NeverLoop", "NeverMissing")
WITNESS_CFG = """SPECIFICATION Spec
CONSTANTS
  Worlds <- MCQuick
  StopAtFailure = TRUE
INVARIANT %s
VIEW view
CHECK_DEADLOCK FALSE
"""


def witnesses(ctx, out):
    """negated witness properties: each must be VIOLATED on the model (the antecedents of the invariants are reachable)"""
    try:
        for name in WITNESSES:
            cfg = f"Mockery_witness_{name}.cfg"
            r = ctx.tlc("MockeryMC", cfg, files={"cfg/" + cfg: WITNESS_CFG % name}, workers=2, timeout=900, count=False)
            if r.violated != name:
                out.append(f"{name}: expected a violation, TLC said {r.violated or 'nothing'} (exit {r.code})")
    except BaseException as e:  # noqa: BLE001 - reported in the main thread
        out.append(f"witness run failed: {e}")


# ---------------------------------------------------------------------------------------------------- main
def run(ctx):
    thorough = ctx.thorough()
    tier = "thorough" if thorough else "quick"
    mcmod = "MockeryMCT" if thorough else "MockeryMC"
    res = {}

    def bg(name, *a, **kw):
        def go():
            try:
                res[name] = ctx.tlc(*a, **kw)
            except BaseException as e:  # noqa: BLE001 - re-raised in the main thread
                res[name] = e
        t = threading.Thread(target=go, daemon=True)
        t.start()
        time.sleep(0.15)
        return t

    def joined(t, name):
        t.join()
        r = res[name]
        if isinstance(r, BaseException):
            raise r
        return r

    phase = {}
    t0 = time.time()
    t_cases = bg("cases", mcmod, f"Mockery_cases_{tier}.cfg", workers=1, timeout=1500, count=False)
    t_mc = bg("mc", mcmod, f"Mockery_{tier}.cfg", workers=10 if thorough else 8, timeout=3000, count=False, coverage=thorough)
    wit_out = []
    t_wit = threading.Thread(target=witnesses, args=(ctx, wit_out), daemon=True) if thorough else None
    if t_wit:
        t_wit.start()
    ctx.mockery()
    phase["build"] = round(time.time() - t0, 1)

    # ------------------------------------------------------------ cases exported by TLC
    r_cases = joined(t_cases, "cases")
    if not r_cases.ok:
        raise MachineryError("TLC failed on the case export:\n" + r_cases.tail())
    cases = r_cases.prints("CASE")
    for c in cases:                       # an empty TLA+ function is printed as an empty array
        for k in ("uniform", "mustkeep", "allowed", "new", "fsegs", "table", "nodes"):
            if c["expect"][k] == []:
                c["expect"][k] = {}
        if c["world"]["cfg"] == []:
            c["world"]["cfg"] = {}
    phase["cases"] = round(time.time() - t0, 1)
    if len(cases) < (400 if thorough else 200):
        raise MachineryError(f"only {len(cases)} worlds exported")
    if not all(c["expect"]["wellformed"] for c in cases):
        raise MachineryError("an ill-formed world was exported")
    vacuity(cases)
    if getattr(ctx, "replay", None):
        det = json.loads(open(ctx.replay).read())["detail"]
        if "case" in det:                      # a replayed model world; rejected traces of diverse worlds re-run everything
            cases = [det["case"]]
    order = list(range(len(cases)))
    ctx.rng.shuffle(order)
    items = [(i, cases[i]) for i in order]

    # ------------------------------------------------------------ replay through the real binary
    tp = time.time()
    results = pipetrace.pmap(lambda it: replay_case(ctx, it), items, workers=12)
    phase["replay"] = round(time.time() - tp, 1)
    runs, nviol = [], 0
    stats = {"zero_exit": 0, "nonzero_exit": 0, "files_written": 0, "showconfig": 0, "other_commands": 0}
    for r, viols, s in results:
        runs.append(r)
        for sig, detail in viols:
            if ctx.violation(sig, detail):
                nviol += 1
        stats["zero_exit" if s["exit"] == 0 else "nonzero_exit"] += 1
        stats["files_written"] += s["written"]
        if s["argv"] == "showconfig":
            stats["showconfig"] += 1
        elif s["argv"] != "run":
            stats["other_commands"] += 1
    ctx.cov["evaluations"] += len(items)

    # ------------------------------------------------------------ log level must not matter
    plain = [it for it in items if it[1]["world"]["argv"] == "run" and it[1]["world"]["tag"] in ("levels", "select", "fs", "fault-template", "recursive")
             and "env" not in it[1]["world"]["cfg"] and "flag" not in it[1]["world"]["cfg"]]
    tp = time.time()
    ll = pipetrace.pmap(lambda it: loglevel_pair(ctx, it), plain[: (60 if thorough else 10)], workers=12)
    phase["loglevel"] = round(time.time() - tp, 1)
    quiet_ok = 0
    for rs, viols, s in ll:
        runs.extend(rs)
        for sig, detail in viols:
            ctx.violation(sig, detail)
        if s["debug_bytes"] > s["error_bytes"]:
            quiet_ok += 1
    ctx.cov["evaluations"] += 3 * len(ll)
    if ll and quiet_ok == 0:
        raise MachineryError("vacuity: --log-level debug never produced more output than MOCKERY_LOG_LEVEL=error")

    # ------------------------------------------------------------ diverse worlds (calibration of the world-free clauses)
    ndiv = int(os.environ.get("VERIF_ROOT_N") or (4000 if thorough else 160))
    tp = time.time()
    dres = pipetrace.pmap(lambda it: diverse_run(ctx, it), [(i, ctx.seed * 1000003 + i) for i in range(ndiv)], workers=12)
    phase["diverse"] = round(time.time() - tp, 1)
    druns = [r for rs in dres for r in rs]
    dstat = {"runs": len(druns), "zero": sum(1 for r in druns if r.code == 0), "with_write": sum(1 for r in druns if any(e.get("ev") == "Write" for e in r.trace)),
             "panics": 0, "recursive": sum(1 for r in druns if any(e.get("ev") == "Inject" and not e.get("existed") for e in r.trace)),
             "stage_failed": sum(1 for r in druns if any(e.get("ev") == "Stage" and not e.get("ok") for e in r.trace)),
             "blocked": sum(1 for r in druns if any(e.get("ev") == "Exists" and e.get("exists") and not e.get("force") for e in r.trace)),
             "forced": sum(1 for r in druns if any(e.get("ev") == "Exists" and e.get("exists") and e.get("force") for e in r.trace)),
             "missing": sum(1 for r in druns if any(e.get("ev") == "Missing" for e in r.trace)),
             "resolve_loop": sum(1 for r in druns if any(e.get("ev") == "ResolveLoop" for e in r.trace)),
             "shared_file": sum(1 for r in druns if any(e.get("ev") == "FileBegin" and e.get("n", 0) >= 2 for e in r.trace)),
             "exclude": sum(1 for r in druns if any(e.get("ev") == "Exclude" for e in r.trace)),
             "failpoint": sum(1 for r in druns if any(e.get("ev") == "Failpoint" for e in r.trace))}
    for r in druns:
        if r.panicked:
            dstat["panics"] += 1
            ctx.note("diverse world: Go panic (C09 owns this): " + (r.err or "")[-200:].replace("\n", " | "))
    for k in ("zero", "with_write", "recursive", "stage_failed", "shared_file") + (("blocked", "missing", "forced", "exclude", "failpoint") if ndiv >= 1000 else ()):
        if ndiv >= 100 and dstat[k] == 0:
            raise MachineryError(f"vacuity: no diverse run with {k}")
    ctx.cov["evaluations"] += len(druns)

    # ------------------------------------------------------------ trace validation of everything that ran
    tp = time.time()
    allruns = runs + druns
    rej = runtrace.validate_runs(ctx, allruns)
    phase["trace_validation"] = round(time.time() - tp, 1)
    ctx.cov["traces_validated_against_impl"] += rej.validated
    for x in rej:
        r = allruns[x["index"]]
        src = "model-world" if x["index"] < len(runs) else "diverse-world"
        ctx.violation({"kind": "trace-rejected", "why": x["why"][0], "source": src},
                      {"why": x["why"], "props": x["props"], "at": x["at"], "event": x["event"], "events": x["events"],
                       "world": getattr(r, "world", None), "expect": getattr(r, "expect", None), "run": r.brief()})
    drift = {}
    for dd in rej.drift:
        for wname in dd["why"]:
            drift[wname] = drift.get(wname, 0) + 1
    for wname, n in sorted(drift.items()):
        ctx.note(f"drift: {n} run(s) {wname} (accepted by the clauses, not what the code-shaped layer does)")

    # ------------------------------------------------------------ binding self-test: corruptions must be rejected
    tp = time.time()
    base = None
    rejected_idx = {x["index"] for x in rej}
    for k, r in enumerate(runs):
        names = [e.get("ev") for e in r.trace]
        if (k not in rejected_idx and r.code == 0 and getattr(r, "expect", None) is not None and names.count("InitEnd") == 2 and "Write" in names
                and any(e.get("ev") == "Inject" and not e.get("existed") for e in r.trace)
                and any(e.get("ev") == "Select" and not e.get("gen") for e in r.trace)
                and any(e.get("ev") == "ResolveIter" and e.get("i") == 1 for e in r.trace)):
            base = r
            break
    if base is None and not ctx.violations:
        raise MachineryError("no accepted run fit for the corruption self-test")
    corr = runtrace.selftest(ctx, base) if base is not None else {}
    phase["selftest"] = round(time.time() - tp, 1)

    # ------------------------------------------------------------ the model check
    r_mc = joined(t_mc, "mc")
    phase["model_check_done"] = round(time.time() - t0, 1)
    if not r_mc.ok:
        raise MachineryError(f"TLC on {mcmod}/Mockery_{tier}.cfg: {r_mc.violated or 'error'}\n" + r_mc.tail())
    ctx.cov["states"] += r_mc.distinct
    ctx.cov["transitions"] += r_mc.generated
    if thorough:
        zero = [z for z in pipetrace.final_coverage_zero(r_mc) if re.search(r"^<(\w+) line \d+, col \d+ to line \d+, col \d+ of module Mockery>", z)]
        if zero:
            raise MachineryError("vacuity: actions of Mockery.tla never taken: " + "; ".join(zero[:8]))

    if t_wit:
        t_wit.join()
        if wit_out:
            raise MachineryError("vacuity witnesses: " + "; ".join(wit_out))
        ctx.cov["witness_invariants_violated_as_required"] = list(WITNESSES)

    # ------------------------------------------------------------ evidence
    ctx.cov["distinct_nontrivial"] = len({json.dumps(c["world"]["cfg"], sort_keys=True) for c in cases})
    ctx.cov["rule"] = ("Mockery.tla: code-shaped closed model /\\ run skeleton clauses /\\ contract-* clauses, no deadlock; end-to-end "
                       "invariants ZeroMeansContractDelivered, OldOrContractNew, Frame, UnselectedContributeNothing, OutcomeIsContract, "
                       "PassesAgree, InitializeAsContract, ShowconfigShowsWhatRunUses, OtherCommandsTouchNothing, SourcesLayered")
    ctx.cov.update({"worlds_exported": len(cases), "replay": stats, "diverse": dstat, "loglevel_triples": len(ll),
                    "trace_clauses": len(runtrace.CLAUSE_PROPERTY), "corruptions_rejected": corr, "trace_tlc_states": rej.tlc_states,
                    "model_depth": r_mc.depth, "phase_seconds": phase})
    by_tag = {}
    for _, _, s in results:
        by_tag[s["tag"]] = by_tag.get(s["tag"], 0) + 1
    ctx.cov["worlds_by_family"] = by_tag
    for _, _, s in results[:4]:
        ctx.sample(s)
    ctx.sample({"corruption": "collect-file-changed", "rejected_with": corr.get("collect-file-changed")})
    ctx.assumptions += [
        "small-scope: 3 packages (one recursive parent with one sub-package), <= 2 interfaces each, <= 2 configs entries, "
        "filename / structname with markers at root / package / interface / entry level, <= 5 output files, at most one fault",
        "Go map order cannot be forced: TLC explores every order in the model; the real binary draws its own on each run",
        "the number of ParseTemplates passes of the file-level resolve is abstracted (the code resolves the package config in place)",
        "go.mod / go.sum are inputs of the go command and excluded from the frame comparison",
        "mockery v3 has no version-check network call (the only http.Get is the download of http(s):// templates, never configured here)",
    ]
    return {"level": "model_checking", "exhaustive": True}


if __name__ == "__main__":
    vlib.main("ROOT", run)
