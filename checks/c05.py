#!/usr/bin/env python3
"""C05 -- generated mocks are safe under concurrent use.

1. The real mockery binary (built from the working tree) generates matryer mocks (6 interfaces x 8 option sets) and
   testify mocks (6 interfaces x unroll-variadic false/true) in ONE run.
2. drivers/concdrv/extract (go/ast) extracts from the FRESHLY GENERATED code the program of every mock method:
   lock operations on receiver fields, loads/stores of receiver fields and package-level variables, control flow,
   deferred calls.  The programs (as control paths) become the constants of spec/MatryerConc.tla; TLC explores all
   interleavings of 2 goroutines x 3 operations, 3 x 2, ... (thorough: larger) and checks NoUnlockedAccess (lockset,
   stores under the write lock), NoLostUpdate, NoLostOrDuplicatedRecord, RecordIsOneCallsArgs, NoBadUnlock, deadlock
   freedom and, under fairness, EveryOpCompletes.  A model-level violation is a PREDICTION.
   For testify the extraction asserts the footprint claim (no package-level variables, no struct fields beyond the
   embedded testify types, bodies touch only locals/parameters/testify accessors); a deviation is a prediction too.
3. drivers/concdrv/stress, built with `go build -race` against the fresh mocks, is the real-code oracle and runs
   regardless of the model's verdict: race-detector reports in generated code, lost/duplicated/torn/misordered
   records, wrong results.  Predictions direct extra stress at the affected mocks.
4. Small concurrent histories recorded by the stress driver are checked for linearizability w.r.t. the sequential
   call-log semantics by TLC (spec/MatryerConcLin.tla).
Verdicts (exit 1) come only from 3 and 4.
`--replay <file>` re-runs the whole check (stress schedules are not reproducible step by step; the replay file
records the race report / failing oracle, the target mock and the model's prediction).
Environment: C05_NORACE=1 builds the stress driver without -race (self-test of the fallback oracles).

COVERAGE TABLE (clause / dimension -> what explores it -> single point or absent)
  "any number of goroutines"      model: 2x3, 3x2, 2x2 (quick) .. 3x3, 2x4, 4x1 (thorough) over the EXTRACTED programs; stress: 8
                                  callers + 2 readers + 2 resetters, GOMAXPROCS >= 4.  Single point: one GOMAXPROCS setting per run.
  "call the methods concurrently" A from all goroutines, B every third call, different methods concurrently (per-method locks);
                                  stub-impl mocks additionally as pure recorders (MFunc nil).  Absent: concurrent assignment of
                                  MFunc fields (user statement, outside the property).
  "read recorded calls"           ACalls/BCalls readers decoding every record while calls/resets run; results retained across resets.
  "or reset them"                 ResetACalls+ResetBCalls and ResetCalls goroutines; reset phase followed by a quiet phase
                                  (nothing of the quiet phase may be lost).  ResetCalls is per-method atomic, not atomic over all
                                  methods (the linearizability spec says so since a recorded history showed it).
  no race                         Go race detector on everything above; lockset + lost-update invariants on the extracted programs
                                  (predictions).  A race report must have a frame in generated code.
  record vs. user function        "recorded before Func is entered", per method shape (void / with results, every control path): order
                                  configuration of the model on the extracted paths with the function entry kept (prediction);
                                  probe round on every matryer mock: AFunc itself and another goroutine (while AFunc blocks) read
                                  ACalls() and must find the call in progress; every third AFunc panics and the call must stay.
  no lost/duplicated/torn record  count and multiset (no reset), per-goroutine order, every field of a record decodes to one (g,k)
  mocked methods                  arity 0-3, variadic, sole `...interface{}`, 0-2 results, non-ASCII/initialism names, generic K9[T].
                                  Single point: two methods per mock in the model alphabet.
  testify: "adds no shared state" footprint extraction of every function in the file (constructor, EXPECT, typed helpers, Run /
                                  RunAndReturn wrappers) = prediction; stress: concurrent constructors, concurrent FIRST EXPECT(),
                                  On() and EXPECT().B() registration concurrent with calls, function-valued returns, caller re-using
                                  its variadic buffer in unroll mode, mock.Mock.Calls checked entry by entry.
                                  Model: spec/TestifyConc.tla on the EXTRACTED programs of every generated testify function (tcall M =
                                  testify method, atomic under testify's mutex, accesses per the Api table of testify v1.10.0; read/write f
                                  = direct access of a field of mock.Mock / mock.Call, also through a local loaded from one: range value,
                                  element, pointer) + the user's own On/Times/Once/Unset/Return/Assert/Called; NoDataRace over 2x2 (3x2
                                  thorough) = prediction.  History classes (spec/TestifyConcCases.tla, expectation computed there):
                                  expectation Maybe | Times(N) | N x Once | N/2 x Twice  x  variadic arity na/0/2  x  unroll false/unset/true
                                  x  user goroutine none/On/On+Unset/Assert*; 8 goroutines consume the limited expectations concurrently.
                                  Quick: 2 of the 4 user activities per class (ctx.rng); thorough: all 144.
                                  Absent: AssertExpectations concurrent with calls on the SAME method, WaitUntil/After, NotBefore.
"""
import json
import os
import re
import shutil
import subprocess
import sys
import threading
import time

sys.path.insert(0, os.path.join(os.path.dirname(__file__), "..", "lib"))
import vlib  # noqa: E402
from vlib import MachineryError, main  # noqa: E402

MOD = "example.com/w"
IFACES = {
    "K1": "A(a int, b int, c int) int",
    "K2": "A(a string, b int) (string, error)",
    "K3": "A(a int, bs ...int)",
    "K4": "A(id int, url string, é int) (int, int)",
    "K5": "A(a int)",
    "K6": "A()",
    "K7": "A(vs ...interface{})",              # sole parameter variadic of interface type
    "K8": "A(vs ...interface{}) int",
    "K9": "A(a T, b T) T",                     # generic interface K9[T any], instantiated with int by the drivers
}
GENERIC = {"K9": ("[T any]", "[int]")}
OPT_PKGS = [(k, bool(k & 1), bool(k & 2), bool(k & 4)) for k in range(8)]  # (k, skip-ensure, stub-impl, with-resets)
TESTIFY_PKGS = [("t0", False), ("t1", True), ("t2", None)]                 # (pkg, unroll-variadic; None: key not set)
LOCKOPS = ("lock", "unlock", "rlock", "runlock")
OPS = {"call:A": "A", "call:B": "B", "calls:A": "ACalls", "calls:B": "BCalls",
       "resetm:A": "ResetACalls", "resetm:B": "ResetBCalls", "resetall": "ResetCalls"}


def tick(ctx, what):
    now = time.time()
    ctx.cov.setdefault("stage_seconds", {})[what] = round(now - getattr(ctx, "_tick", ctx.t0), 1)
    ctx._tick = now
    if os.environ.get("C05_VERBOSE"):
        print("  [c05] %-28s %.1fs" % (what, ctx.cov["stage_seconds"][what]), file=sys.stderr)


# ------------------------------------------------------------------ world
def build_world(ctx):
    src = "package src\n\n" + "".join("type %s%s interface {\n\t%s\n\tB(x int) int\n}\n" % (n, GENERIC.get(n, ("", ""))[0], s) for n, s in IFACES.items())
    w = ctx.new_world({"src/src.go": src, "srcr/src.go": src.replace("package src", "package srcr", 1)}, module=MOD, name="c05world")
    pk = {}
    for pkg, want in (("src", False), ("srcr", True)):
        ifaces = {}
        for n in IFACES:
            cfgs = [{"template": "matryer", "dir": str(w / "out" / ("m%d" % k)), "filename": "mocks.go", "pkgname": "m%d" % k,
                     "structname": "Moq" + n,
                     "template-data": {"skip-ensure": skip, "stub-impl": stub, "with-resets": resets}}
                    for k, skip, stub, resets in OPT_PKGS if resets == want]
            if not want:
                cfgs += [{"template": "testify", "dir": str(w / "out" / t), "filename": "mocks.go", "pkgname": t,
                          "structname": "Mock" + n, "template-data": ({} if unroll is None else {"unroll-variadic": unroll})}
                         for t, unroll in TESTIFY_PKGS]
            ifaces[n] = {"configs": cfgs}
        pk[MOD + "/" + pkg] = {"config": {"template-data": {"with-resets": True}} if want else {}, "interfaces": ifaces}
    (w / ".mockery.yml").write_text(json.dumps({"template": "matryer", "packages": pk}))
    res = ctx.run_mockery(w, timeout=300, trace=False)
    if res.code != 0:
        raise MachineryError("mockery failed to generate the mocks (exit %s):\n%s" % (res.code, (res.err + res.out)[-2000:]))
    files = {}
    for k, *_ in OPT_PKGS:
        files["m%d" % k] = w / "out" / ("m%d" % k) / "mocks.go"
    for t, _ in TESTIFY_PKGS:
        files[t] = w / "out" / t / "mocks.go"
    for p in files.values():
        if not p.exists():
            raise MachineryError("mockery exit 0 but %s was not written" % p)
    for name in ("extract", "stress"):
        (w / "drv" / name).mkdir(parents=True)
        for gf in sorted((vlib.VERIF / "drivers" / "concdrv" / name).glob("*.go")):
            shutil.copy(gf, w / "drv" / name / gf.name)
    imp = "".join('\tm%d "%s/out/m%d"\n' % (k, MOD, k) for k, *_ in OPT_PKGS) + "".join('\t%s "%s/out/%s"\n' % (t, MOD, t) for t, _ in TESTIFY_PKGS)
    ment = "".join('\t"m%d/%s": func() interface{} { return &m%d.Moq%s%s{} },\n' % (k, n, k, n, GENERIC.get(n, ("", ""))[1]) for n in IFACES for k, *_ in OPT_PKGS)
    tent = "".join('\t"%s/%s": func(t tT) interface{} { return %s.NewMock%s%s(t) },\n' % (t, n, t, n, GENERIC.get(n, ("", ""))[1]) for n in IFACES for t, _ in TESTIFY_PKGS)
    (w / "drv" / "stress" / "registry.go").write_text(
        "package main\n\nimport (\n" + imp + '\t"github.com/stretchr/testify/mock"\n)\n\n'
        "type tT interface {\n\tmock.TestingT\n\tCleanup(func())\n}\n\n"
        "var matryerReg = map[string]func() interface{}{\n" + ment + "}\n\n"
        "var testifyReg = map[string]func(t tT) interface{}{\n" + tent + "}\n")
    return w, files


# ------------------------------------------------------------------ programs -> paths -> TLA+ constants
def enum_paths(prog, defers, written, limit=128, keep_forward=False):
    out = []

    def shared(ins):
        return ins["op"] in LOCKOPS or (ins["op"] in ("read", "write") and ins["v"] in written) \
            or (keep_forward and ins["op"] == "forward")

    def walk(i, acc, ds):
        steps = 0
        while True:
            steps += 1
            if steps > 5000 or len(out) > limit:
                raise MachineryError("cannot model: control-path explosion in an extracted method")
            ins = prog[i] if i < len(prog) else {"op": "return"}
            op = ins["op"]
            if op == "branch":
                walk(ins["to"], list(acc), list(ds))
                i += 1
            elif op == "jump":
                i = ins["to"]
            elif op == "defer":
                ds.append(defers[ins["to"]])
                i += 1
            elif op in ("return", "panic"):
                for d in reversed(ds):
                    for x in d:
                        if x["op"] in ("branch", "jump", "defer", "return", "panic"):
                            raise MachineryError("cannot model: control flow inside a deferred call")
                        if shared(x):
                            acc.append(x)
                out.append(acc)
                return
            else:
                if shared(ins):
                    acc.append(ins)
                i += 1

    walk(0, [], [])
    uniq, keys = [], []
    for p in out:
        k = [(x["op"], x["mu"], x["v"], x["kind"] if x["op"] == "write" else "") for x in p]
        if k not in keys:
            keys.append(k)
            uniq.append(k)
    if any(uniq) and [] in uniq:
        uniq.remove([])        # a path without shared instructions commutes with everything
    return uniq


def mock_paths(methods):
    """methods: extracted methods of one mock struct -> {op name: [path,...]} (path = list of (op, mu, v, kind))"""
    by = {m["name"]: m for m in methods}
    written = {i["v"] for m in methods for i in m["prog"] + [x for d in m["defers"] for x in d] if i["op"] == "write"}
    out = {o: enum_paths(by[n]["prog"], by[n]["defers"], written) for o, n in OPS.items() if n in by}
    # the same call paths with the entry into the user's function kept as an instruction ("forward"): only for the
    # order configuration (RecordedBeforeFuncEntered), the interleaving configurations do not need the extra step
    for o in ("call:A", "call:B"):
        if OPS[o] in by:
            out["fw:" + o] = enum_paths(by[OPS[o]]["prog"], by[OPS[o]]["defers"], written, keep_forward=True)
    return out


def tla_paths(paths):
    def ins(x):
        return "[op |-> %s, mu |-> %s, v |-> %s, kind |-> %s]" % tuple(json.dumps(s) for s in x)
    return " @@ ".join("(%s :> <<%s>>)" % (json.dumps(o), ", ".join("<<%s>>" % ", ".join(ins(x) for x in p) for p in ps))
                       for o, ps in sorted(paths.items()))


def run_module(name, paths):
    fw = {o[3:]: ps for o, ps in paths.items() if o.startswith("fw:")}
    paths = {o: ps for o, ps in paths.items() if not o.startswith("fw:")}
    ops = set(paths)
    alpha = {
        "AlphaFull": [o for o in ("call:A", "call:B", "calls:A", "resetm:A", "resetall") if o in ops],
        "AlphaOne": [o for o in ("call:A", "calls:A", "resetm:A") if o in ops],
        "AlphaOneB": [o for o in ("call:B", "calls:B", "resetm:B") if o in ops],
        "AlphaAll": [o for o in ("call:A", "calls:A", "resetall") if o in ops],
        "AlphaTwo": [o for o in ("call:A", "call:B", "resetall", "calls:A") if o in ops],
    }
    return ("---- MODULE %s ----\nEXTENDS MatryerConc\nRunPaths == %s\nRunPathsFw == %s\nAlphaFw == {%s}\n"
            % (name, tla_paths(paths) if paths else "<< >>", tla_paths(fw) if fw else "<< >>", ", ".join(json.dumps(o) for o in sorted(fw))) +
            "".join("%s == {%s}\n" % (a, ", ".join(json.dumps(o) for o in l)) for a, l in alpha.items()) + "====\n")


INVS = "INVARIANTS NoUnlockedAccess NoLostUpdate NoBadUnlock NoLostOrDuplicatedRecord RecordIsOneCallsArgs ReadsFormOneSnapshot"


def order_cfg():
    """one goroutine, one operation, every control path of the call methods with the function entry kept"""
    return ("SPECIFICATION Spec\nCONSTANTS\n  Paths <- RunPathsFw\n  Alphabet <- AlphaFw\n  Gs = {g1}\n  K = 1\n"
            + INVS + " RecordedBeforeFuncEntered\n")


def conc_cfg(n, k, alpha, live=False):
    gs = ", ".join("g%d" % i for i in range(1, n + 1))
    s = "SPECIFICATION %s\nCONSTANTS\n  Paths <- RunPaths\n  Alphabet <- %s\n  Gs = {%s}\n  K = %d\n" % ("FairSpec" if live else "Spec", alpha, gs, k)
    s += "PROPERTY EveryOpCompletes\n" if live else "SYMMETRY Symm\n" + INVS + "\n"
    return s


def tlc_job(ctx, tag, module, module_text, cfg_text, workers, timeout, results):
    """own TLC runner (threads; vlib.Ctx.tlc is not re-entrant)"""
    d = ctx.scratch / ("conc-" + tag)
    d.mkdir()
    shutil.copy(vlib.SPEC / "MatryerConc.tla", d / "MatryerConc.tla")
    shutil.copy(vlib.SPEC / "TestifyConc.tla", d / "TestifyConc.tla")
    (d / (module + ".tla")).write_text(module_text)
    (d / "run.cfg").write_text(cfg_text)
    cmd = ["tlc", "-workers", str(workers), "-metadir", str(d / "meta"), "-config", "run.cfg", module + ".tla"]
    t = time.time()
    try:
        p = subprocess.run(cmd, cwd=d, capture_output=True, text=True, timeout=timeout, errors="replace")
    except subprocess.TimeoutExpired:
        subprocess.run(["pkill", "-f", str(d / "meta")], capture_output=True)
        results[tag] = None
        return
    results[tag] = vlib.TLCResult(module, "run.cfg", p.returncode, p.stdout + p.stderr, time.time() - t, d)
    shutil.rmtree(d / "meta", ignore_errors=True)


# ------------------------------------------------------------------ race reports
def race_reports(logdir):
    reps = []
    for f in sorted(logdir.glob("race*")):
        txt = f.read_text(errors="replace")
        for blk in txt.split("=================="):
            if "WARNING: DATA RACE" in blk:
                reps.append(blk.strip())
    return reps


def run_stress(ctx, w, binp, plan, tag, timeout):
    logdir = w / ("racelog-" + tag)
    logdir.mkdir()
    pj = w / ("plan-%s.json" % tag)
    oj = w / ("stress-%s.json" % tag)
    pj.write_text(json.dumps(plan))
    env = dict(os.environ)
    env["GORACE"] = "log_path=%s halt_on_error=0 exitcode=0" % (logdir / "race")
    env["GOMAXPROCS"] = str(max(4, min(16, os.cpu_count() or 4)))
    try:
        p = subprocess.run([str(binp), str(pj), str(oj)], capture_output=True, text=True, timeout=timeout, env=env)
    except subprocess.TimeoutExpired:
        return None, race_reports(logdir), "timeout"
    if p.returncode != 0 or not oj.exists():
        return None, race_reports(logdir), "exit %s: %s" % (p.returncode, (p.stderr or p.stdout)[-1500:])
    return json.loads(oj.read_text()), race_reports(logdir), None


# ------------------------------------------------------------------ linearizability by TLC
def lin_validate(ctx, events):
    """events: concatenated histories (each starts with a reset event).  Returns (n accepted, [rejected history])."""
    hists, cur = [], []
    for e in events:
        if e["op"] == "reset" and cur:
            hists.append(cur)
            cur = []
        cur.append(e)
    if cur:
        hists.append(cur)
    rejected = []
    n_ok = 0
    pending = hists
    while pending:
        evs = [e for h in pending for e in h]
        ok, r = ctx.validate_trace("MatryerConcLin", "MatryerConcLin.cfg", evs, timeout=900)
        if ok:
            n_ok += len(pending)
            break
        if r.consumed is None:
            raise MachineryError("linearizability check gave no CONSUMED line:\n" + r.tail())
        bad = r.consumed[0]
        pos = 0
        for hi, h in enumerate(pending):
            if bad < pos + len(h):
                rejected.append({"history": h, "stuck_at_event": bad - pos})
                n_ok += hi
                pending = pending[hi + 1:]
                break
            pos += len(h)
        else:
            raise MachineryError("CONSUMED index outside the trace")
        if len(rejected) >= 10:
            break
    return n_ok, rejected, len(hists)


# ------------------------------------------------------------------ testify footprint
TESTIFY_TYPES = {"mock.Mock", "*mock.Mock", "*mock.Call"}


def testify_footprint(fileinfo):
    dev = []
    if fileinfo["pkgvars"]:
        dev.append("package-level variables: %s" % fileinfo["pkgvars"])
    okfields = {}
    for sname, fields in fileinfo["structs"].items():
        okfields[sname] = {(f["name"] or f["type"].lstrip("*").split(".")[-1]) for f in fields if f["type"] in TESTIFY_TYPES}
        extra = [f for f in fields if f["type"] not in TESTIFY_TYPES]
        if extra:
            dev.append("struct %s has fields beyond the embedded testify types: %s" % (sname, extra))
    for m in fileinfo["methods"]:
        for i in m["prog"] + [x for d in m["defers"] for x in d]:
            if i["op"] in ("read", "write") and i["v"].startswith("pkg:"):
                dev.append("%s.%s %ss package-level variable %s (line %d)" % (m["recv"], m["name"], i["op"], i["v"][4:], i["line"]))
            elif i["op"] in ("read", "write") and i["v"].split(".")[0] not in okfields.get(m["recv"], set()):
                dev.append("%s.%s %ss receiver field %s (line %d)" % (m["recv"], m["name"], i["op"], i["v"], i["line"]))
            elif i["op"] in LOCKOPS:
                dev.append("%s.%s uses its own lock %s (line %d)" % (m["recv"], m["name"], i["mu"], i["line"]))
    return dev


# ------------------------------------------------------------------ testify: programs for spec/TestifyConc.tla
TESTIFY_ENV = {"env:On": ["On"], "env:Times": ["Times"], "env:Once": ["Once"], "env:Unset": ["Unset"], "env:Return": ["Return"],
               "env:Assert": ["AssertExpectations"], "env:Called": ["Called"]}   # the user's own testify calls


def testify_field(v, emb):
    """receiver-rooted path of a load/store in a generated testify function -> field of testify's shared state
    ("ExpectedCalls", "Call.Repeatability", ...), None for the embedded struct itself.  emb: field name -> type of the
    receiver struct's testify-typed fields."""
    segs = v.split(".")
    owner = "Mock"
    while segs and segs[0] in emb:
        owner = "Call" if emb[segs[0]].lstrip("*") == "mock.Call" else "Mock"
        segs = segs[1:]
    if not segs:
        return None
    if len(segs) > 1 and any(x.endswith("[]") for x in segs[:-1]):
        return "Call." + segs[-1].replace("[]", "")        # an element of ExpectedCalls / Calls is a mock.Call
    name = segs[0].replace("[]", "")
    return name if owner == "Mock" else "Call." + name


def testify_programs(fileinfo, iface):
    """{op: [path]} of the generated functions that belong to interface `iface` in one testify file; path = [(op, f)]"""
    out = {}
    for m in fileinfo["methods"]:
        r = m["recv"]
        if r == "Mock" + iface:
            op = "gen:" + m["name"]
        elif r == "Mock%s_Expecter" % iface:
            op = "expecter:" + m["name"]
        elif r.startswith("Mock%s_" % iface) and r.endswith("_Call"):
            op = "typed:%s.%s" % (r[len("Mock%s_" % iface):-len("_Call")], m["name"])
        else:
            continue
        emb = {(f["name"] or f["type"].lstrip("*").split(".")[-1]): f["type"] for f in fileinfo["structs"].get(r, []) if f["type"] in TESTIFY_TYPES}
        allv = {i["v"] for i in m["prog"] + [x for d in m["defers"] for x in d] if i["op"] in ("read", "write")}
        paths = []
        for p in enum_paths(m["prog"], m["defers"], allv, keep_forward=True):
            q = []
            for o, _mu, v, _k in p:
                if o == "forward":
                    q.append(("tcall", v.split(".")[-1]))
                elif o in ("read", "write"):
                    f = testify_field(v, emb)
                    if f:
                        q.append((o, f))
            if q not in paths:
                paths.append(q)
        out[op] = paths
    return out


def testify_module(name, progs):
    allp = dict(progs)
    for o, ms in TESTIFY_ENV.items():
        allp[o] = [[("tcall", x) for x in ms]]
    body = " @@ ".join("(%s :> <<%s>>)" % (json.dumps(o), ", ".join(
        "<<%s>>" % ", ".join("[op |-> %s, f |-> %s]" % (json.dumps(a), json.dumps(b)) for a, b in p) for p in ps))
        for o, ps in sorted(allp.items()))
    return ("---- MODULE %s ----\nEXTENDS TestifyConc\nRunProgs == %s\nRunAlpha == {%s}\n====\n"
            % (name, body, ", ".join(json.dumps(o) for o in sorted(allp))))


def testify_cfg(n, k):
    return ("SPECIFICATION Spec\nCONSTANTS\n  Progs <- RunProgs\n  Alphabet <- RunAlpha\n  Gs = {%s}\n  K = %d\nSYMMETRY Symm\n"
            "INVARIANT NoDataRace\n" % (", ".join("g%d" % i for i in range(1, n + 1)), k))


def run(ctx):
    thorough = ctx.thorough()
    # the history classes of the testify half and what the contract expects of each: computed by TLC (TestifyConcCases)
    rc = ctx.tlc_ok("TestifyConcCases", "TestifyConcCases_%s.cfg" % ("thorough" if thorough else "quick"), workers=1, timeout=600)
    tcases = rc.prints("CASE")
    for dim, vals in (("exp", {"maybe", "times", "once", "twice"}), ("nvar", {"na", "0", "2"}), ("unroll", {"false", "unset", "true"}),
                      ("conc", {"none", "on", "unset", "assert"})):
        if {c[dim] for c in tcases} != vals:
            raise MachineryError("vacuous: TestifyConcCases exported %s = %s" % (dim, sorted({c[dim] for c in tcases})))
    ctx.cov["testify_history_classes"] = len(tcases)
    if not thorough:
        # quick tier: every (expectation kind, variadic arity, unroll setting) with two of the four user activities, sampled
        keep = {}
        for c in tcases:
            keep.setdefault((c["exp"], c["nvar"], c["unroll"]), []).append(c)
        tcases = [c for _, cs in sorted(keep.items()) for c in ctx.rng.sample(sorted(cs, key=lambda x: x["id"]), 2)]
    ctx.cov["testify_history_classes_replayed"] = len(tcases)
    tick(ctx, "tlc_testify_cases")
    # ------------------------------------------------------------ 1. generate
    w, files = build_world(ctx)
    tick(ctx, "generate")
    code, out, err = ctx.go(w, "build", "-o", str(w / "extractbin"), "./drv/extract", timeout=300)
    if code != 0:
        raise MachineryError("building the extractor failed:\n" + err[-1500:])
    p = subprocess.run([str(w / "extractbin")] + [str(f) for f in files.values()], capture_output=True, text=True, timeout=120)
    if p.returncode != 0:
        raise MachineryError("extractor failed: " + p.stderr[-800:])
    info = {k: fi for k, fi in zip(files.keys(), json.loads(p.stdout))}
    tick(ctx, "extract")

    # race detector availability (go build -race needs cgo + a C compiler)
    race_ok = True
    build_err = []

    def build_stress():
        nonlocal race_ok
        if os.environ.get("C05_NORACE"):      # self-test of the fallback oracle (lost/torn records without the race detector)
            c, e = 1, "-race disabled by C05_NORACE"
        else:
            c, o, e = ctx.go(w, "build", "-race", "-o", str(w / "stressbin"), "./drv/stress", timeout=900, env={"CGO_ENABLED": "1"})
        if c != 0:
            if "cgo" in e or "gcc" in e or "-race" in e:
                race_ok = False
                c, o, e = ctx.go(w, "build", "-o", str(w / "stressbin"), "./drv/stress", timeout=900)
            if c != 0:
                build_err.append(e[-2500:])
    bt = threading.Thread(target=build_stress)
    bt.start()

    # ------------------------------------------------------------ 2. model checking of the extracted programs
    groups = {}      # canonical path set (interleaving configurations) -> [mock names]
    fwgroups = {}    # canonical call paths with the function entry kept (order configuration) -> [mock names]
    notes = set()
    for k, *_ in OPT_PKGS:
        fi = info["m%d" % k]
        for n in IFACES:
            ms = [m for m in fi["methods"] if m["recv"] == "Moq" + n]
            if not ms:
                raise MachineryError("extractor found no methods of m%d.Moq%s" % (k, n))
            for m in ms:
                for nt in m["notes"]:
                    notes.add("m%d/%s.%s: %s" % (k, n, m["name"], nt))
            paths = mock_paths(ms)
            if "call:A" not in paths or "calls:A" not in paths:
                raise MachineryError("m%d.Moq%s lacks A or ACalls" % (k, n))
            fwp = {o: ps for o, ps in paths.items() if o.startswith("fw:")}
            paths = {o: ps for o, ps in paths.items() if not o.startswith("fw:")}
            groups.setdefault(json.dumps(paths, sort_keys=True), []).append("m%d/%s" % (k, n))
            fwgroups.setdefault(json.dumps(fwp, sort_keys=True), []).append("m%d/%s" % (k, n))
    for nt in sorted(notes)[:5]:
        ctx.note("extraction: " + nt)
    if thorough:
        shapes = [("2x3full", 2, 3, "AlphaFull", False), ("3x2full", 3, 2, "AlphaFull", False), ("2x4one", 2, 4, "AlphaOne", False),
                  ("4x1full", 4, 1, "AlphaFull", False), ("3x3one", 3, 3, "AlphaOne", False), ("2x3oneB", 2, 3, "AlphaOneB", False), ("live2x3", 2, 3, "AlphaTwo", True)]
    else:
        shapes = [("2x3one", 2, 3, "AlphaOne", False), ("3x2all", 3, 2, "AlphaAll", False), ("2x2full", 2, 2, "AlphaFull", False),
                  ("2x2oneB", 2, 2, "AlphaOneB", False), ("live2x2", 2, 2, "AlphaTwo", True)]
    jobs = []
    gl = sorted(groups.items(), key=lambda kv: kv[1])
    for gi, (pj, mocks) in enumerate(gl):
        paths = json.loads(pj)
        mod = "MatryerConcRun%d" % gi
        txt = run_module(mod, paths)
        for tag, n, k, alpha, live in shapes:
            jobs.append(("g%d-%s" % (gi, tag), mod, txt, conc_cfg(n, k, alpha, live)))
    fl = sorted(fwgroups.items(), key=lambda kv: kv[1])
    for fi_, (pj, mocks) in enumerate(fl):
        mod = "MatryerConcOrder%d" % fi_
        jobs.append(("f%d-order1x1" % fi_, mod, run_module(mod, json.loads(pj)), order_cfg()))
    # self-test: the same model with the lock instructions of the recording path removed MUST fail
    p0 = dict(json.loads(gl[0][0]))
    p0.update(json.loads(fl[0][0]))
    broken = dict(p0)
    broken["call:A"] = [[x for x in p if x[0] not in LOCKOPS] for p in p0["call:A"]]
    # ... and a call that enters the function before it stores its record MUST fail the order configuration
    # (synthetic path: the self-test must not depend on what the extracted code looks like)
    late = {"fw:call:A": [[["forward", "", "AFunc", ""], ["lock", "lockA", "", ""], ["read", "", "calls.A", ""],
                           ["write", "", "calls.A", "append"], ["unlock", "lockA", "", ""]]]}
    jobs.append(("selftest-late-record", "MatryerConcLate", run_module("MatryerConcLate", late), order_cfg()))
    jobs.append(("selftest-nolock", "MatryerConcBroken", run_module("MatryerConcBroken", broken), conc_cfg(2, 2, "AlphaOne")))
    # testify half: the extracted programs of the generated testify functions (tcall = testify method, atomic under
    # testify's mutex; read/write = direct access of a field of mock.Mock / mock.Call) against spec/TestifyConc.tla
    tgroups = {}
    for t, _ in TESTIFY_PKGS:
        for n in IFACES:
            tp = testify_programs(info[t], n)
            if "gen:A" not in tp or "gen:B" not in tp or not any(o.startswith("expecter:") for o in tp):
                raise MachineryError("extractor found no generated testify functions of %s.Mock%s" % (t, n))
            if not any(x == ("tcall", "Called") for p in tp["gen:A"] for x in p):
                raise MachineryError("vacuous: the extracted program of %s.Mock%s.A has no call of testify's Called" % (t, n))
            tgroups.setdefault(json.dumps(tp, sort_keys=True), []).append("%s/%s" % (t, n))
    tgl = sorted(tgroups.items(), key=lambda kv: kv[1])
    tshape = (3, 2) if thorough else (2, 2)
    for ti, (pj, mocks) in enumerate(tgl):
        mod = "TestifyConcRun%d" % ti
        jobs.append(("t%d-conc" % ti, mod, testify_module(mod, json.loads(pj)), testify_cfg(*tshape)))
    # self-test: a generated method that loads a field of an expectation itself before it calls Called MUST fail
    jobs.append(("selftest-testify-direct", "TestifyConcBroken",
                 testify_module("TestifyConcBroken", {"gen:A": [[("read", "ExpectedCalls"), ("read", "Call.Repeatability"), ("tcall", "Called")]]}),
                 testify_cfg(2, 1)))
    results = {}
    par = 4 if thorough else 5
    per = max(2, min(8, (os.cpu_count() or 8) // par))
    sem = threading.Semaphore(par)

    def worker(j):
        with sem:
            tlc_job(ctx, j[0], j[1], j[2], j[3], per, 2400 if thorough else 240, results)
    ths = [threading.Thread(target=worker, args=(j,)) for j in jobs]
    for t in ths:
        t.start()
    for t in ths:
        t.join()
    tick(ctx, "tlc_interleavings")
    predictions = {}    # mock name -> [violated property]
    for gi, (pj, mocks) in [("g%d" % i, x) for i, x in enumerate(gl)] + [("f%d" % i, x) for i, x in enumerate(fl)]:
        for tag in ([x[0] for x in shapes] if gi[0] == "g" else ["order1x1"]):
            r = results.get("%s-%s" % (gi, tag))
            if r is None:
                raise MachineryError("TLC timed out on MatryerConc (%s, group of %s)" % (tag, mocks[:3]))
            ctx.cov["states"] += r.distinct
            ctx.cov["transitions"] += r.generated
            ctx.cov.setdefault("tlc_runs_detail", {})["%s-%s" % (gi, tag)] = {"distinct": r.distinct, "generated": r.generated,
                                                                            "seconds": round(r.wall, 1), "violated": r.violated}
            if r.violated:
                for mname in mocks:
                    predictions.setdefault(mname, [])
                    if r.violated not in predictions[mname]:
                        predictions[mname].append(r.violated)
            elif not r.ok:
                raise MachineryError("TLC failed on MatryerConc (%s):\n%s" % (tag, r.tail()))
    st = results.get("selftest-nolock")
    if st is None or not st.violated:
        raise MachineryError("self-test: MatryerConc did not fail with the lock instructions removed from the recording path")
    st = results.get("selftest-late-record")
    if st is None or st.violated != "RecordedBeforeFuncEntered":
        raise MachineryError("self-test: the order configuration did not fail with the function entered before the append")
    for mname, props in sorted(predictions.items())[:6]:
        ctx.note("model-level prediction for %s: %s violated on the extracted program (the stress run decides)" % (mname, ", ".join(props)))

    # testify footprint
    foot = {}
    tfoot = {}
    st = results.get("selftest-testify-direct")
    if st is None or st.violated != "NoDataRace":
        raise MachineryError("self-test: TestifyConc did not report a race for a direct read of Call.Repeatability next to Called")
    for ti, (pj, mocks) in enumerate(tgl):
        r = results.get("t%d-conc" % ti)
        if r is None:
            raise MachineryError("TLC timed out on TestifyConc (group of %s)" % mocks[:3])
        ctx.cov["states"] += r.distinct
        ctx.cov["transitions"] += r.generated
        ctx.cov.setdefault("tlc_runs_detail", {})["t%d-conc" % ti] = {"distinct": r.distinct, "generated": r.generated, "seconds": round(r.wall, 1),
                                                                    "violated": r.violated, "mocks": len(mocks)}
        if r.violated:
            direct = sorted({"%s %s of %s" % (o, x[0], x[1]) for o, ps in json.loads(pj).items() for p in ps for x in p if x[0] != "tcall"})
            for mname in mocks:
                tfoot.setdefault(mname.split("/")[0], []).append("%s: TLC finds %s violated on the extracted programs (TestifyConc): %s"
                                                                % (mname, r.violated, "; ".join(direct[:4])))
        elif not r.ok:
            raise MachineryError("TLC failed on TestifyConc:\n" + r.tail())
    for t, _ in TESTIFY_PKGS:
        dev = testify_footprint(info[t])
        if dev:
            foot[t] = dev
            ctx.note("testify footprint prediction (%s): %s" % (t, "; ".join(dev[:3])))
        nm = [m for m in info[t]["methods"] if m["recv"].startswith("Mock")]
        if len(nm) < len(IFACES) * 2 * 4:
            raise MachineryError("vacuous: extractor saw only %d testify methods in %s" % (len(nm), t))

    for t, devs in sorted(tfoot.items()):
        foot[t] = foot.get(t, []) + devs
        ctx.note("testify model-level prediction (%s): %s" % (t, devs[0]))
    # ------------------------------------------------------------ 3. the real-code oracle: stress under -race
    bt.join()
    if build_err:
        raise MachineryError("building the stress driver against the generated mocks failed:\n" + build_err[0])
    tick(ctx, "build_stress_race")
    if not race_ok:
        ctx.note("go build -race is not available here (cgo/C compiler missing): falling back to the model + lost/torn-record oracle")
    plan = {"seed": ctx.seed, "g": 8, "k": 400 if thorough else 150, "rounds": 6 if thorough else 2,
            "hist": 120 if thorough else 25, "unroll": dict(TESTIFY_PKGS), "only": [], "testify": True,
            "tcases": tcases, "unroll_s": {t: ("unset" if u is None else "true" if u else "false") for t, u in TESTIFY_PKGS},
            "snap_ms": 200 if thorough else 40}
    res, races, errm = run_stress(ctx, w, w / "stressbin", plan, "main", 2400 if thorough else 300)
    runs = [("main", res, races, errm)]
    suspects = sorted(set(predictions) | {"%s/" % t for t in foot})
    if suspects and res is not None and not res["failures"] and not races:
        plan2 = dict(plan, only=suspects, rounds=plan["rounds"] * 4, k=plan["k"] * 2, hist=0,
                     snap_ms=max(plan["snap_ms"], min(1500, (60000 if thorough else 12000) // max(1, len(suspects)))))
        runs.append(("predicted",) + run_stress(ctx, w, w / "stressbin", plan2, "predicted", 2400 if thorough else 300))
    tick(ctx, "stress")
    all_hist = []
    stats = {}
    targets = set()
    n_viol = 0
    for tag, res, races, errm in runs:
        attributed = [(rep, sorted(set(re.findall(r"/out/((?:m\d|t\d)/mocks\.go:\d+)", rep)))) for rep in races]
        unattributed = [rep for rep, gen in attributed if not gen]
        if unattributed and len(unattributed) == len(attributed):
            raise MachineryError("race report(s) with no frame in generated code (driver bug?):\n" + unattributed[0][:1500])
        if unattributed:
            ctx.note("%d race report(s) had no frame in generated code (follow-up damage of the attributed races, e.g. a torn slice header); ignored"
                     % len(unattributed))
        for rep, gen in attributed:
            if not gen:
                continue
            tmpl = "testify" if gen[0].startswith("t") else "matryer"
            fns = sorted(set(re.findall(r"\(\*(?:Moq|Mock)\w+\)\.(\w+)\(\)", rep)))
            if n_viol < 30:
                ctx.violation({"kind": "data-race", "template": tmpl, "methods": ",".join(fns)[:80]},
                              {"race_detector_report": rep[:4000], "generated_lines": gen, "stress_run": tag,
                               "model_prediction": sorted(predictions.items())[:4]})
            n_viol += 1
        if res is None:
            gen = sorted(set(re.findall(r"/out/((?:m\d|t\d)/mocks\.go:\d+)", errm or "")))
            if gen and errm != "timeout":
                # the process died inside generated code (fatal error: unlock of unlocked mutex, torn slice header, ...)
                ctx.violation({"kind": "crash", "template": "testify" if gen[0].startswith("t") else "matryer"},
                              {"stress_run": tag, "stderr_tail": errm[-3000:], "generated_lines": gen})
                n_viol += 1
                continue
            if n_viol:
                continue
            if errm != "timeout" and predictions and re.search(r"panic: |fatal error: |SIGSEGV", errm or ""):
                # the stress process itself died (memory damage after unsynchronised access), as the model predicted
                ctx.violation({"kind": "crash", "template": "matryer"},
                              {"stress_run": tag, "stderr_tail": errm[-3000:],
                               "model_prediction": {m: predictions[m] for m in sorted(predictions)[:4]}})
                n_viol += 1
                continue
            live_pred = sorted(m for m, ps in predictions.items() if any(x in ("Deadlock", "Temporal properties") for x in ps))
            if errm == "timeout" and live_pred:
                # TLC predicted a deadlock / an operation that never completes on the extracted program and the real
                # stress run did not finish within its (generous) wall-clock bound
                ctx.violation({"kind": "hang", "template": "matryer"},
                              {"stress_run": tag, "model_prediction": {m: predictions[m] for m in live_pred[:4]}})
                n_viol += 1
                continue
            raise MachineryError("stress driver failed (%s): %s" % (tag, errm))
        for f in res["failures"]:
            tmpl = "testify" if f["target"].startswith("t") else "matryer"
            if f["kind"] in ("broken",):
                raise MachineryError("stress driver cannot drive %s: %s" % (f["target"], f["detail"]))
            if n_viol < 30:
                ctx.violation({"kind": f["kind"], "template": tmpl, "mode": f["mode"].split("/")[0]},
                              {"target": f["target"], "mode": f["mode"], "detail": f["detail"], "stress_run": tag,
                               "model_prediction": predictions.get(f["target"])})
            n_viol += 1
        all_hist += res["histories"]
        for k, v in res["stats"].items():
            stats[k] = stats.get(k, 0) + v
        targets |= set(res["targets"])
    NT = len(IFACES) * (len(OPT_PKGS) + len(TESTIFY_PKGS))
    if n_viol and (len(targets) < NT or not all_hist):
        # the stress process died on the way (a consequence of the violations already recorded): verdict stands
        ctx.cov["stress_targets"] = len(targets)
        return {"level": "model_checking", "exhaustive": False}
    if len(targets) < NT:
        raise MachineryError("vacuous: stress ran on %d targets only" % len(targets))
    for need in ("calls", "concurrent_reads", "concurrent_resets", "testify_calls", "testify_concurrent_on", "testify_expecter_rounds", "testify_concurrent_first_expect", "testify_concurrent_constructors", "testify_concurrent_typed_on", "recorder_targets", "probe_calls", "histories",
                 "testify_case_runs", "testify_zero_variadic_calls", "testify_limited_expectation_calls", "testify_case_conc_on",
                 "testify_case_conc_unset", "testify_case_conc_assert", "snapshot_reads_nonempty", "snapshot_resets", "snapshot_calls"):
        if not stats.get(need):
            raise MachineryError("vacuous: stress statistics lack %s" % need)
    if predictions and not n_viol:
        ctx.note("model-level predictions were NOT reproduced by the stress runs (no verdict): %s" % sorted(predictions)[:5])
    if foot and not n_viol:
        ctx.note("testify footprint deviations were NOT reproduced as a race or a lost/torn record (no verdict)")

    # ------------------------------------------------------------ 4. recorded histories: linearizable? (TLC)
    n_ok, rej, n_h = lin_validate(ctx, all_hist)
    for rj in rej:
        h = rj["history"]
        ctx.violation({"kind": "not-linearizable", "template": "matryer"},
                      {"target": h[0].get("target"), "history": h, "stuck_at_event": rj["stuck_at_event"],
                       "spec": "spec/MatryerConcLin.tla"})
    overlapping = 0
    for i in range(len(all_hist) - 1):
        if all_hist[i]["op"] == "inv" and all_hist[i + 1]["op"] == "inv":
            overlapping += 1
    if n_h < 100 or overlapping < 20:
        raise MachineryError("vacuous: %d histories, %d overlapping invocations" % (n_h, overlapping))
    # self-test of the binding: a corrupted history must be rejected
    good = []
    for e in all_hist:
        if e["op"] == "reset" and good:
            if any(x["op"] == "ret" and x["what"] == "read" and x["recs"] for x in good):
                break
            good = []
        good.append(e)
    bad = json.loads(json.dumps(good))
    for x in bad:
        if x["op"] == "ret" and x["what"] == "read" and x["recs"]:
            x["recs"] = x["recs"] + [x["recs"][0]]     # a record twice
            break
    else:
        bad = None
    if bad:
        ok2, _ = ctx.validate_trace("MatryerConcLin", "MatryerConcLin.cfg", bad, timeout=300)
        if ok2:
            raise MachineryError("self-test: MatryerConcLin accepted a history with a duplicated record")
    tick(ctx, "linearizability")

    ctx.cov["traces_validated_against_impl"] += n_ok + len(rej)
    ctx.cov["evaluations"] += int(stats.get("calls", 0) + stats.get("testify_calls", 0))
    ctx.cov["distinct_nontrivial"] = n_h
    ctx.cov["rule"] = ("non-trivial = recorded concurrent history of 3 goroutines x 2 operations; evaluations = mock calls made "
                       "by free-running goroutines under the race detector")
    ctx.cov.update({"race_detector": race_ok, "distinct_extracted_program_sets": len(groups),
                    "program_sets": [{"mocks": len(m), "example": m[0], "paths": json.loads(pj)} for pj, m in gl][:4],
                    "tlc_runs": len(jobs), "interleaving_configs": [s[0] for s in shapes],
                    "stress_stats": stats, "stress_targets": len(targets), "race_reports": sum(len(r[2]) for r in runs),
                    "histories_linearized": n_h, "histories_with_overlap_pairs": overlapping,
                    "model_predictions": {k: v for k, v in sorted(predictions.items())[:10]},
                    "testify_footprint_deviations": foot})
    ctx.sample({"extracted_program_of": gl[0][1][0], "paths": json.loads(gl[0][0])})
    if all_hist:
        ctx.sample({"recorded_history": good[:14]})
    ctx.sample({"testify_methods_extracted": len([m for m in info["t0"]["methods"]]), "testify_footprint": foot or "only locals, parameters and testify accessors"})
    ctx.assumptions += [
        "TLC explores all interleavings of the extracted programs for the listed goroutine x operation configurations (small scope); goroutine-local instructions are dropped, loops abstracted to 0/1 iterations",
        "memory-level data races are decided by the Go race detector on free-running stress runs, not by the model",
        "testify's own locking is trusted (the property scopes it); the generated code's footprint is asserted and stressed",
        "which fields a testify method touches under its mutex is a hand-read table of testify v1.10.0 mock.go (spec/TestifyConc.tla Api); the race detector on the replayed history classes is the verdict",
        "sync.RWMutex writer preference is not modelled (no nested locking in the extracted programs)",
    ]
    return {"level": "model_checking", "exhaustive": False}


if __name__ == "__main__":
    main("C05", run)
