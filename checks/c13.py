#!/usr/bin/env python3
"""C13 -- replace-type substitutes exactly the configured types.

1. TLC (spec/ReplaceType.tla, contract in spec/ReplaceTypeContract.tla) enumerates every case
   position x other-uses x source-kind x target x level x placement x template, runs the code-shaped merge/lookup
   model on each, checks the contract's sanity (satisfiable, demands a change on exact positions, never touches
   uncovered mocks, same effect at every level) and reports which cases the code-shaped model predicts to violate.
2. A seeded, pairwise-covering sample of the cases is exported in full (world, Base = expected outcome without the
   setting, Accept = acceptable outcomes with it, all computed by the TLA+ contract), materialised as one Go module
   and run through the mockery binary built from the working tree TWICE (without / with the setting).  Observation:
   go/parser projection of the built-in templates' output (drivers/replacesig) and a probe template dumping
   TypeString / .Imports.  Verdict: observed-with in Accept, required imports present, forbidden absent, both trees
   compile.  Baseline (without) must equal Base, otherwise the check cannot decide (exit 2).
3. Every run's hook trace + the observed projections are validated by TLC against spec/ReplaceTypeTrace.tla,
   where the CONTRACT operators (not Python) decide acceptance; TLC and Python must agree.

COVERAGE TABLE (statement clause / quantifier dimension -> what explores it -> what is still a single point or absent)
  "named type (package path + name)"      -> key (orig, T) / alias key (orig, TA) / local key (src, K); look-alikes that must stay:
                                             other spelling (alias<->named), alias in a third package, same NAME in another package
                                             (also with the same package NAME, also itself mapped), TYPE PARAMETER with that name.
                                             Single point: alias of an alias, dot-imported / vendored paths.
  "every method parameter or result"      -> param, result, both, unnamed, two positions, param named like the qualifier, methods coming
                                             from an EMBEDDED interface of another package.  Nested (ptr, slice, map, chan, func,
                                             variadic element, type argument): accepted either way.  Absent: embedded interface of the
                                             same package, array / struct-field / interface-method-literal nesting.
  "rendered with the replacement type"    -> Accept (TLA+) on names + the NATIVE TWIN differential on everything templates derive from the
                                             type; kinds struct/basic/interface -> struct/interface/map/alias-of-pointer; template-data
                                             options (stub-impl, with-resets, unroll-variadic) as a spelling dimension.
                                             Absent: generic / instantiated-generic replacement types (semantics open), channel/func kinds.
  "replacement's package is imported"     -> targets: other package, alias, package with the original's NAME (qualifier collision), the
                                             mock's own destination package (in-package and separate), the ORIGINAL's own package.
  "original imported only if still used"  -> other uses: none, other param (before/after), other method, other interface, embedded;
                                             probe (.Imports exact) + gofmt/noop (unused import = type error); entries for types that
                                             occur nowhere (no effect, target not imported).
  "all others rendered as without"        -> differential without/with; unrelated method Z, second interface, second configs entry,
                                             sibling / child / parent packages (no-leak family, recursive + listed sub-package).
  "result still compiles"                 -> source type-check of both trees (go/packages), three formatters.
  "at whichever level it is written"      -> root, package, interface, configs entry, second of two entries; two targets for two mocks in
                                             one file (entries / interfaces, both orders); the same type at two levels of one chain
                                             (package<interface, top<entry: most specific wins); listed vs. unlisted interfaces; no-leak
                                             family over {top, recursive parent, sub-package, sibling} x {T, U}.
                                             Absent: env / flag sources for replace-type, more than one mapping per level in family 1
                                             beyond the twin entry, interfaces-level leaks inside one package with 2+ mapped types.
  placements / templates                  -> separate, in-package; testify, matryer, probe.  Absent: _test placements (see C17), custom
                                             structname templates, several output files per run sharing a registry (there is one per file).
"""
import concurrent.futures as cf
import json
import os
import re
import shutil
import subprocess
import sys
import time

sys.path.insert(0, os.path.join(os.path.dirname(__file__), "..", "lib"))
import vlib  # noqa: E402
from vlib import MachineryError, main  # noqa: E402

MOD = "example.com/w"
PKGS = {  # abstract package id -> (import path, package name)
    "orig": (MOD + "/orig/foo", "foo"),
    "alt": (MOD + "/alt/bar", "bar"),
    "same": (MOD + "/alt2/foo", "foo"),     # same package NAME as orig: qualifier collision
    "third": (MOD + "/third/legacy", "legacy"),   # holds an (unconfigured) alias of the original type
}
MAX_SOLO = 96
GENERIC_POS = ("tparam", "targ", "tparamreal")     # the configured type lives in the source package; I1 may be generic
SEM = ("pos", "other", "srckind", "target", "level", "place")      # dimensions the contract speaks about (TLC state)
OBS = ("templ", "listing", "fmt", "kinds", "extra", "tdopt", "vis", "dststate")                                   # how the case is observed / spelled (TLC constants)
DIMS = SEM + OBS

SRC_KINDS = {"s": "struct{ A int }", "b": "string", "i": "interface{ Ping() }"}
DST_KINDS = {"s": "struct{ C int }", "i": "interface{ Pong() string }", "m": "map[string]int", "p": None}   # p: alias of a pointer


def _decl_sources():
    return "".join(f"type T_{k} {v}\n\ntype TA_{k} = T_{k}\n\n" for k, v in SRC_KINDS.items())


def _decl_targets(name):
    out = "type P struct{ Z int }\n\n"
    for k, v in DST_KINDS.items():
        out += f"type {name}_{k} = *P\n\n" if v is None else f"type {name}_{k} {v}\n\n"
    return out


# the replaced / replacing types exist in several KINDS (struct, named basic, interface / struct, interface, map, alias of a
# pointer); a case picks one pair (observation dimension "kinds"), the abstract names T, TA, R, RA, H, D are concretised as
# T_s, R_i, ...; the contract does not depend on it, what the templates derive from the type (nil guards, zero values) does
SHARED = {
    "orig/foo/t.go": "package foo\n\n" + _decl_sources() + "type U struct{ B int }\n\n" + _decl_targets("R") +
                     "".join(f"// E{n}_{k} is embedded by interfaces of other packages\ntype E{n}_{k} interface {{\n\tME(e {n}_{k}) (r0 {n}_{k})\n}}\n\n"
                             for k in SRC_KINDS for n in ("T", "TA")),
    "alt/bar/t.go": f'package bar\n\nimport "{MOD}/orig/foo"\n\n' + _decl_targets("R") + "type R2 struct{ G int }\n\n" +
                    "".join(f"// RA_{k} is an alias: identical to the original type\ntype RA_{k} = foo.T_{k}\n\n" for k in SRC_KINDS),
    "alt2/foo/t.go": "package foo\n\n" + _decl_targets("R") + "type R2 struct{ H int }\n\n" + _decl_sources(),
    "third/legacy/h.go": f'package legacy\n\nimport "{MOD}/orig/foo"\n\n' +
                         "".join(f"// H_{k} is an alias in a third package; it never has a replace-type entry of its own\ntype H_{k} = foo.T_{k}\n\n" for k in SRC_KINDS),
}
KINDED = re.compile(r"^(T|TA|R|RA|H|D|d|dr)_[a-z]$")

# probe template: per mock and method the rendered parameter / return type strings, and .Imports (path + qualifier)
PROBE_FILE = vlib.VERIF / "probes" / "replacetype" / "sig.templ"


# ---------------------------------------------------------------------------------------------- selection
def select_cases(rows, obsdims, rng, n, predicted_quota, all_rows=False):
    """rows: [(semantic dims, predicted, must)], obsdims: {templ, listing, fmt -> values}.
    Candidates = random full tuples (semantic row x observation dims; probe is always formatted by noop);
    a greedy pairwise-covering core over all nine dimensions, then a seeded fill that prefers cases in which the
    contract demands a change.  Predicted violations of the code-shaped model get a small quota of their own."""
    def full(sem):
        t = rng.choice(obsdims["templ"])
        f = "noop" if t == "probe" else rng.choice(obsdims["fmt"])
        return tuple(sem) + (t, rng.choice(obsdims["listing"]), f, rng.choice(obsdims["kinds"]), rng.choice(obsdims["extra"]),
                             rng.choice(obsdims["tdopt"]), rng.choice(obsdims["vis"]), rng.choice(obsdims["dststate"]))

    normal = [r for r in rows if not r[1]]
    pred = [r for r in rows if r[1]]
    rng.shuffle(pred)
    chosen = [full(r[0]) for r in pred[:predicted_quota]]
    cands = []
    for _ in range(3):
        for r in normal:
            cands.append((full(r[0]), r[2]))
    rng.shuffle(cands)
    # what the core must cover: every value pair of the nine dimensions, plus the triples in which the
    # dimensions interact in the code (which config path an interface takes x level x second interface;
    # level x template x target)
    TRIPLES = (("other", "level", "listing"), ("level", "templ", "target"),
               ("target", "place", "vis", "templ"), ("target", "place", "dststate", "vis"))
    ix = {d: i for i, d in enumerate(DIMS)}

    def items(d):
        out = [(i, d[i], j, d[j]) for i in range(len(d)) for j in range(i + 1, len(d))]
        for tr in TRIPLES:
            if tr[0] == "other" and d[ix["other"]] not in ("ifaceT", "ifaceU"):
                continue
            out.append(tuple((ix[x], d[ix[x]]) for x in tr))
        return out
    need = set()
    for d, _ in cands:
        need.update(items(d))
    for d in chosen:
        need.difference_update(items(d))
    chosen_set = set(chosen)
    pos = 0
    while need and pos < len(cands):
        window = cands[pos:pos + 60]
        best, bestc = None, 0
        for d, _ in window:
            if d in chosen_set:
                continue
            c = sum(1 for it in items(d) if it in need)
            if c > bestc:
                best, bestc = d, c
        if best is None:
            pos += 60
            continue
        chosen.append(best)
        chosen_set.add(best)
        need.difference_update(items(best))
    if all_rows:      # every case of the model at least once
        seen = {d[:len(SEM)] for d in chosen}
        for r in normal:
            if tuple(r[0]) not in seen:
                d = full(r[0])
                chosen.append(d)
                chosen_set.add(d)
    # fill: two thirds of the remainder from the cases in which something must change
    musts = [d for d, m in cands if m]
    others = [d for d, m in cands if not m]
    k = 0
    while len(chosen) < n and (musts or others):
        src = musts if (k % 3 != 2 and musts) or not others else others
        d = src.pop()
        k += 1
        if d not in chosen_set:
            chosen.append(d)
            chosen_set.add(d)
    return chosen, len(need)


# ---------------------------------------------------------------------------------------------- concretisation
def go_type(t, quals, cn=lambda n: n):
    k = t["k"]
    if k == "named":
        return quals[t["p"]] + cn(t["n"])
    if k in ("basic", "tparam"):
        return t["n"]
    a = t["a"]
    if k == "inst":
        return go_type(a[0], quals, cn) + "[" + ", ".join(go_type(x, quals, cn) for x in a[1:]) + "]"
    if k == "ptr":
        return "*" + go_type(a[0], quals, cn)
    if k == "slice":
        return "[]" + go_type(a[0], quals, cn)
    if k == "map":
        return "map[" + go_type(a[0], quals, cn) + "]" + go_type(a[1], quals, cn)
    if k == "chan":
        return "chan " + go_type(a[0], quals, cn)
    if k == "func":
        return "func(" + go_type(a[0], quals, cn) + ") " + go_type(a[1], quals, cn)
    raise MachineryError("cannot concretise type term " + json.dumps(t))


class Case:
    def __init__(self, idx, rec, full):
        self.idx = idx
        self.rec = rec
        self.id = f"k{idx}"
        self.dims = tuple(full)
        for d, v in zip(DIMS, full):
            setattr(self, d, v)
        for d in SEM:
            if rec[d] != getattr(self, d):
                raise MachineryError("exported case does not match the wanted tuple")
        self.srcpath = f"{MOD}/{self.id}/src"
        if self.place == "inpkg":
            self.dir, self.pkgname, self.dstpath = f"{self.id}/src", "src", self.srcpath
        else:
            self.dir, self.pkgname, self.dstpath = f"{self.id}/mocks", "mocks", f"{MOD}/{self.id}/mocks"
        self.filename = "zz_probe.json" if self.templ == "probe" else "zz_mocks.go"
        self.file = f"{self.dir}/{self.filename}"
        self.path_to_id = {v[0]: k for k, v in PKGS.items()}
        self.path_to_id[self.dstpath] = "dst"

    def cn(self, n):
        """abstract type name -> concrete name of the kind pair of this case (T -> T_s, R -> R_i, ...)"""
        sk, tk = self.kinds[0], self.kinds[1]
        if n in ("T", "TA", "RA", "H"):
            return f"{n}_{sk}"
        if n == "D":
            # visibility of a replacement that lives in the mock's own package: exported, unexported and not mentioned by any
            # exported declaration, unexported but reachable from the exported API
            return {"exp": "D", "unexp": "d", "unexpreach": "dr"}[self.vis] + f"_{tk}"
        if n == "R":
            return f"{n}_{tk}"
        return n

    def target_pkg(self):
        """(import path, package name) of the replacement"""
        p = self.rec["to"]["p"]
        if p == "dst":
            return self.dstpath, self.pkgname
        return PKGS[p]

    def sig(self, kind, detail=""):
        s = {d: getattr(self, d) for d in DIMS}
        s.update({"kind": kind, "detail": detail})
        return s

    def d_decl(self):
        v = DST_KINDS[self.kinds[1]]
        name = self.cn("D")
        decl = f"type DP struct{{ Z int }}\n\ntype {name} = *DP" if v is None else f"type {name} {v}"
        if self.vis == "unexpreach":
            decl += f"\n\n// Keep makes {name} part of what the package's exported API mentions\nvar Keep {name}"
        return decl

    # ---- source files
    def sources(self):
        files = {}
        quals = {"orig": "foo.", "same": "foo2.", "alt": "bar.", "third": "legacy.", "src": ""}
        qname = self.target_pkg()[1]
        lines = []
        used = set()
        for itf in self.rec["ifaces"]:
            tps = ", ".join(f"{tp['name']} {tp['constraint']}" for tp in itf.get("tparams", []))
            lines.append(f"type {itf['name']}{'[' + tps + ']' if tps else ''} interface {{")
            if self.other == "embedded" and itf["name"] == "I1":
                lines.append("\tfoo.E" + self.cn("T" if self.srckind == "named" else "TA"))      # brings ME into the method set
                used.add("orig")
            for m in itf["methods"]:
                if self.other == "embedded" and m["name"] == "ME":
                    continue
                ps = []
                for p in m["params"]:
                    t = p["t"]
                    for pk in refs(t):
                        used.add(pk)
                    ts = go_type(t, quals, self.cn)
                    if p["variadic"]:
                        ts = "..." + ts[2:]
                    nm = p["name"].replace("$q", qname)
                    ps.append((nm + " " + ts).strip())
                rs = []
                for ri, t in enumerate(m["results"]):
                    for pk in refs(t):
                        used.add(pk)
                    # results are named: the helper names the templates derive for unnamed results come from the ORIGINAL
                    # type, which would make the replaced mock differ from its native twin in an irrelevant way
                    rs.append(f"r{ri} " + go_type(t, quals, self.cn))
                res = "" if not rs else " (" + ", ".join(rs) + ")"
                lines.append(f"\t{m['name']}({', '.join(ps)}){res}")
            lines.append("}")
            lines.append("")
        imps = []
        if "orig" in used:
            imps.append(f'\t"{PKGS["orig"][0]}"')
        if "same" in used:
            imps.append(f'\tfoo2 "{PKGS["same"][0]}"')
        if "alt" in used:
            imps.append(f'\t"{PKGS["alt"][0]}"')
        if "third" in used:
            imps.append(f'\t"{PKGS["third"][0]}"')
        src = ["package src", ""]
        if imps:
            src += ["import ("] + imps + [")", ""]
        if self.target == "dstpkg" and self.place == "inpkg":
            src += ["// D is a replacement type living in the mock's own (= the source) package", self.d_decl(), ""]
        if self.pos in GENERIC_POS:
            src += ["// K is the configured type: it lives next to the (generic) interface", "type K string", "",
                    "type Box[E any] struct{ V E }", ""]
        src += lines
        files[f"{self.id}/src/src.go"] = "\n".join(src)
        if self.target == "dstpkg" and self.place == "separate":
            files[f"{self.id}/mocks/own.go"] = "package mocks\n\n// D is a replacement type living in the mock's own destination package\n" + self.d_decl() + "\n"
            if self.dststate == "pending" and self.templ != "probe" and self.pos not in ("tparam", "tparamreal"):
                # the destination package does not type-check until the run has written the mock: a hand-written file
                # there already uses it (first run of a new mock / a stale generated file after a rename)
                files[f"{self.id}/mocks/uses.go"] = "package mocks\n\n// hand-written helper that is ahead of the generated code\nfunc NewFake() *MockI1 { return &MockI1{} }\n"
        return files

    # ---- configuration
    def mapping(self, second=False):
        """the replace-type entry of the case; second: the same source type mapped to the OTHER target"""
        key = self.cn(self.rec["key"]["n"])
        kpath = self.srcpath if self.rec["key"]["p"] == "src" else PKGS["orig"][0]
        if second:
            to = self.rec["to2"]
            return self.more_entries({kpath: {key: {"pkg-path": PKGS[to["p"]][0], "type-name": self.cn(to["n"])}}})
        tp = self.target_pkg()[0]
        return self.more_entries({kpath: {key: {"pkg-path": tp, "type-name": self.cn(self.rec["to"]["n"])}}})

    def more_entries(self, m):
        """entries written next to the case's own: the look-alike type of the package with the same NAME (twinmapped), and
        (spelling dimension) an entry for a type that occurs nowhere -- no effect, and its target must not be imported"""
        if self.other == "twinmapped":
            m.setdefault(PKGS["same"][0], {})[self.cn("T" if self.srckind == "named" else "TA")] = {"pkg-path": PKGS["alt"][0], "type-name": "R2"}
        if self.extra == "unused":
            m.setdefault(PKGS["orig"][0], {})["Absent"] = {"pkg-path": PKGS["third"][0], "type-name": "H_s"}
            m.setdefault(PKGS["third"][0], {})["Nothing"] = {"pkg-path": PKGS["same"][0], "type-name": "R2"}
        return m

    def pkg_config(self, with_setting, probe_path, force=False):
        conf = {"all": True, "dir": self.dir, "pkgname": self.pkgname, "filename": self.filename,
                "formatter": self.fmt}
        if force:
            conf["force-file-write"] = True
        if self.templ == "probe":
            conf["template"] = "file://" + probe_path
            conf["require-template-schema-exists"] = False
        else:
            conf["template"] = self.templ
        if self.templ == "matryer" and (self.pos in GENERIC_POS or self.target != "alias" or self.other == "twinmapped" or
                                        self.level in ("entry2x", "entry2y", "iface2x", "iface2y", "over_pi", "over_re")):
            # a replaced signature no longer implements the source interface: the documented switch for that.
            # (With an alias of the original type as replacement the ensure line stays on and must compile.)
            conf["template-data"] = {"skip-ensure": True}
        if self.tdopt == "opts" and self.templ == "matryer":
            conf.setdefault("template-data", {}).update({"stub-impl": True, "with-resets": True})
        elif self.tdopt == "opts" and self.templ == "testify":
            conf.setdefault("template-data", {})["unroll-variadic"] = False
        entry = {"config": conf}
        m = self.mapping() if with_setting else None
        if self.level == "pkg" and m:
            conf["replace-type"] = m
        ifs = {}
        if self.level == "iface":
            ifs["I1"] = {"config": ({"replace-type": m} if m else {})}
        elif self.level == "entry":
            ifs["I1"] = {"configs": [({"replace-type": m} if m else {})]}
        elif self.level == "entry2":
            e1 = {"structname": "MockI1R"}
            if m:
                e1["replace-type"] = m
            ifs["I1"] = {"configs": [{}, e1]}
        elif self.level in ("entry2x", "entry2y"):
            # two mocks of I1 in one file, the same source type mapped to different targets
            m2 = self.mapping(second=True) if with_setting else None
            first, second = (m, m2) if self.level == "entry2x" else (m2, m)
            e0, e1 = {}, {"structname": "MockI1R"}
            if with_setting:
                e0["replace-type"] = first
                e1["replace-type"] = second
            ifs["I1"] = {"configs": [e0, e1]}
        elif self.level == "over_pi":
            # the same source type at package level (-> the other target) and, more specific, at I1's interface level
            if with_setting:
                conf["replace-type"] = self.mapping(second=True)
            ifs["I1"] = {"config": ({"replace-type": m} if m else {})}
        elif self.level == "over_re":
            # ... at top level (see Run.root_mapping) and, more specific, on I1's configs entry
            ifs["I1"] = {"configs": [({"replace-type": m} if m else {})]}
        elif self.level in ("iface2x", "iface2y"):
            # two interfaces in one file, the same source type mapped to different targets at interface level
            m2 = self.mapping(second=True) if with_setting else None
            first, second = (m, m2) if self.level == "iface2x" else (m2, m)
            ifs["I1"] = {"config": ({"replace-type": first} if with_setting else {})}
            ifs["I2"] = {"config": ({"replace-type": second} if with_setting else {})}
        # spelling: interfaces listed although they carry no setting of their own
        if self.listing in ("I1", "all"):
            ifs.setdefault("I1", {})
        if self.listing == "all" and len(self.rec["ifaces"]) > 1:
            ifs.setdefault("I2", {})
        if ifs:
            entry["interfaces"] = ifs
        return entry

    def group_key(self):
        if self.level not in ("root", "over_re"):
            return None
        return (self.level, self.srckind, self.target, self.kinds, self.other == "twinmapped", self.extra,
                self.id if self.target == "dstpkg" or self.pos in GENERIC_POS else "")

    def root_mapping(self):
        return self.mapping(second=(self.level == "over_re"))


def refs(t):
    if t["k"] == "named":
        return {t["p"]}
    out = set()
    for c in t["a"]:
        out |= refs(c)
    return out


# ---------------------------------------------------------------------------------------------- running
class Run:
    def __init__(self, rid, cases, root_mapping):
        self.rid = rid
        self.cases = cases
        self.root_mapping = root_mapping


def plan_runs(cases, nchunks):
    runs = []
    groups = {}
    rest = []
    for c in cases:
        g = c.group_key()
        if g is None:
            rest.append(c)
        else:
            groups.setdefault(g, []).append(c)
    for g, cs in sorted(groups.items()):
        runs.append(Run(f"r{len(runs)}", cs, cs[0].root_mapping()))
    for i in range(nchunks):
        cs = rest[i::nchunks]
        if cs:
            runs.append(Run(f"r{len(runs)}", cs, None))
    return runs


def run_config(run, with_setting, probe_path, force=False):
    conf = {"log-level": "info", "packages": {}}
    if with_setting and run.root_mapping:
        conf["replace-type"] = run.root_mapping
    for c in run.cases:
        conf["packages"][c.srcpath] = c.pkg_config(with_setting, probe_path, force)
    return conf


def exec_run(binp, tree, run, with_setting, probe_path, force=False, tag=""):
    # the config file sits in the working directory: relative paths mean the same whichever of the two they refer to
    cfgp = tree / f"mockery-{run.rid}{tag}.yml"
    (tree / "cfg").mkdir(exist_ok=True)
    cfgp.write_text(json.dumps(run_config(run, with_setting, probe_path, force), indent=1))
    tfile = tree / "cfg" / f"{run.rid}{tag}.trace"
    if tfile.exists():
        tfile.unlink()
    env = vlib.go_env({"VERIFHOOK_TRACE": str(tfile)})
    t = time.time()
    try:
        p = subprocess.run([str(binp), "--config", str(cfgp)], cwd=tree, env=env, capture_output=True, text=True,
                           timeout=600, errors="replace")
        code, out, err, to = p.returncode, p.stdout, p.stderr, False
    except subprocess.TimeoutExpired:
        code, out, err, to = -9, "", "timeout", True
    evs = []
    if tfile.exists():
        for ln in tfile.read_text().splitlines():
            try:
                evs.append(json.loads(ln))
            except ValueError:
                pass
    return vlib.RunResult(code, out, err, time.time() - t, to, evs)


def run_tree(ctx, binp, tree, runs, with_setting, probe_path):
    """Execute all runs of a tree in parallel.  A failed multi-case run is split into single-case runs so that
    the failing case is identified.  Returns ({case id: RunResult of the run that produced it}, [(Run, RunResult)])."""
    per_case = {}
    done = []

    def work(run, force=False, tag=""):
        return run, exec_run(binp, tree, run, with_setting, probe_path, force, tag)

    with cf.ThreadPoolExecutor(max_workers=8) as ex:
        first = list(ex.map(lambda r: work(r), runs))
        pending = []
        for run, res in first:
            if res.code == 0 or len(run.cases) == 1:
                done.append((run, res))
                for c in run.cases:
                    per_case[c.id] = res
            else:
                pending.append(run)
        # a failed batch is halved until the failing cases stand alone (the others are then judged in their halves);
        # the number of re-runs per tree is bounded, what is left over stays unevaluated
        budget, gen = MAX_SOLO, 0
        while pending and budget > 0:
            gen += 1
            halves = []
            for run in pending:
                k = (len(run.cases) + 1) // 2
                for j, part in enumerate((run.cases[:k], run.cases[k:])):
                    if part:
                        halves.append(Run(f"{run.rid}.{j}", part, part[0].root_mapping() if run.root_mapping else None))
            halves, rest = halves[:budget], halves[budget:]
            budget -= len(halves)
            for r in rest:
                for c in r.cases:
                    per_case[c.id] = None
            pending = []
            for run, res in ex.map(lambda r: work(r, True, f"-g{gen}"), halves):
                if res.code == 0 or len(run.cases) == 1:
                    done.append((run, res))
                    for c in run.cases:
                        per_case[c.id] = res
                else:
                    pending.append(run)
        left = [c for run in pending for c in run.cases]
        for c in left:
            per_case[c.id] = None
        if gen:
            n_un = sum(1 for v in per_case.values() if v is None)
            ctx.note(f"failed batches were halved {gen} time(s) ({'with' if with_setting else 'without'} the setting); {n_un} case(s) left unevaluated")
    return per_case, done


# ---------------------------------------------------------------------------------------------- observation
def observe_all(ctx, drv, tree, cases, label):
    """-> {case id: {"mocks": [...], "imports": [ids], "raw_imports": [...]} | {"error": str}}"""
    files, exprs = [], []
    probe_raw = {}
    obs = {}
    for c in cases:
        p = tree / c.file
        if not p.exists():
            obs[c.id] = {"error": "output file missing"}
            continue
        if c.templ == "probe":
            try:
                d = json.loads(p.read_text())
            except ValueError as e:
                obs[c.id] = {"error": f"probe output is not JSON: {e}"}
                continue
            probe_raw[c.id] = d
            quals = {i["qual"]: i["path"] for i in d["imports"]}
            ex = []
            for m in d["mocks"]:
                for mm in m["methods"]:
                    ex += [x["type"] for x in mm["params"]] + [x["type"] for x in mm["returns"]]
            tps = [tp["name"] for itf in c.rec.get("ifaces", []) for tp in itf.get("tparams", [])]
            exprs.append({"id": c.id, "dst": c.dstpath, "imports": quals, "tparams": tps, "exprs": ex})
        else:
            files.append({"id": c.id, "path": str(p), "dst": c.dstpath})
    d = ctx.mkdir(f"drv-{label}")
    (d / "in.json").write_text(json.dumps({"files": files, "exprs": exprs}))
    p = subprocess.run([str(drv), str(d / "in.json"), str(d / "out.json")], capture_output=True, text=True, timeout=300)
    if p.returncode != 0:
        raise MachineryError("replacesig driver died: " + p.stderr[-600:])
    out = json.loads((d / "out.json").read_text())
    by_id = {c.id: c for c in cases}
    for cid, fo in out["files"].items():
        c = by_id[cid]
        if fo["error"]:
            obs[cid] = {"error": fo["error"]}
            continue
        want = {}
        for mk in c.rec["base"]["mocks"]:
            want[mk["struct"]] = [m["name"] for m in mk["methods"]]
        mocks = []
        for mk in c.rec["base"]["mocks"]:
            ms = []
            for mname in want[mk["struct"]]:
                hit = [m for m in fo["methods"] if m["recv"] == mk["struct"] and m["name"] == mname]
                if len(hit) != 1:
                    ms.append({"name": mname, "params": [{"k": "raw", "p": "", "n": f"<{len(hit)} declarations>", "a": []}],
                               "results": [], "variadic": False})
                    continue
                m = hit[0]
                ms.append({"name": mname, "params": [abstract(t, c) for t in m["params"]],
                           "results": [abstract(t, c) for t in m["results"]], "variadic": m["variadic"]})
            mocks.append({"struct": mk["struct"], "iface": mk["iface"], "methods": ms})
        imps = sorted({c.path_to_id[i["path"]] for i in fo["imports"] if i["path"] in c.path_to_id})
        obs[cid] = {"mocks": mocks, "imports": imps, "raw_imports": fo["imports"], "raw_methods": fo["methods"]}
    for cid, eo in out["exprs"].items():
        c = by_id[cid]
        if eo["error"]:
            obs[cid] = {"error": eo["error"]}
            continue
        d = probe_raw[cid]
        terms = list(eo["terms"])
        seen = {}
        for m in d["mocks"]:
            ms = {}
            for mm in m["methods"]:
                ps = [abstract(terms.pop(0), c) for _ in mm["params"]]
                rs = [abstract(terms.pop(0), c) for _ in mm["returns"]]
                ms[mm["name"]] = {"name": mm["name"], "params": ps, "results": rs,
                                  "variadic": bool(mm["params"]) and bool(mm["params"][-1]["variadic"])}
            seen[m["struct"]] = (m["iface"], ms)
        mocks = []
        for mk in c.rec["base"]["mocks"]:
            iface, ms = seen.get(mk["struct"], (None, {}))
            out_ms = []
            for m in mk["methods"]:
                out_ms.append(ms.get(m["name"], {"name": m["name"], "params": [{"k": "raw", "p": "", "n": "<missing>", "a": []}],
                                                  "results": [], "variadic": False}))
            mocks.append({"struct": mk["struct"], "iface": iface or "<missing>", "methods": out_ms})
        imps = sorted({c.path_to_id[i["path"]] for i in d["imports"] if i["path"] in c.path_to_id})
        obs[cid] = {"mocks": mocks, "imports": imps, "raw_imports": d["imports"]}
    return obs


def abstract(t, c):
    """concrete import paths -> abstract package ids of the case (unknown paths stay as they are)"""
    n = t["n"]
    if t["k"] == "named" and KINDED.match(n) and getattr(c, "kinds", None):
        n = next((a for a in ("T", "TA", "R", "RA", "H", "D") if c.cn(a) == n), n)
    pid = c.path_to_id.get(t["p"], t["p"])
    if t["k"] == "named" and n in ("K", "Box") and t["p"] == getattr(c, "srcpath", None):
        pid = "src"          # declared next to the interface (with an in-package mock the source package IS the file's own)
    return {"k": t["k"], "p": pid, "n": n, "a": [abstract(x, c) for x in t["a"]]}


def matches(o, oc):
    """observed outcome o is the contract outcome oc"""
    if o["mocks"] != oc["mocks"]:
        return "sig"
    imps = set(o["imports"])
    if not set(oc["req"]) <= imps:
        return "imports"
    if set(oc["forb"]) & imps:
        return "imports"
    return None


# ---------------------------------------------------------------------------------------------- compile oracle
def build_tree(ctx, tree, cases, idpat=r"/(k\d+)/"):
    """-> {case id: error text} for cases whose packages do not load / type-check.
    The whole module is type-checked from source in one process (drivers/replacecheck, go/packages): same verdict as
    `go build ./...` for these packages, but nothing is compiled and nothing lands in the shared Go build cache
    (a tree has thousands of throw-away packages)."""
    chk = ctx.build_driver("replacecheck")
    outp = tree / "cfg" / "typecheck.json"
    outp.parent.mkdir(exist_ok=True)
    p = subprocess.run([str(chk), str(tree), str(outp)], capture_output=True, text=True, timeout=3000, env=vlib.go_env())
    if p.returncode != 0:
        raise MachineryError("replacecheck driver failed: " + (p.stderr or p.stdout)[-800:])
    res = {}
    for path, errs in json.loads(outp.read_text()).items():
        e = "\n".join(errs)
        if "no space left on device" in e or "cannot find package" in e and "example.com" not in e:
            raise MachineryError("environment problem while type-checking: " + e[:400])
        m = re.match(re.escape(MOD) + idpat, path + "/")
        if not m:
            raise MachineryError(f"package {path} outside any case does not type-check: {e[:300]}")
        res.setdefault(m.group(1), "")
        res[m.group(1)] += f"{path}: {e}\n"
    return res



# ---------------------------------------------------------------------------------------------- native twin
TWIN_QUALS = None


def twin_type(t, c):
    """concrete term (import paths) of the observed mock -> Go type as written in the twin source package"""
    k = t["k"]
    if k == "named":
        q = {PKGS["orig"][0]: "foo.", PKGS["same"][0]: "foo2.", PKGS["alt"][0]: "bar.", PKGS["third"][0]: "legacy.", c.dstpath: ""}.get(t["p"])
        if q is None:
            raise MachineryError(f"twin: type from unexpected package {t['p']}")
        return q + t["n"]
    if k in ("basic", "raw"):
        return t["n"]
    a = t["a"]
    if k == "ptr":
        return "*" + twin_type(a[0], c)
    if k == "slice":
        return "[]" + twin_type(a[0], c)
    if k == "map":
        return "map[" + twin_type(a[0], c) + "]" + twin_type(a[1], c)
    if k == "chan":
        return "chan " + twin_type(a[0], c)
    if k == "func":
        return "func(" + twin_type(a[0], c) + ") " + twin_type(a[1], c)
    raise MachineryError("twin: cannot render " + json.dumps(t))


def twin_eligible(c):
    # one mock per interface (otherwise there is no single native interface to compare with); the twin of a mock whose
    # replacement lives in its own separate destination package would need the source to import the mocks package
    return c.templ != "probe" and c.level not in ("entry2", "entry2x", "entry2y") and not (c.target == "dstpkg" and c.place == "separate") \
        and c.pos not in GENERIC_POS


def twin_sources(c, ob):
    """the interfaces of the case written NATIVELY with the types (and parameter names) the mock was rendered with"""
    used, lines = set(), []
    for mk in c.rec["base"]["mocks"]:
        lines.append(f"type {mk['iface']} interface {{")
        for m in mk["methods"]:
            hit = [x for x in ob["raw_methods"] if x["recv"] == mk["struct"] and x["name"] == m["name"]][0]
            ps = []
            for i, (nm, t) in enumerate(zip(hit["pnames"], hit["params"])):
                ts = twin_type(t, c)
                if hit["variadic"] and i == len(hit["params"]) - 1:
                    ts = "..." + ts[2:]
                ps.append(f"{nm} {ts}")
                used |= {x for x in term_paths(t)}
            rs = [f"r{ri} " + twin_type(t, c) for ri, t in enumerate(hit["results"])]
            for t in hit["results"]:
                used |= {x for x in term_paths(t)}
            res = "" if not rs else " (" + ", ".join(rs) + ")"
            lines.append(f"\t{m['name']}({', '.join(ps)}){res}")
        lines += ["}", ""]
    imps = []
    for pid, q in (("orig", ""), ("same", "foo2 "), ("alt", ""), ("third", "")):
        if PKGS[pid][0] in used:
            imps.append(f'\t{q}"{PKGS[pid][0]}"')
    src = ["package src", ""]
    if imps:
        src += ["import ("] + imps + [")", ""]
    if c.target == "dstpkg":
        src += [c.d_decl(), ""]
    return {f"{c.id}/twin/src/src.go": "\n".join(src + lines)}


def term_paths(t):
    if t["k"] == "named":
        return {t["p"]}
    out = set()
    for x in t["a"]:
        out |= term_paths(x)
    return out


def twin_check(ctx, binp, treeB, cases, obsB, bi, timing):
    """"replace == native twin": the mock rendered under the setting must be, byte for byte, the mock mockery renders
    WITHOUT the setting for an interface whose signature is written with the replacement type directly."""
    t0 = time.time()
    files = dict(SHARED)
    for c in cases:
        files.update(twin_sources(c, obsB[c.id]))
    tree = ctx.new_world(files, module=MOD, name=f"treeT{bi}")

    def conf_of(c):
        e = c.pkg_config(False, "unused")
        e.pop("interfaces", None)
        e["config"]["dir"] = f"{c.id}/twin/src" if c.place == "inpkg" else f"{c.id}/twin/mocks"
        return e

    def one(chunk):
        i, cs = chunk
        cfgp = tree / f"mockery-t{i}.yml"
        cfgp.write_text(json.dumps({"log-level": "info", "packages": {f"{MOD}/{c.id}/twin/src": conf_of(c) for c in cs}}))
        p = subprocess.run([str(binp), "--config", str(cfgp)], cwd=tree, env=vlib.go_env(), capture_output=True, text=True,
                           timeout=600, errors="replace")
        return cs, p
    chunks = [(i, cases[i::8]) for i in range(8) if cases[i::8]]
    with cf.ThreadPoolExecutor(max_workers=8) as ex:
        results = list(ex.map(one, chunks))
    n = 0
    bad = {}
    for cs, p in results:
        if p.returncode != 0:
            raise MachineryError("twin run (no replace-type involved) failed: " + (p.stderr + p.stdout)[-800:])
        for c in cs:
            tw = tree / (f"{c.id}/twin/src" if c.place == "inpkg" else f"{c.id}/twin/mocks") / c.filename
            a = (treeB / c.file).read_text()
            b = tw.read_text().replace(f'"{MOD}/{c.id}/twin/src"', f'"{c.srcpath}"')
            n += 1
            if a != b:
                import difflib
                d = list(difflib.unified_diff(b.splitlines(), a.splitlines(), "native twin (no setting)", "with replace-type", lineterm="", n=1))
                bad[c.id] = "\n".join(d[:60])
    ctx.cov["twin_comparisons"] = ctx.cov.get("twin_comparisons", 0) + n
    timing["twin"] = round(timing.get("twin", 0) + time.time() - t0, 1)
    if not os.environ.get("VERIF_KEEP"):
        shutil.rmtree(tree, ignore_errors=True)
    return bad


# ---------------------------------------------------------------------------------------------- one batch
def process_batch(ctx, binp, drv, probe_path, cases, bi, thorough, timing):
    """Materialise, generate (without / with the setting), observe, compile, judge and trace-validate one batch of cases."""
    # ---- 3. materialise two identical trees (A: without the setting, B: with it)
    files = dict(SHARED)
    for c in cases:
        files.update(c.sources())
    t0 = time.time()
    treeA = ctx.new_world(files, module=MOD, name=f"treeA{bi}")
    treeB = ctx.new_world(files, module=MOD, name=f"treeB{bi}")
    timing["materialise"] = round(timing.get("materialise", 0) + time.time() - t0, 1)
    runs = plan_runs(cases, 8)
    t1 = time.time()
    with cf.ThreadPoolExecutor(max_workers=2) as ex:
        fa = ex.submit(run_tree, ctx, binp, treeA, runs, False, probe_path)
        fb = ex.submit(run_tree, ctx, binp, treeB, runs, True, probe_path)
        resA, doneA = fa.result()
        resB, doneB = fb.result()
    t_runs = time.time() - t1

    failed_B = {}
    skipped = [c for c in cases if resA[c.id] is None or resB[c.id] is None]
    if skipped:
        ctx.cov["unevaluated_after_failed_batches"] = ctx.cov.get("unevaluated_after_failed_batches", 0) + len(skipped)
        cases = [c for c in cases if resA[c.id] is not None and resB[c.id] is not None]
        if not cases:
            raise MachineryError("every batch failed and no single case could be evaluated")
    for c in cases:
        ra, rb = resA[c.id], resB[c.id]
        if ra.code != 0:
            raise MachineryError(f"baseline run (without replace-type) failed for case {c.id} {c.dims}: {ra.brief()}")
        if rb.code != 0:
            failed_B[c.id] = rb
    live = [c for c in cases if c.id not in failed_B]

    # ---- 4. observe, compile
    t2 = time.time()
    obsA = observe_all(ctx, drv, treeA, cases, f"A{bi}")
    obsB = observe_all(ctx, drv, treeB, live, f"B{bi}")
    with cf.ThreadPoolExecutor(max_workers=2) as ex:
        fa = ex.submit(build_tree, ctx, treeA, cases)
        fb = ex.submit(build_tree, ctx, treeB, cases)
        buildA, buildB = fa.result(), fb.result()
    t_obs = time.time() - t2
    if buildA:
        k, v = sorted(buildA.items())[0]
        raise MachineryError(f"baseline tree (without replace-type) does not compile, e.g. {k}: {v[:500]}")

    # ---- 5. verdicts
    verdict = {}      # case id -> None | kind
    n_eval = 0
    for c in cases:
        n_eval += 1
        if c.id in failed_B:
            rb = failed_B[c.id]
            kind = "panic" if rb.panicked else "run-failed"
            verdict[c.id] = kind
            ctx.violation(c.sig(kind), {"case": c.rec, "formatter": c.fmt, "run_with_setting": rb.brief(),
                                        "config": c.pkg_config(True, "probe.templ"), "why": "the run succeeds without the setting and fails with it"})
            continue
        oa = obsA[c.id]
        if "error" in oa or matches(oa, c.rec["base"]):
            raise MachineryError(f"baseline observation of case {c.id} {c.dims} is not the world's own signatures "
                                 f"(not C13's to judge): {json.dumps(oa)[:800]}")
        ob = obsB[c.id]
        if "error" in ob:
            verdict[c.id] = "unreadable"
            ctx.violation(c.sig("unreadable"), {"case": c.rec, "observed": ob, "file": c.file})
            continue
        why = [matches(ob, oc) for oc in c.rec["accept"]]
        kind = None
        if all(why):
            kind = "sig" if all(w == "sig" for w in why) else "imports"
        detail = ""
        if kind == "imports":
            sigok = [oc for oc, w in zip(c.rec["accept"], why) if w == "imports"]
            extra = set(ob["imports"]) & set(sigok[0]["forb"])
            missing = set(sigok[0]["req"]) - set(ob["imports"])
            detail = "self-import" if extra == {"dst"} and not missing else ("forbidden:" + ",".join(sorted(extra)) + " missing:" + ",".join(sorted(missing)))
        if kind:
            verdict[c.id] = kind
            ctx.violation(c.sig(kind, detail), {"case": {k: c.rec[k] for k in ("key", "to", "ifaces", "mocks")},
                                                "observed_with_setting": ob, "observed_without": oa,
                                                "accept": c.rec["accept"], "file": c.file, "formatter": c.fmt,
                                                "config": c.pkg_config(True, "probe.templ")})
        if c.templ != "probe" and c.id in buildB:
            e = buildB[c.id]
            d2 = "import-cycle" if "import cycle" in e else "other"
            verdict[c.id] = verdict.get(c.id) or "compile"
            ctx.violation(c.sig("compile", d2), {"case": {k: c.rec[k] for k in ("key", "to", "ifaces", "mocks")},
                                                 "compile_error": e[:1500], "file": c.file, "formatter": c.fmt,
                                                 "config": c.pkg_config(True, "probe.templ")})
        verdict.setdefault(c.id, None)
        # drift: code differs from the code-shaped model while the contract is satisfied
        if verdict[c.id] is None and matches(ob, c.rec["impl"]) and len(ctx.notes) < 5:
            ctx.note(f"drift: case {c.dims} is accepted by the contract but differs from the Impl model of ReplaceType.tla")
    ctx.cov["evaluations"] += n_eval

    # "replace == native twin" on everything the contract accepted so far
    tw = [c for c in cases if verdict.get(c.id) is None and twin_eligible(c)]
    if tw:
        for cid, diff in twin_check(ctx, binp, treeB, tw, obsB, bi, timing).items():
            c = next(x for x in tw if x.id == cid)
            verdict[cid] = "twin"
            ctx.violation(c.sig("twin"), {"case": {k: c.rec[k] for k in ("key", "to", "ifaces", "mocks")}, "config": c.pkg_config(True, "probe.templ"),
                                          "why": "the mock rendered under replace-type differs from the mock rendered without the setting for "
                                                 "the same interface written with the replacement type directly", "diff": diff})

    # predicted violations must reproduce (else the model's deviation is stale)
    for c in cases:
        if c.rec["predicted"] and verdict.get(c.id) is None and c.templ != "probe" and c.id not in buildB:
            ctx.note(f"drift: model predicted a violation for {c.dims} that the binary did not show")

    # ---- 6. trace validation (TLC decides acceptance with the contract operators)
    t3 = time.time()
    events, obs_index = [], {}
    by_id = {c.id: c for c in cases}

    def add_run(run, res, with_setting, obs):
        events.append({"ev": "run", "with": with_setting, "run": run.rid,
                       "files": [{"file": c.file, "template": ("file://" + probe_path) if c.templ == "probe" else c.templ,
                                  "formatter": c.fmt} for c in run.cases]})
        for e in res.trace:
            if e.get("ev") in ("Collect", "FileBegin", "Stage", "Write", "Exit"):
                events.append(e)
        for c in run.cases:
            o = obs.get(c.id)
            if not o or "error" in o:
                continue
            built = True if c.templ == "probe" else (c.id not in (buildB if with_setting else buildA))
            ev = {"ev": "obs", "with": with_setting, "file": c.file, "case": c.id, "mocks": o["mocks"], "imports": o["imports"],
                  "built": built}
            for d in SEM[:5]:
                ev[d] = getattr(c, d)
            obs_index[len(events)] = (c.id, with_setting)
            events.append(ev)

    for run, res in doneA:
        if res.code == 0:
            add_run(run, res, False, obsA)
    for run, res in doneB:
        if res.code == 0:
            add_run(run, res, True, obsB)
    # canary: the same run, but the observation claims the UNREPLACED signatures -- the trace spec must reject it
    canary = None
    for i, e in enumerate(events):
        if e["ev"] == "obs" and e["with"] and verdict.get(e["case"]) is None and by_id[e["case"]].rec["mustchange"]:
            fake = dict(e)
            fake["case"] = "canary:" + e["case"]
            fake["mocks"] = obsA[e["case"]]["mocks"]
            events.insert(i + 1, fake)
            canary = (fake["case"], True)
            break
    if canary is None and not ctx.replay and not ctx.violations and not ctx.known_hits:
        raise MachineryError("no accepted must-change observation to build the trace canary from")
    n_traces, tlc_rejected = validate(ctx, events, obs_index)
    if canary:
        if canary not in tlc_rejected:
            raise MachineryError("trace spec accepted a corrupted observation (canary): it is not load-bearing")
        tlc_rejected.discard(canary)
        n_traces -= 1
        ctx.cov["trace_canary_rejected"] = True
    ctx.cov["traces_validated_against_impl"] += n_traces
    if (thorough or os.environ.get("VERIF_SELFTEST")) and bi == 0:
        hook_corruption_selftest(ctx, events, "ReplaceTypeTrace", "ReplaceTypeTrace.cfg")
    py_rejected = {(cid, True) for cid, k in verdict.items() if k in ("sig", "imports", "compile")}    # "twin" is not the trace spec's business
    if tlc_rejected != py_rejected:
        raise MachineryError("TLC (ReplaceTypeTrace.tla) and the harness disagree on which observations the contract rejects: "
                             f"only TLC {sorted(tlc_rejected - py_rejected)[:5]}, only harness {sorted(py_rejected - tlc_rejected)[:5]}")
    t_trace = time.time() - t3
    for k, v in (("runs", t_runs), ("observe+compile", t_obs), ("trace", t_trace)):
        timing[k] = round(timing.get(k, 0) + v, 1)
    ctx.cov["mockery_runs"] = ctx.cov.get("mockery_runs", 0) + len(doneA) + len(doneB)
    if not os.environ.get("VERIF_KEEP"):
        shutil.rmtree(treeA, ignore_errors=True)
        shutil.rmtree(treeB, ignore_errors=True)
    return verdict, obsA, obsB




# ---------------------------------------------------------------------------------------------- no-leak family
LPKG = {"R": ("lk/r", "r"), "Rin": ("lk/r/inner", "inner"), "S": ("lk/s", "s")}      # abstract package -> (dir, name)
LEAK_SRC = "package %s\n\nimport \"" + MOD + "/orig/foo\"\n\ntype I interface {\n\tM(x foo.T_s, u foo.U) (foo.T_s, foo.U)\n\tZ(s string) int\n}\n"
LTO = {"T": "R_s", "U": "R2"}
LKEY = {"T": "T_s", "U": "U"}


class LeakUnit:
    """One package of one no-leak case: quacks like Case for observe_all."""
    def __init__(self, lc, p):
        self.lc, self.pkg = lc, p
        self.id = f"{lc.id}.{p}"
        self.templ, self.fmt = lc.templ, lc.fmt
        self.dir = f"lkout/{lc.id}/{LPKG[p][1]}"
        self.filename = "zz_probe.json" if lc.templ == "probe" else "zz_mocks.go"
        self.file = f"{self.dir}/{self.filename}"
        self.dstpath = f"{MOD}/{self.dir}"
        self.path_to_id = {v[0]: k for k, v in PKGS.items()}
        self.path_to_id[self.dstpath] = "dst"
        self.rec = lc.rec["pkgs"][p]
        self.kinds = "ss"

    def cn(self, n):
        return {"T": "T_s", "R": "R_s"}.get(n, n)


class LeakCase:
    def __init__(self, idx, rec, templ, fmt):
        self.id = f"L{idx}"
        self.rec = rec
        self.writes = sorted(tuple(w) for w in rec["writes"])
        self.listed = rec["listed"]
        self.templ, self.fmt = templ, ("noop" if templ == "probe" else fmt)
        self.units = [LeakUnit(self, p) for p in ("R", "Rin", "S")]

    def label(self):
        return ",".join(f"{lv}:{k}" for lv, k in self.writes)

    def rt(self, level):
        m = {LKEY[k]: {"pkg-path": PKGS["alt"][0], "type-name": LTO[k]} for lv, k in self.writes if lv == level}
        return {PKGS["orig"][0]: m} if m else None

    def config(self, with_setting, probe_path):
        conf = {"log-level": "info", "all": True, "formatter": self.fmt, "pkgname": "mk",
                "dir": f"lkout/{self.id}/{{{{.SrcPackageName}}}}",
                "filename": "zz_probe.json" if self.templ == "probe" else "zz_mocks.go"}
        if self.templ == "probe":
            conf["template"] = "file://" + probe_path
            conf["require-template-schema-exists"] = False
        else:
            conf["template"] = self.templ
        if self.templ == "matryer":
            conf["template-data"] = {"skip-ensure": True}
        if with_setting and self.rt("root"):
            conf["replace-type"] = self.rt("root")
        pk = {}
        for p in ("R", "Rin", "S"):
            if p == "Rin" and not self.listed:
                continue
            c = {}
            if p == "R":
                c["recursive"] = True
            if with_setting and self.rt(p):
                c["replace-type"] = self.rt(p)
            pk[f"{MOD}/{LPKG[p][0]}"] = {"config": c}
        conf["packages"] = pk
        return conf

    def sig(self, unit, kind, detail=""):
        return {"family": "noleak", "writes": self.label(), "listed": self.listed, "pkg": unit.pkg, "templ": self.templ,
                "fmt": self.fmt, "kind": kind, "detail": detail,
                "status": ",".join(f"{k}:{v}" for k, v in sorted(unit.rec["status"].items()))}


def process_leak(ctx, binp, drv, probe_path, lcases, thorough, timing):
    """No-leak family: every case is one mockery run over three packages (without / with the settings)."""
    t0 = time.time()
    files = dict(SHARED)
    for p, (d, name) in LPKG.items():
        files[f"{d}/{name}.go"] = LEAK_SRC % name
    trees = {False: ctx.new_world(files, module=MOD, name="leakA"), True: ctx.new_world(files, module=MOD, name="leakB")}

    def one(args):
        lc, ws = args
        tree = trees[ws]
        cfgp = tree / f"mockery-{lc.id}.yml"
        cfgp.write_text(json.dumps(lc.config(ws, probe_path), indent=1))
        tfile = tree / f"{lc.id}.trace"
        env = vlib.go_env({"VERIFHOOK_TRACE": str(tfile)})
        t = time.time()
        try:
            p = subprocess.run([str(binp), "--config", str(cfgp)], cwd=tree, env=env, capture_output=True, text=True,
                               timeout=600, errors="replace")
            code, out, err, to = p.returncode, p.stdout, p.stderr, False
        except subprocess.TimeoutExpired:
            code, out, err, to = -9, "", "timeout", True
        evs = []
        if tfile.exists():
            for ln in tfile.read_text().splitlines():
                try:
                    evs.append(json.loads(ln))
                except ValueError:
                    pass
        return lc, ws, vlib.RunResult(code, out, err, time.time() - t, to, evs)

    # the run without any setting does not depend on the write set: one baseline per (template, formatter)
    bases = {}
    for lc in lcases:
        k = (lc.templ, lc.fmt)
        if k not in bases:
            bases[k] = LeakCase(9000 + len(bases), lc.rec, lc.templ, lc.fmt)
    with cf.ThreadPoolExecutor(max_workers=8) as ex:
        results = list(ex.map(one, [(b, False) for b in bases.values()] + [(lc, True) for lc in lcases]))
    res = {(lc.id, ws): r for lc, ws, r in results}
    live = []
    for b in bases.values():
        if res[(b.id, False)].code != 0:
            raise MachineryError(f"no-leak baseline run failed for {b.templ}/{b.fmt}: {res[(b.id, False)].brief()}")
    for lc in lcases:
        rb = res[(lc.id, True)]
        if rb.code != 0:
            ctx.violation(lc.sig(lc.units[0], "panic" if rb.panicked else "run-failed"),
                          {"config": lc.config(True, "probe.templ"), "run_with_setting": rb.brief()})
        else:
            live.append(lc)
    unitsA = [u for b in bases.values() for u in b.units]
    unitsB = [u for lc in live for u in lc.units]
    obsA = observe_all(ctx, drv, trees[False], unitsA, "LA")
    obsB = observe_all(ctx, drv, trees[True], unitsB, "LB")
    with cf.ThreadPoolExecutor(max_workers=2) as ex:
        fa = ex.submit(build_tree, ctx, trees[False], unitsA, r"/lkout/(L\d+)/")
        fb = ex.submit(build_tree, ctx, trees[True], unitsB, r"/lkout/(L\d+)/")
        buildA, buildB = fa.result(), fb.result()
    if buildA:
        k, v = sorted(buildA.items())[0]
        raise MachineryError(f"no-leak baseline tree does not compile, e.g. {k}: {v[:500]}")
    rejected = set()
    for b in bases.values():
        for u in b.units:
            oa = obsA[u.id]
            if "error" in oa or matches(oa, u.rec["base"]):
                raise MachineryError(f"no-leak baseline observation of {u.id} is not the world's own signatures: {json.dumps(oa)[:600]}")
    for lc in live:
        for u in lc.units:
            ctx.cov["evaluations"] += 1
            ob = obsB[u.id]
            if "error" in ob:
                ctx.violation(lc.sig(u, "unreadable"), {"observed": ob, "file": u.file})
                continue
            why = [matches(ob, oc) for oc in u.rec["accept"]]
            kind = None
            if all(why):
                kind = "sig" if all(w == "sig" for w in why) else "imports"
            if kind is None and u.templ != "probe" and lc.id in buildB and u.dstpath in buildB[lc.id]:
                kind = "compile"
            if kind:
                rejected.add(u.id)
                leaked = [k for k, st in u.rec["status"].items() if st == "unchanged"]
                ctx.violation(lc.sig(u, kind, "must-stay-unchanged:" + ",".join(sorted(leaked))),
                              {"config": lc.config(True, "probe.templ"), "package": f"{MOD}/{LPKG[u.pkg][0]}",
                               "status_per_key": u.rec["status"], "observed_with_settings": ob,
                               "observed_without": obsA[bases[(lc.templ, lc.fmt)].id + "." + u.pkg],
                               "accept": u.rec["accept"], "compile_error": buildB.get(lc.id, "")[:800]})
    # trace
    events = []
    for lc, ws in [(b, False) for b in bases.values()] + [(lc, True) for lc in lcases]:
        if True:
            r = res[(lc.id, ws)]
            if r.code != 0:
                continue
            obs = obsB if ws else obsA
            events.append({"ev": "run", "with": ws, "run": lc.id,
                           "files": [{"file": u.file, "template": ("file://" + probe_path) if u.templ == "probe" else u.templ,
                                      "formatter": u.fmt} for u in lc.units]})
            events += [e for e in r.trace if e.get("ev") in ("Collect", "FileBegin", "Stage", "Write", "Exit")]
            for u in lc.units:
                o = obs.get(u.id)
                if not o or "error" in o:
                    continue
                built = u.templ == "probe" or not (ws and lc.id in buildB and u.dstpath in buildB[lc.id])
                events.append({"ev": "lobs", "with": ws, "file": u.file, "case": u.id, "pkg": u.pkg,
                               "writes": [list(w) for w in lc.writes], "mocks": o["mocks"], "imports": o["imports"], "built": built})
    n, tlc_rej = validate(ctx, events, {})
    tlc_rej = {cid for cid, ws in tlc_rej}
    if tlc_rej != rejected:
        raise MachineryError("TLC (ReplaceTypeTrace.tla) and the harness disagree on the no-leak observations: "
                             f"only TLC {sorted(tlc_rej - rejected)[:5]}, only harness {sorted(rejected - tlc_rej)[:5]}")
    ctx.cov["traces_validated_against_impl"] += n
    ctx.cov["noleak_cases"] = len(lcases)
    ctx.cov["noleak_packages_judged"] = len(unitsB)
    ctx.cov["noleak_must_stay_unchanged_positions"] = sum(1 for lc in live for u in lc.units for st in u.rec["status"].values() if st == "unchanged")
    ex_lc = next((lc for lc in live if ("root", "T") in lc.writes and ("R", "U") in lc.writes and lc.listed
                  and not any(u.id in rejected for u in lc.units)), None)
    if ex_lc is not None:
        ctx.sample({"family": "noleak", "writes": ex_lc.label(), "Rin_listed": ex_lc.listed, "config": ex_lc.config(True, "probe.templ"),
                    "per_package": {u.pkg: {"status": u.rec["status"],
                                            "M": [x["p"] + "." + x["n"] for x in obsB[u.id]["mocks"][0]["methods"][0]["params"]]}
                                    for u in ex_lc.units}})
    timing["noleak"] = round(time.time() - t0, 1)
    if not os.environ.get("VERIF_KEEP"):
        for t in trees.values():
            shutil.rmtree(t, ignore_errors=True)


# ---------------------------------------------------------------------------------------------- main
def run(ctx):
    thorough = ctx.thorough()
    t0 = time.time()
    # ---- 1. model checking over every case (while the binary and the driver are being built)
    with cf.ThreadPoolExecutor(max_workers=1) as ex:
        f1 = ex.submit(ctx.tlc, "ReplaceTypeMC", "ReplaceType_all.cfg" if thorough else "ReplaceType_quick.cfg", workers=6, timeout=1800, coverage=thorough)
        binp = ctx.mockery()
        drv = ctx.build_driver("replacesig")
        r1 = f1.result()
    if r1.violated == "ImplConforms":
        raise MachineryError("the code-shaped layer of ReplaceType.tla predicts a violation outside the known deviation: "
                             "inspect the model (a prediction only; the binary was not consulted):\n" + r1.tail())
    if not r1.ok:
        raise MachineryError("TLC failed on ReplaceType (contract sanity):\n" + r1.tail())
    if thorough:
        zero = r1.coverage_zero()
        if zero:
            raise MachineryError("vacuous model: actions never taken: " + "; ".join(zero[:5]))
        ctx.cov["tlc_coverage_all_actions_taken"] = True
    rows = [(tuple(x["d"]), bool(x["predicted"]), bool(x["must"])) for x in r1.prints("DIM")]
    if len(rows) < 1000 or len({r[0] for r in rows}) != len(rows):
        raise MachineryError(f"unexpected number of enumerated cases: {len(rows)}")
    od = r1.prints("OBSDIMS")
    if len(od) != 1:
        raise MachineryError("observation dimensions were not exported")
    obsdims = {k: sorted(v) for k, v in od[0].items()}
    n_pred = sum(1 for r in rows if r[1])
    unexpected_pred = [r[0] for r in rows if r[1]]
    if unexpected_pred:
        ctx.note(f"model-level: the code-shaped layer predicts {len(unexpected_pred)} violations outside the known deviation; replaying them")
    ctx.cov["model_cases"] = len(rows)
    ctx.cov["model_predicted_violations"] = n_pred
    t_model = time.time() - t0

    # ---- no-leak family: two settings at different levels, siblings / children that must stay untouched
    if not ctx.replay or json.loads(open(ctx.replay).read())["sig"].get("family") == "noleak":
        rl = ctx.tlc("ReplaceLeak", "ReplaceLeak.cfg", workers=1, timeout=600)
        if not rl.ok:
            raise MachineryError("TLC failed on ReplaceLeak:\n" + rl.tail())
        lrecs = rl.prints("LCASE")
        if len(lrecs) < 50:
            raise MachineryError(f"no-leak model exported only {len(lrecs)} cases")
        lrecs.sort(key=lambda r: (len(r["writes"]), json.dumps(r, sort_keys=True)))
        # quick: every single entry and every pair of entries written at two DIFFERENT levels; thorough: everything
        small = [r for r in lrecs if len(r["writes"]) == 1 or (len(r["writes"]) == 2 and len({w[0] for w in r["writes"]}) == 2)]
        big = [r for r in lrecs if r not in small]
        ctx.rng.shuffle(big)
        pick = small + (big if thorough else big[:4])
        if ctx.replay:
            rp = json.loads(open(ctx.replay).read())["sig"]
            pick = [r for r in lrecs if ",".join(f"{lv}:{k}" for lv, k in sorted(tuple(w) for w in r["writes"])) == rp["writes"]
                    and r["listed"] == rp["listed"]]
        lcases = []
        for i, r in enumerate(pick):
            if ctx.replay:
                t, f = rp["templ"], rp["fmt"]
            else:
                t, f = obsdims["templ"][(i + ctx.seed) % len(obsdims["templ"])], obsdims["fmt"][(i // 3 + ctx.seed) % len(obsdims["fmt"])]
            lcases.append(LeakCase(i, r, t, f))
        if not ctx.replay:
            if not any(st == "unchanged" and len(lc.writes) >= 2 for lc in lcases for u in lc.units for st in u.rec["status"].values()):
                raise MachineryError("vacuous no-leak sample: nothing has to stay unchanged")
            if not any(lc.listed and ("R", "U") in lc.writes and ("root", "T") in lc.writes for lc in lcases):
                raise MachineryError("vacuous no-leak sample: no recursive parent + listed sub-package + top-level entry")
        probe_path0 = str(ctx.scratch / "probe.templ")
        shutil.copy(PROBE_FILE, probe_path0)
        leak_timing = {}
        process_leak(ctx, binp, drv, probe_path0, lcases, thorough, leak_timing)
    else:
        leak_timing = {}
    if ctx.replay and json.loads(open(ctx.replay).read())["sig"].get("family") == "noleak":
        ctx.cov["rule"] = "replay of one no-leak case"
        return {"level": "model_checking", "exhaustive": False}

    # ---- 2. sample + full export
    if getattr(ctx, "replay", None):
        rp = json.loads(open(ctx.replay).read())
        chosen = [tuple(rp["sig"][d] for d in DIMS)]
        uncovered = 0
    else:
        n = 6000 if thorough else 220
        chosen, uncovered = select_cases(rows, obsdims, ctx.rng, n, 40 if thorough else 6)
        for d in unexpected_pred[:20]:
            chosen.append(tuple(d) + ("testify", "min", "gofmt", "ss", "none", "plain", "exp", "clean"))
    if uncovered:
        raise MachineryError(f"sampling left {uncovered} dimension-value pairs uncovered")
    sem_wanted = sorted({d[:len(SEM)] for d in chosen})
    wanted = ",\n  ".join("<<" + ", ".join(json.dumps(x) for x in d) + ">>" for d in sem_wanted)
    wmod = f"---- MODULE ReplaceTypeW ----\nEXTENDS ReplaceTypeMC\nMCWanted == {{\n  {wanted} }}\n====\n"
    t_exp = time.time()
    r2 = ctx.tlc("ReplaceTypeW", "ReplaceType_case.cfg", workers=4 if len(sem_wanted) < 1000 else 6, timeout=1800,
                 files={"ReplaceTypeW.tla": wmod}, count=False)
    t_exp = time.time() - t_exp
    if not r2.ok:
        raise MachineryError("TLC failed exporting the sampled cases:\n" + r2.tail())
    try:
        recs = {tuple(c[d] for d in SEM): c for c in r2.prints("CASE")}
    except ValueError as e:
        raise MachineryError(f"garbled case export: {e}")
    if set(recs) != set(sem_wanted):
        raise MachineryError(f"export returned {len(recs)} cases for {len(sem_wanted)} wanted")
    cases = [Case(i, recs[d[:len(SEM)]], d) for i, d in enumerate(chosen)]
    # vacuity guards on what is going to be replayed
    for di, dname in enumerate(DIMS):
        allv = {r[0][di] for r in rows} if di < len(SEM) else set(obsdims[dname])
        got = {c.dims[di] for c in cases}
        if not ctx.replay and allv != got:
            raise MachineryError(f"vacuous sample: values of {dname} never replayed: {sorted(allv - got)}")
    if not ctx.replay:
        if not any(c.rec["mustchange"] and c.level in ("root", "pkg") and c.templ != "probe" for c in cases):
            raise MachineryError("vacuous sample: no inherited (root/package level) case on a built-in template")
        if not any(len(c.rec["accept"]) > 1 for c in cases):
            raise MachineryError("vacuous sample: no case with an open (nested) occurrence")
        if not any(c.rec["accept"][0]["forb"] and "orig" in c.rec["accept"][0]["forb"] for c in cases):
            raise MachineryError("vacuous sample: no case in which the original package must disappear")

    # ---- 3..6 per batch
    probe_path = str(ctx.scratch / "probe.templ")
    shutil.copy(PROBE_FILE, probe_path)
    timing = {}
    verdict, obsA, obsB = {}, {}, {}
    bsize = 1400
    for bi in range(0, (len(cases) + bsize - 1) // bsize):
        v, oa, ob = process_batch(ctx, binp, drv, probe_path, cases[bi * bsize:(bi + 1) * bsize], bi, thorough, timing)
        verdict.update(v)
        obsA.update(oa)
        obsB.update(ob)

    # ---- evidence
    def show(t):
        if t["k"] == "named":
            return t["p"] + "." + t["n"]
        if t["k"] in ("basic", "raw"):
            return t["n"]
        return t["k"] + "(" + ", ".join(show(x) for x in t["a"]) + ")"

    def show_m(ms):
        return ["%s(%s) (%s)%s" % (m["name"], ", ".join(show(t) for t in m["params"]), ", ".join(show(t) for t in m["results"]),
                                   " variadic" if m["variadic"] else "") for m in ms]
    shown = set()
    for c in cases:
        if c.rec["mustchange"] and c.id in verdict and verdict[c.id] is None and c.id in obsB and len(ctx.cov["samples"]) < 5 and (c.templ, c.level) not in shown \
                and c.level not in {x[1] for x in shown}:
            shown.add((c.templ, c.level))
            ob = obsB[c.id]
            ctx.sample({"case": dict(zip(DIMS, c.dims)), "replace-type": c.mapping(), "config": c.pkg_config(True, "probe.templ"),
                        "without": {m["struct"]: show_m(m["methods"]) for m in obsA[c.id]["mocks"]},
                        "with": {m["struct"]: show_m(m["methods"]) for m in ob["mocks"]},
                        "imports_without": [i["path"] for i in obsA[c.id]["raw_imports"]],
                        "imports_with": [i["path"] for i in ob["raw_imports"]]})
    ctx.cov["distinct_nontrivial"] = sum(1 for c in cases if c.rec["mustchange"])
    ctx.cov["rule"] = ("one evaluation = one case replayed through the binary without and with the setting and judged; "
                      "non-trivial = the contract demands that at least one rendered position changes")
    ctx.cov["replayed_cases"] = len(cases)
    ctx.cov["replayed_by_template"] = {t: sum(1 for c in cases if c.templ == t) for t in ("testify", "matryer", "probe")}
    ctx.cov["replayed_by_level"] = {t: sum(1 for c in cases if c.level == t) for t in sorted({c.level for c in cases})}
    timing.update(leak_timing)
    timing["model"] = round(t_model, 1)
    timing["export"] = round(t_exp, 1)
    ctx.cov["timing_s"] = timing
    ctx.assumptions += [
        "the model check covers every combination of the dimensions in spec/ReplaceTypeMC.tla; quick: the binary is exercised on a seeded "
        "covering sample of them (all values of every dimension, all value pairs, selected triples); thorough: on the covering core plus a seeded "
        "sample of about 70% of the model's cases",
        "nested occurrences ([]T, *T, map[K]T, chan T, func(T) T, ...T) and the other spelling (alias/named) of the replaced type are "
        "accepted replaced or not: docs/replace-type.md and the property statement leave them open",
        "matryer mocks are generated with skip-ensure: true unless the replacement is an alias of the original type (a replaced "
        "signature does not implement the source interface); with the alias the ensure line stays on and must compile",
        "template, formatter and the listing of setting-less interfaces are observation/spelling dimensions defined in the spec's "
        "constants; they are combined with the contract's dimensions by the seeded sampler (pairwise covering), not by TLC",
    ]
    return {"level": "model_checking", "exhaustive": False}


def hook_corruption_selftest(ctx, events, module, cfg):
    """Corrupt one recorded hook field (the formatter of a format stage) and drop one hook event (a Write):
    the trace spec must stop exactly there."""
    for what in ("field", "drop"):
        evs = [dict(e) for e in events]
        if what == "field":
            i = next(i for i, e in enumerate(evs) if e.get("ev") == "Stage" and e.get("stage") == "format")
            evs[i]["formatter"] = "bogus"
            at = i
        else:
            i = next(i for i, e in enumerate(evs) if e.get("ev") == "Write")
            del evs[i]
            at = next(j for j in range(i, len(evs)) if evs[j].get("ev") in ("FileBegin", "Exit"))
        ok, r = ctx.validate_trace(module, cfg, evs, timeout=1200)
        if ok or r.consumed is None or r.consumed[0] != at:
            raise MachineryError(f"trace spec did not reject a corrupted hook trace ({what}) where expected: ok={ok} consumed={r.consumed} expected stop at {at}")
    ctx.cov["trace_hook_corruption_rejected"] = True


def validate(ctx, events, obs_index):
    """One TLC run over the concatenated trace.  Hook events must be consumed completely (else the run was not the run
    the case asked for: cannot decide); for each obs event TLC prints the contract's verdict."""
    ok, r = ctx.validate_trace("ReplaceTypeTrace", "ReplaceTypeTrace.cfg", events, timeout=1200)
    if not ok:
        if r.consumed is None:
            raise MachineryError("trace validation gave no CONSUMED line:\n" + r.tail())
        bad = r.consumed[0]
        raise MachineryError(f"hook trace rejected at event {bad} of {len(events)}: the run was not what the case configured: "
                             f"{json.dumps(events[bad])[:500]}")
    verdicts = {}
    for v in r.prints("OBSV"):
        verdicts[(v["case"], v["with"])] = v["ok"]
    want = {(e["case"], e["with"]) for e in events if e["ev"] in ("obs", "lobs")}
    if set(verdicts) != want:
        raise MachineryError(f"TLC judged {len(verdicts)} observations, {len(want)} were recorded")
    return len(verdicts), {k for k, v in verdicts.items() if not v}


if __name__ == "__main__":
    main("C13", run)
