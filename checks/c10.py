#!/usr/bin/env python3
"""C10 -- output files are written safely: no stray writes, no clobbering, all-or-nothing per file.

1. TLC checks the code-shaped model of one run (spec/Pipeline.tla: per-file loop in any order, steps template ->
   schema -> exec -> format -> mkdir -> stat -> write, FS model, at most one fault, exit status) against the
   contract (Frame, ParentsOnlyCreated, NoClobber, OldOrNew, FailedFileUntouched, WriteOnlyAfterAllStagesOk,
   ExitZeroIffAllWritten, ImplMeetsContract) over every initial state of three output paths x every effective
   force-file-write x (every single failing step of any one file | one stage failing for every file that shares its
   cause: one custom template / schema / template-data used by two or all three files) x every file order -- for the code as it is
   (returns at the first failing file) and for the refactor that goes on (thorough tier).
2. TLC exports every world with the contract's expectation (allowed final state of every designated path, exit
   class, frame).  Each selected world is materialised (scratch module, three packages -> three output files,
   one of them shared by two interfaces, force-file-write written at root / package / interface / entry level
   according to a level assignment whose effective value TLC computed, natural faults for the four stages and
   failpoints for mkdir/stat/write, unrelated files and a read-only sentinel) and run through the binary built
   from the working tree.  Tree hashes before/after are judged by the exported expectation; "new" content is
   what an unfaulted run of the same configuration produces for that path.
3. The hook trace of every run is validated by TLC against spec/PipelineTrace.tla (lib/pipetrace.py) and the complete
   event stream against the root spec/MockeryTrace.tla (lib/runtrace.py, with the files that changed on disk).

COVERAGE TABLE (statement / quantifier dimension -> explored by -> still a single point or absent)
  initial tree states      fs0 in {absent, previous generated content, user content, non-empty directory} per file, all 4^3
                           (TLA+); a file that APPEARS at the path during the run (template served through a FIFO, the
                           harness creates the user file while mockery is blocked retrieving it); existing content also reached THROUGH A SYMLINK, parent directory absent / present with
                           neighbours (concretisation)          -> absent: read-only file / directory (the harness runs as
                           root), dangling and directory symlinks, empty directory at the path, special files
  force-file-write levels  81 assignments of {unset,T,F} to root/pkg/iface/entry, effective value by TLA+; independent per
                           file (mixed values in one run); the mocks of one file agree      -> absent: mocks of one file
                           that disagree (statement: they must agree), env / flag sources (C08's)
  multi-file runs          3 files, one shared by two interfaces, one fed by two configs entries, the sharing mocks reach the
                           path by DIFFERENT SPELLINGS; formatters differ per file incl. noop; all file orders (model), the
                           order the runtime draws (replay)                                  -> absent: > 3 files with faults
  single-stage failures    4 stages x 13 natural variants + mkdir (failpoint, path component is a FILE) / stat / write
                           failpoints, any one file; ONE cause shared by 2 or 3 files x 12 variants (all replayed); one
                           file's fault while the others use the SAME custom template + schema with other per-file
                           parameters (replayed 6x: the outcome may depend on the order drawn); a missing
                           interface on top of a failing file                                -> absent: two independent
                           faults, a partial write inside os.WriteFile, ENOSPC, an http(s) template that cannot be fetched
  template source x env    spec/PipelineEnv.tla: custom template + schema from file:// or from an http:// loopback server x process
                           environment {normal, no HOME / XDG_CACHE_HOME / XDG_CONFIG_HOME at all (GOCACHE, GOMODCACHE, GOPATH
                           given), HOME inside the tree, XDG_CACHE_HOME inside the tree, TMPDIR inside the tree} x {no fault, exec
                           fault, write failpoint} x {paths absent, one occupied} x force; whatever lies below the directory the
                           environment names as home / cache / temp is left open, everything else is frame   -> absent: working
                           directory different from the config file's directory, https, proxies, unreachable server
  frame                    unrelated files, sources, unconfigured package, look-alike directory, read-only sentinel (+mode),
                           neighbours in the output directory, go.mod / go.sum / go.work(.sum) incl. untidy-but-resolvable
                           modules, run in the go command's default -mod          -> absent: anything outside the module
                           root (the real HOME, TMPDIR, GOCACHE are not hashed), vendor/
  old-or-new / complete    new = bytes a run producing ONLY that file writes (so nothing of another file can leak in); old
                           generated content is longer than new (catches non-truncating writes)  -> absent: a real second
                           run after the interface changed (history of length 2 is simulated by the "generated" state)
  path forms               relative, absolute and in-package output directories, ./x/../x spellings   -> absent: spaces /
                           unicode / very long names, several missing directory levels
  exit status              zero iff nothing failed (contract), judged on every run; missing interface worlds
"""
import http.server
import json
import os
import re
import shutil
import subprocess
import sys
import threading
import time

sys.path.insert(0, os.path.join(os.path.dirname(os.path.abspath(__file__)), "..", "lib"))
from vlib import MachineryError, main, tree_hash, write_files, REPO, GO_SUM_MOD  # noqa: E402
from vlib import sha as vsha  # noqa: E402
import pipetrace  # noqa: E402
import runtrace  # noqa: E402

MOD = "example.com/w"
FILES = ["f1", "f2", "f3"]
PKG = {"f1": "pa", "f2": "pb", "f3": "pc"}
IFACES = {"f1": ["A1", "A2"], "f2": ["B"], "f3": ["C"]}
STEPS = ["template", "schema", "exec", "format", "mkdir", "stat", "write"]

SRC = {
    "pa/src.go": 'package pa\n\nimport "io"\n\n// A1 and A2 share one output file.\ntype A1 interface {\n\tRead(r io.Reader, n int) (string, error)\n}\n\n'
                 'type A2 interface {\n\tDo(xs ...string)\n}\n\ntype NotAnInterface struct{ X int }\n',
    "pb/src.go": "package pb\n\ntype B interface {\n\tGet(key string) (val int, found bool)\n}\n",
    "pc/src.go": "package pc\n\ntype C interface {\n\tPut(key string, val []byte) error\n}\n",
}
FRAME_FILES = {
    "docs/readme.txt": "unrelated text file\n",
    "pa/notes.txt": "notes next to a source file\n",
    "pa/zz_extra.go": "package pa\n\n// Extra is a source file without interfaces.\nconst Extra = 1\n",
    "other/o.go": "package other\n\n// O is an interface of a package that is not configured.\ntype O interface{ M() }\n",
    "mocksx/decoy.go": "package mocksx\n\n// a directory whose name has the output directory as a prefix\nvar Decoy = 1\n",
    "sentinel.ro": "read-only sentinel\n",
    # module / workspace files are not designated outputs either (the harness runs with GOWORK=off)
    "go.work": "go 1.23\n\nuse .\n",
    "go.work.sum": "",
}
PROBES = os.path.join(os.path.dirname(os.path.abspath(__file__)), "..", "probes", "pipeline")
# custom templates (valid ones, and the natural faults of the exec / format / schema stages): see probes/pipeline/README.txt
TEMPLATES = {"tmpl/" + n: open(os.path.join(PROBES, n)).read() for n in sorted(os.listdir(PROBES)) if n != "README.txt"}
FAULT_VARIANTS = {
    "template": ["missing-file", "unknown-name", "schema-missing"],
    "schema": ["bad-data-pkg", "bad-data-iface", "bad-data-entry", "custom-schema", "lookalike-iface", "lookalike-entry"],
    "exec": ["badexec", "badexec2", "badparse"],
    "format": ["badfmt-gofmt", "badfmt-goimports"],
    "mkdir": ["failpoint", "parent-is-file"], "stat": ["failpoint"], "write": ["failpoint"],
}
# one cause shared by several output files (fault kind "shared"): every variant is replayed for a selected world
SHARED_VARIANTS = {
    "template": ["shared-missing-template-noop", "shared-missing-template-fmt", "shared-missing-schema", "shared-unparsable-schema",
                 "shared-unknown-name"],
    "schema": ["shared-custom-schema-violated", "shared-builtin-bad-data"],
    "exec": ["shared-badexec", "shared-badexec2", "shared-badparse"],
    "format": ["shared-badfmt-gofmt", "shared-badfmt-goimports"],
}
# conforming value at the less specific level / value of another JSON type that PRINTS the same at the more specific one
LOOKALIKE = {"bool": {"testify": ("unroll-variadic", False, "false"), "matryer": ("skip-ensure", False, "false")},
             "int": {"testify": ("mock-build-tags", "1", 1), "matryer": ("mock-build-tags", "1", 1)}}
# mockery is run the way a user runs it: the go command's default -mod=readonly (vlib's scratch default is -mod=mod, under
# which the go command itself may rewrite go.mod / go.sum and a tool doing the same on purpose could not be told apart)
USER_ENV = {"GOFLAGS": ""}
_variant_turn = {}
_mixed_turn = {}
# A fault of ONE file whose custom template + schema is also used, with OTHER per-file parameters, by the remaining files
# (require-template-schema-exists: false and conforming data there).  Whatever is kept per run for the template must not
# carry one file's parameters over to another: the outcome may depend on the order the runtime draws, so such a world is
# replayed ORDER_REPEATS times.
MIXED = {"schema": "custom-schema-shared-mixed", "template": "schema-missing-shared-mixed"}
ORDER_REPEATS = 6
_dirseq = iter(range(1, 10 ** 9))
_dirlock = threading.Lock()


class Loopback:
    """loopback HTTP server for http:// templates and schemas (the one of checks/c12.py)"""

    def __init__(self):
        self.routes = {}
        self.log = []
        lock = threading.Lock()
        outer = self

        class H(http.server.BaseHTTPRequestHandler):
            def do_GET(self):
                with lock:
                    outer.log.append(self.path)
                    body = outer.routes.get(self.path)
                if body is None:
                    self.send_response(404)
                    self.end_headers()
                    self.wfile.write(b"not found\n")
                    return
                self.send_response(200)
                self.send_header("Content-Length", str(len(body)))
                self.end_headers()
                self.wfile.write(body)

            def log_message(self, *a):
                pass

        self.srv = http.server.ThreadingHTTPServer(("127.0.0.1", 0), H)
        self.srv.daemon_threads = True
        self.port = self.srv.server_address[1]
        self.thread = threading.Thread(target=self.srv.serve_forever, daemon=True)
        self.thread.start()

    def close(self):
        self.srv.shutdown()
        self.srv.server_close()


_goenv_cache = {}


def toolchain_env():
    """what the go command mockery shells out to needs when HOME is absent or points elsewhere: the locations it would
    otherwise derive from HOME, given explicitly (the way an `env -i` CI job does)"""
    if not _goenv_cache:
        p = subprocess.run(["go", "env", "GOCACHE", "GOMODCACHE", "GOPATH"], capture_output=True, text=True, timeout=120)
        vals = p.stdout.split("\n")
        if p.returncode != 0 or len(vals) < 3 or not all(os.path.isabs(v) for v in vals[:3]):
            raise MachineryError("cannot determine GOCACHE / GOMODCACHE / GOPATH: " + p.stderr[-300:])
        _goenv_cache.update(GOCACHE=vals[0], GOMODCACHE=vals[1], GOPATH=vals[2])
    return dict(_goenv_cache)


def newdir(ctx, prefix):
    with _dirlock:
        n = next(_dirseq)
    d = ctx.scratch / f"{prefix}{n}"
    d.mkdir(parents=True)
    return d


# ------------------------------------------------------------------------------------------------ concretisation
def out_rel(layout, f):
    """designated path of file f relative to the world root"""
    return f"{PKG[f]}/mocks_gen.go" if layout == "inpkg" else f"mocks/{PKG[f]}/mocks.go"


def make_profiles(rng, n):
    """content-affecting choices; the reference ("new") content is computed once per profile"""
    out = []
    for i in range(n):
        layout = ["sep", "inpkg", "sepabs"][i % 3]
        tmpl = {f: rng.choice(["testify", "matryer", "custom", "customschema"]) for f in FILES}
        out.append({"id": i, "layout": layout, "tmpl": tmpl,
                    # formatters differ between the files of one run; noop only where the raw output is well-formed Go
                    "fmt": {f: rng.choice(["goimports", "gofmt", "noop"] if tmpl[f].startswith("custom") else ["goimports", "gofmt"]) for f in FILES},
                    "double": rng.random() < 0.5,
                    # the mocks sharing a file reach it through DIFFERENT SPELLINGS of the same path (./x/../x/ vs x/)
                    "spell": i % 2 == 1})
    # two profiles in which every file uses the custom template body: the worlds where the files SHARE one custom template
    # (MIXED) take these, so that the single-file reference content is the content such a file gets
    for layout in ("sep", "inpkg"):
        out.append({"id": len(out), "layout": layout, "tmpl": {f: "custom" for f in FILES}, "allcustom": True,
                    "fmt": {f: rng.choice(["goimports", "gofmt", "noop"]) for f in FILES}, "double": rng.random() < 0.5, "spell": False})
    return out


def choose(case, profiles, levels, rng, variant=None):
    """every random decision of the concretisation of one world (stored with the case; replay re-uses it)"""
    w = case["world"]
    prof = rng.choice(profiles)
    fault = w["fault"]
    if fault["kind"] == "stage":
        # variants of a stage's fault are taken in turn (not drawn), so that the quick sample meets every one of them
        k = _variant_turn[fault["at"]] = _variant_turn.get(fault["at"], -1) + 1
        variant = FAULT_VARIANTS[fault["at"]][k % len(FAULT_VARIANTS[fault["at"]])]
        if fault["at"] == "mkdir" and w["fs0"][fault["file"]] == "absent":
            variant = "parent-is-file"      # the natural fault wherever it is possible: an absent path below ...
            prof = rng.choice([q for q in profiles if q["layout"] != "inpkg"])      # ... a separate output directory
        elif variant == "parent-is-file":
            variant = "failpoint"
        if fault["at"] in MIXED and writable(w, fault["file"]) and _mixed_turn.get(fault["at"], 0) < 2 and not w["missing"]:
            _mixed_turn[fault["at"]] = _mixed_turn.get(fault["at"], 0) + 1
            variant = MIXED[fault["at"]]
            prof = rng.choice([q for q in profiles if q.get("allcustom")])
    if any(v == "appears" for v in w["fs0"].values()):
        prof = rng.choice([q for q in profiles if q.get("allcustom")])      # the template comes through a FIFO with the custom body
    ch = {"profile": prof["id"], "root": rng.choice(["unset", "unset", "T", "F"]),
          "listing": {}, "levels": {}, "mocks_dir_exists": rng.random() < 0.5, "missing_in": rng.choice(FILES)}
    if fault["kind"] == "shared" and variant is None:
        variant = rng.choice(SHARED_VARIANTS[fault["at"]])
    ch["variant"] = variant
    ch["lookalike"] = rng.choice(["bool", "int"])
    ch["shared_fmt"] = rng.choice(["noop", "gofmt", "goimports"])
    ch["shared_builtin"] = rng.choice(["testify", "matryer"])
    ch["shared_at_root"] = fault["kind"] == "shared" and len(fault["files"]) == len(FILES) and rng.random() < 0.5
    for f in FILES:
        listing = rng.choice(["all", "listed", "all+listed"])
        if fault["kind"] == "stage" and fault["file"] == f and variant in ("bad-data-iface", "bad-data-entry", "lookalike-iface", "lookalike-entry"):
            listing = rng.choice(["listed", "all+listed"])
        if f == "f3" and prof["double"] and listing == "all":
            listing = rng.choice(["listed", "all+listed"])      # two config entries (two mocks of C) need the interface listed
        if f == "f1" and prof.get("spell") and listing == "all":
            listing = rng.choice(["listed", "all+listed"])      # the differently spelled dir is written at interface level
        ch["listing"][f] = listing
        want = bool(w["force"][f])
        per_iface = {}
        pkgval = None
        for i in IFACES[f]:
            cands = [x["a"] for x in levels if x["a"]["root"] == ch["root"] and x["eff"] == want
                     and (listing != "all" or (x["a"]["iface"] == "unset" and x["a"]["entry"] == "unset"))
                     and (pkgval is None or x["a"]["pkg"] == pkgval)]
            if not cands:
                raise MachineryError("no level assignment with the wanted effective value (LEVELS table incomplete)")
            # prefer assignments where a less specific level disagrees with the winner
            weights = [1 + 3 * sum(1 for lv in ("root", "pkg", "iface", "entry") if a[lv] not in ("unset", "T" if want else "F"))
                       for a in cands]
            a = rng.choices(cands, weights=weights)[0]
            pkgval = a["pkg"]
            per_iface[i] = a
        ch["levels"][f] = per_iface
    # existing user / generated content that the output path reaches through a symbolic link (separate layouts only)
    ch["via_symlink"] = {f: (prof["layout"] != "inpkg" and w["fs0"][f] in ("gen", "user") and rng.random() < 0.3) for f in FILES}
    ch["bad_iface"] = rng.choice(IFACES[fault["file"]]) if fault["kind"] == "stage" else None
    return ch


def tf(v):
    return {"T": True, "F": False}[v]


def build(root, case, ch, profiles, clean=False):
    """(files to write, config dict, designated paths, failpoint spec) for one world.
    clean=True: the unfaulted reference world of the same profile (nothing at the output paths, no force)."""
    w = case["world"]
    prof = profiles[ch["profile"]]
    layout = prof["layout"]
    fault = w["fault"] if not clean else {"kind": "none"}
    A = str(root)
    conf = {"filename": "mocks.go", "packages": {}}
    if layout == "inpkg":
        conf.update({"dir": "{{.InterfaceDir}}", "filename": "mocks_gen.go", "pkgname": "{{.SrcPackageName}}"})
    elif layout == "sepabs":
        conf.update({"dir": A + "/mocks/{{.SrcPackageName}}", "pkgname": "mocks"})
    else:
        conf.update({"dir": "mocks/{{.SrcPackageName}}", "pkgname": "mocks"})
    lay = "inpkg" if layout == "inpkg" else "sep"
    if not clean and ch["root"] != "unset":
        conf["force-file-write"] = tf(ch["root"])
    files = dict(SRC)
    files.update(FRAME_FILES)
    files.update(TEMPLATES)
    if ch["mocks_dir_exists"] and lay == "sep" and not clean:
        files["mocks/keepme.txt"] = "the output directory already exists and holds an unrelated file\n"
        # hand-written neighbours of the mock files (present only where the directory exists anyway)
        for f in FILES:
            if w["fs0"][f] != "absent":
                files[f"mocks/{PKG[f]}/zz_helpers.go"] = "package mocks\n\n// hand-written helper next to the generated file\nvar Helper = 1\n"
                files[f"mocks/{PKG[f]}/mocks.go.orig"] = "a stale backup somebody left here\n"
    failspec = None
    mixed_template = None
    for f in FILES:
        pkgcfg = {}
        listing = ch["listing"][f]
        if listing != "listed":
            pkgcfg["all"] = True
        t = prof["tmpl"][f]
        faulty = fault["kind"] == "stage" and fault["file"] == f
        shared = fault["kind"] == "shared" and f in fault["files"]
        variant = ch["variant"] if (faulty or shared) else None
        if variant in ("bad-data-pkg", "bad-data-iface", "bad-data-entry", "lookalike-iface", "lookalike-entry") \
                and t in ("custom", "customschema"):
            t = "testify"       # a built-in template so that a schema is consulted
        if t in ("testify", "matryer"):
            pkgcfg["template"] = t
        elif t == "custom":
            pkgcfg.update({"template": f"file://{A}/tmpl/ok.templ", "require-template-schema-exists": False})
        else:
            pkgcfg.update({"template": f"file://{A}/tmpl/withschema.templ", "template-data": {"need": "x"}})
        if not clean and w["fs0"][f] == "appears":
            pkgcfg.update({"template": "file://" + ch["fifo"][f], "require-template-schema-exists": False})
        pkgcfg["formatter"] = prof["fmt"][f]
        icfgs = {}
        for i in IFACES[f]:
            a = ch["levels"][f][i]
            ic = {}
            if not clean and a["iface"] != "unset":
                ic.setdefault("config", {})["force-file-write"] = tf(a["iface"])
            entries = []
            if f == "f3" and prof["double"]:
                entries = [{"structname": "MockC1"}, {"structname": "MockC2"}]
            elif not clean and a["entry"] != "unset":
                entries = [{}]
            if not clean and a["entry"] != "unset":
                for e in entries:
                    e["force-file-write"] = tf(a["entry"])
            if prof.get("spell"):
                alt = {"sep": "./mocks/../mocks/{{.SrcPackageName}}/.", "sepabs": A + "/mocks/x/../{{.SrcPackageName}}//",
                       "inpkg": "{{.InterfaceDir}}/../{{.SrcPackageName}}"}[layout]
                if f == "f1" and i == IFACES[f][0]:
                    ic.setdefault("config", {})["dir"] = alt
                if f == "f3" and len(entries) == 2:
                    entries[1]["dir"] = alt
            if entries:
                ic["configs"] = entries
            icfgs[i] = ic
        if not clean:
            pv = ch["levels"][f][IFACES[f][0]]["pkg"]
            if pv != "unset":
                pkgcfg["force-file-write"] = tf(pv)
        # ---- natural faults for the four stages; failpoints for the rest
        if variant == "missing-file":
            pkgcfg.update({"template": f"file://{A}/tmpl/does-not-exist.templ", "require-template-schema-exists": False})
            pkgcfg.pop("template-data", None)
        elif variant == "unknown-name":
            pkgcfg["template"] = "nosuchtemplate"
            pkgcfg.pop("template-data", None)
            pkgcfg.pop("require-template-schema-exists", None)
        elif variant == "schema-missing":
            pkgcfg.update({"template": f"file://{A}/tmpl/noschema.templ", "require-template-schema-exists": True})
            pkgcfg.pop("template-data", None)
        elif variant == "bad-data-pkg":
            pkgcfg["template-data"] = {"bogus-key": 1}
        elif variant == "bad-data-iface":
            icfgs[ch["bad_iface"]].setdefault("config", {})["template-data"] = {"unroll-variadic": "not-a-bool"} \
                if pkgcfg.get("template") == "testify" else {"bogus-key": True}
        elif variant == "bad-data-entry":
            ic = icfgs[ch["bad_iface"]]
            if not ic.get("configs"):
                ic["configs"] = [{}]
            ic["configs"][-1]["template-data"] = {"bogus-key": "x"}
        elif variant in MIXED.values():
            tname = "withschema" if variant == "custom-schema-shared-mixed" else "noschema"
            pkgcfg.update({"template": f"file://{A}/tmpl/{tname}.templ", "template-data": {"other": 1} if tname == "withschema" else {},
                           "require-template-schema-exists": True})
            mixed_template = f"file://{A}/tmpl/{tname}.templ"
        elif variant == "custom-schema":
            pkgcfg.update({"template": f"file://{A}/tmpl/withschema.templ", "template-data": {"other": 1}})
            pkgcfg.pop("require-template-schema-exists", None)
        elif variant in ("badexec", "badexec2", "badparse"):
            pkgcfg.update({"template": f"file://{A}/tmpl/{variant}.templ", "require-template-schema-exists": False})
            pkgcfg.pop("template-data", None)
        elif variant in ("badfmt-gofmt", "badfmt-goimports"):
            pkgcfg.update({"template": f"file://{A}/tmpl/badfmt.templ", "require-template-schema-exists": False,
                           "formatter": variant.split("-")[1]})
            pkgcfg.pop("template-data", None)
        elif variant in ("lookalike-iface", "lookalike-entry"):
            # conforming value at package level, a value of another JSON type that prints the same further down
            key, good, bad = LOOKALIKE[ch["lookalike"]][pkgcfg["template"]]
            pkgcfg["template-data"] = {key: good}
            ic = icfgs[ch["bad_iface"]]
            if variant == "lookalike-iface":
                ic.setdefault("config", {})["template-data"] = {key: bad}
            else:
                if not ic.get("configs"):
                    ic["configs"] = [{}]
                ic["configs"][-1]["template-data"] = {key: bad}
        elif variant == "failpoint":
            failspec = f"{fault['at']}:{out_rel(lay, f)}"
        elif variant == "parent-is-file":
            files[f"mocks/{PKG[f]}"] = "a regular file where the output directory would have to be created\n"
        if shared:
            # ONE template / schema / template-data for every file in fault.files: identical values, written once at
            # the top level (when all files share) or repeated at package level
            sh = {"shared-missing-template-noop": {"template": f"file://{A}/tmpl/does-not-exist.templ", "require-template-schema-exists": False, "formatter": "noop"},
                  "shared-missing-template-fmt": {"template": f"file://{A}/tmpl/does-not-exist.templ", "require-template-schema-exists": False, "formatter": "gofmt"},
                  "shared-missing-schema": {"template": f"file://{A}/tmpl/noschema.templ", "require-template-schema-exists": True, "formatter": ch["shared_fmt"]},
                  "shared-unparsable-schema": {"template": f"file://{A}/tmpl/badschema.templ", "require-template-schema-exists": True, "formatter": ch["shared_fmt"]},
                  "shared-unknown-name": {"template": "nosuchtemplate", "formatter": ch["shared_fmt"]},
                  "shared-custom-schema-violated": {"template": f"file://{A}/tmpl/withschema.templ", "template-data": {"other": 1}, "formatter": ch["shared_fmt"]},
                  "shared-builtin-bad-data": {"template": ch["shared_builtin"], "template-data": {"bogus-key": 1}, "formatter": ch["shared_fmt"]},
                  "shared-badexec": {"template": f"file://{A}/tmpl/badexec.templ", "require-template-schema-exists": False, "formatter": ch["shared_fmt"]},
                  "shared-badexec2": {"template": f"file://{A}/tmpl/badexec2.templ", "require-template-schema-exists": False, "formatter": ch["shared_fmt"]},
                  "shared-badparse": {"template": f"file://{A}/tmpl/badparse.templ", "require-template-schema-exists": False, "formatter": ch["shared_fmt"]},
                  "shared-badfmt-gofmt": {"template": f"file://{A}/tmpl/badfmt.templ", "require-template-schema-exists": False, "formatter": "gofmt"},
                  "shared-badfmt-goimports": {"template": f"file://{A}/tmpl/badfmt.templ", "require-template-schema-exists": False, "formatter": "goimports"},
                  }[variant]
            for k in ("template", "template-data", "require-template-schema-exists", "formatter"):
                pkgcfg.pop(k, None)
            (conf if ch["shared_at_root"] else pkgcfg).update(sh)
        pc = {"config": pkgcfg}
        if listing != "all":
            pc["interfaces"] = icfgs
        if not clean and w["missing"] and ch["missing_in"] == f:
            pc.setdefault("interfaces", {})["NoSuchInterface"] = {}
        conf["packages"][f"{MOD}/{PKG[f]}"] = pc
    if mixed_template:       # the other files: the same template and schema URL, not required, conforming data
        for f in FILES:
            if f != fault["file"]:
                pk = conf["packages"][f"{MOD}/{PKG[f]}"]["config"]
                pk.update({"template": mixed_template, "require-template-schema-exists": False, "template-data": {"need": "x"}})
    designated = {f: out_rel(lay, f) for f in FILES}
    if fault["kind"] == "input" and fault["class"] == "untidy-module":
        # incomplete but resolvable go.mod / go.sum: nothing may rewrite them, whatever the run does otherwise
        extra, gomod, gosum = pipetrace.untidy_module(fault["feature"], PKG["f1" if fault["pos"] == "first" else "f3"],
                                                      GO_SUM_MOD, (REPO / "go.sum").read_text())
        files.update(extra)
        files["go.mod"], files["go.sum"] = gomod, gosum
    return files, conf, designated, failspec


def old_content(state, f, layout, ref):
    pkgname = PKG[f] if layout == "inpkg" else "mocks"
    if state == "gen":
        return ref[f] + "\n// generated by an earlier run (previous content of this path)\n"
    if state == "user":
        return (f"package {pkgname}\n\n// USER CONTENT at the output path of {f}: hand-written, must never be lost silently.\n"
                f"var UserMarker_{f} = 1\n")
    raise AssertionError(state)


def modes(root):
    out = {}
    for dp, dns, fns in os.walk(root):
        for n in dns + fns:
            p = os.path.join(dp, n)
            out[os.path.relpath(p, root)] = os.lstat(p).st_mode
    return out


def ancestors(rel):
    parts = rel.split("/")
    return {"/".join(parts[:k]) for k in range(1, len(parts))}


class Replayer:
    def __init__(self, ctx, profiles, levels):
        self.ctx, self.profiles, self.levels = ctx, profiles, levels
        self.refs = {}
        self.ref_reported = set()
        self.reflocks = {}
        self.reflock = threading.Lock()
        self.runs = []          # (RunResult, case id)
        self.web = None         # Loopback, started by run() when environment worlds are replayed
        self.runlock = threading.Lock()

    def reference(self, pid):
        """complete new content per file for a profile: an unfaulted run with nothing at the output paths"""
        with self.reflock:
            lock = self.reflocks.setdefault(pid, threading.Lock())
        with lock:
            if pid in self.refs:
                return self.refs[pid]
            ctx = self.ctx
            case = {"world": {"fs0": {f: "absent" for f in FILES}, "force": {f: False for f in FILES},
                              "fault": {"kind": "none"}, "missing": False}}
            ch = {"profile": pid, "root": "unset", "listing": {f: "listed" for f in FILES},
                  "levels": {f: {i: {"root": "unset", "pkg": "unset", "iface": "unset", "entry": "unset"} for i in IFACES[f]} for f in FILES},
                  "mocks_dir_exists": False, "missing_in": "f1", "variant": None, "bad_iface": None}
            # run 0: the three files together; runs 1..3: each file's package ALONE.  "Complete new content" of a path is
            # what a run that produces only that file writes: nothing another file's settings, order or leftovers can leak into.
            contents = []
            for k, only in enumerate([None] + FILES):
                d = newdir(ctx, f"ref{pid}-")
                files, conf, des, _ = build(d, case, ch, self.profiles, clean=True)
                if only is not None:
                    conf["packages"] = {k2: v for k2, v in conf["packages"].items() if k2 == f"{MOD}/{PKG[only]}"}
                self.materialise(d, files, conf)
                r = pipetrace.run(ctx, d, env=USER_ENV)
                with self.runlock:
                    self.runs.append((r, f"reference-profile-{pid}-{only or 'all'}"))
                got = {}
                for f in FILES:
                    p = d / des[f]
                    got[f] = p.read_text() if p.is_file() else None
                contents.append((r, got))
            r, got = contents[0]
            alone = {f: contents[1 + i][1][f] for i, f in enumerate(FILES)}
            # the content written for a path must be the mocks of THAT file (guards the old-or-new oracle itself)
            prof = self.profiles[pid]
            want = {"f1": ["MockA1", "MockA2"], "f2": ["MockB"], "f3": ["MockC1", "MockC2"] if prof["double"] else ["MockC"]}
            allnames = {n for v in want.values() for n in v}
            wrong = [f for g in (got, alone) for f in FILES if g[f] and
                     ({n for n in allnames if re.search(r"\btype\s+" + n + r"\b", g[f])} != set(want[f]))]
            bad_run = next((rr for rr, _ in contents if rr.panicked or rr.code != 0), None)
            if wrong and bad_run is None:
                res = {"error": {"exit": r.code, "wrong_content_for": sorted(set(wrong)), "profile": prof,
                                 "content_head": {f: (got[f] or "")[:300] for f in sorted(set(wrong))}}}
            elif bad_run is not None or any(v is None or not v.strip() for v in list(got.values()) + list(alone.values())):
                rr = bad_run or r
                res = {"error": {"exit": rr.code, "panic": rr.panicked, "missing_files": [f for f, v in got.items() if not v],
                                 "profile": prof, "output": (rr.err + rr.out)[-1500:]}}
            elif alone != got:
                differ = [f for f in FILES if alone[f] != got[f]]
                res = {"error": {"exit": r.code, "content_depends_on_the_other_files_of_the_run": differ, "profile": prof,
                                 "together": {f: got[f][:400] for f in differ}, "alone": {f: alone[f][:400] for f in differ}}}
            else:
                res = {"content": alone}
            self.refs[pid] = res
            return res

    @staticmethod
    def materialise(d, files, conf):
        (d / "go.mod").write_text(GO_SUM_MOD)
        (d / "go.sum").write_bytes((REPO / "go.sum").read_bytes())
        write_files(d, files)           # an untidy-module world overrides go.mod / go.sum here
        (d / ".mockery.yml").write_text(json.dumps(conf, indent=1))
        os.chmod(d / "sentinel.ro", 0o444)

    def replay(self, item):
        """materialise one world, run it, project, compare with the exported expectation -> list of (sig, detail)"""
        case, ch = item["case"], item["choices"]
        ctx = self.ctx
        w, exp = case["world"], case["expect"]
        prof = self.profiles[ch["profile"]]
        lay = "inpkg" if prof["layout"] == "inpkg" else "sep"
        ref = self.reference(ch["profile"])
        if "error" in ref:
            with self.runlock:
                first = ch["profile"] not in self.ref_reported
                self.ref_reported.add(ch["profile"])
            # the fault-free world with nothing at the output paths must succeed (ExpectExit = zero, all new)
            return ([({"kind": "valid-world-failed", "layout": prof["layout"]}, ref["error"])] if first else []), None
        ref = ref["content"]
        d = newdir(ctx, "w")
        appears = [f for f in FILES if w["fs0"][f] == "appears"]
        if appears:
            fd = newdir(ctx, "fifo")        # outside the world: a FIFO cannot be hashed
            ch = dict(ch, fifo={f: str(fd / f"{f}.templ") for f in appears})
            for f in appears:
                os.mkfifo(ch["fifo"][f])
        files, conf, des, failspec = build(d, case, ch, self.profiles)
        envx = item.get("envx")         # environment / template-source world of spec/PipelineEnv.tla
        run_env, run_unset, open_below = dict(USER_ENV), (), ()
        if envx:
            if envx["tsrc"] == "http":
                # every custom template (and its schema, where one exists) of this world is served by the loopback server
                pre = f"file://{d}/tmpl/"
                base = f"/{d.name}/"

                def to_http(node):
                    if isinstance(node, dict):
                        for k, v in list(node.items()):
                            if k == "template" and isinstance(v, str) and v.startswith(pre):
                                name = v[len(pre):]
                                for n in (name, name + ".schema.json"):
                                    if "tmpl/" + n in TEMPLATES:
                                        self.web.routes[base + n] = TEMPLATES["tmpl/" + n].encode()
                                node[k] = f"http://127.0.0.1:{self.web.port}{base}{name}"
                            else:
                                to_http(v)
                to_http(conf)
                if "http://" not in json.dumps(conf):
                    raise MachineryError("an http world without any http:// template")
            run_env.update(toolchain_env())
            run_unset = tuple(envx["expect"]["unset"])
            open_below = tuple(envx["expect"]["open_below"])
            for od in open_below:
                files[od + "/already-here.txt"] = "a file the user keeps in this directory\n"
                for var in envx["expect"]["point_at_envdir"]:
                    run_env[var] = str(d / od)
            if bool(open_below) != bool(envx["expect"]["point_at_envdir"]) or len(open_below) > 1:
                raise MachineryError("PipelineEnv: environment directory and the variables pointing at it disagree")
        is_open = lambda rel: any(rel == od or rel.startswith(od + "/") for od in open_below)  # noqa: E731
        links = {}
        for f in FILES:
            st = w["fs0"][f]
            if st in ("gen", "user") and ch.get("via_symlink", {}).get(f):
                files[f"linked/{f}_target.go"] = old_content(st, f, lay, ref)
                links[des[f]] = f"../../linked/{f}_target.go"
            elif st in ("gen", "user"):
                files[des[f]] = old_content(st, f, lay, ref)
            elif st == "dir":
                files[des[f] + "/keep.txt"] = "a file inside a directory that occupies the output path\n"
        self.materialise(d, files, conf)
        for rel, target in links.items():
            (d / rel).parent.mkdir(parents=True, exist_ok=True)
            os.symlink(target, d / rel)
        before, mbefore = tree_hash(d), modes(d)
        fired, stop, feeders = set(), threading.Event(), []
        for f in appears:
            # serve the template through the FIFO; the moment mockery opens it (template retrieval of THIS file, nothing
            # produced yet) put the user's file at the output path, then deliver the template
            def feed(f=f):
                while not stop.is_set():
                    try:
                        fdw = os.open(ch["fifo"][f], os.O_WRONLY | os.O_NONBLOCK)
                    except OSError:
                        time.sleep(0.003)
                        continue
                    p = d / des[f]
                    p.parent.mkdir(parents=True, exist_ok=True)
                    p.write_text(old_content("user", f, lay, ref))
                    fired.add(f)
                    os.set_blocking(fdw, True)
                    os.write(fdw, TEMPLATES["tmpl/ok.templ"].encode())
                    os.close(fdw)
                    return
            t = threading.Thread(target=feed, daemon=True)
            t.start()
            feeders.append(t)
        r = pipetrace.run(ctx, d, env=run_env, fail=failspec, unset=run_unset)
        stop.set()
        for t in feeders:
            t.join(5)
        after, mafter = tree_hash(d), modes(d)
        for f in fired:         # "old" for such a path is the content that appeared
            before[des[f]] = vsha(old_content("user", f, lay, ref).encode())
            mbefore[des[f]] = mafter.get(des[f])
            for anc in ancestors(des[f]):
                if anc not in before and anc in after:
                    before[anc], mbefore[anc] = "DIR", mafter.get(anc)
        # files whose content differs afterwards, spelled the way the hooks spell output paths (relative to the working
        # directory in the "sep" layout, absolute otherwise): input of the run-level clause only-written-files-changed
        link_targets = {f"linked/{f}_target.go" for f in FILES if links.get(des[f])}
        # (a forced overwrite written through a symbolic link changes the link's target: which of the two a tool writes is
        #  left open by the statement, so the target is not reported to the run-level clause; the tree judgement below
        #  still demands that it holds either its old or the complete new content)
        r.changed = [rel if prof["layout"] == "sep" else str(d / rel)
                     for rel in sorted(set(before) | set(after))
                     if before.get(rel) != after.get(rel) and before.get(rel) != "DIR" and after.get(rel) != "DIR"
                     and rel not in link_targets and not is_open(rel)]
        with self.runlock:
            self.runs.append((r, item["id"]))
        out = []
        fault = w["fault"]
        base_sig = {"stage": fault["at"] if fault["kind"] in ("stage", "shared") else "none", "variant": ch["variant"] or "none",
                    "layout": prof["layout"]}
        if envx:
            base_sig.update(env=envx["env"], tsrc=envx["tsrc"])
        detail = {"case": case, "envx": envx, "choices": ch, "profile": prof, "config": conf, "failpoint": failspec,
                  "run": r.brief(), "designated": des}
        if r.timed_out:
            raise MachineryError(f"mockery timed out on case {item['id']}")
        if r.panicked:
            out.append((dict(base_sig, kind="panic"), detail))
        # ---- exit class
        got_exit = "zero" if r.code == 0 else "nonzero"
        if exp["exit"] != "any" and got_exit != exp["exit"]:
            out.append((dict(base_sig, kind="exit-status", expected=exp["exit"], got=got_exit,
                             missing_iface=bool(w["missing"])), detail))
        # ---- designated paths: old / new / other
        outcome = {}
        allowed_anc = set()
        for f in FILES:
            rel = des[f]
            allowed_anc |= ancestors(rel)
            b, a = before.get(rel), after.get(rel)
            if b == a and (b != "DIR" or all(after.get(k) == v for k, v in before.items() if k.startswith(rel + "/"))):
                o = "old"
            elif a is not None and a != "DIR" and (d / rel).read_text(errors="replace") == ref[f]:
                o = "new"
            else:
                o = "other"
            outcome[f] = o
            if o == "old" and links.get(rel) and not os.path.islink(d / rel) and "new" not in exp["final"][f]:
                o = "other"     # the link itself was replaced although the path had to be left alone
            if o not in exp["final"][f]:
                role = "faulted-file" if f in fault.get("files", ()) else "other-file"
                got_txt = (d / rel).read_text(errors="replace")[:400] if (d / rel).is_file() else str(a)
                out.append((dict(base_sig, kind="final-state", outcome=o, allowed="|".join(sorted(exp["final"][f])),
                                 init=w["fs0"][f], force=bool(w["force"][f]), role=role),
                            dict(detail, file=f, path=rel, before=b, after=a, content_head=got_txt, outcomes=outcome)))
        # ---- frame: everything else identical; ancestors of designated paths may be created
        desset = set(des.values())
        for rel in sorted(set(before) | set(after)):
            if rel in desset:
                continue
            b, a = before.get(rel), after.get(rel)
            if is_open(rel) and (rel not in open_below or a == "DIR"):
                continue        # below the home / cache / temp directory the environment names: left open ("either")
            if b == a:
                if mbefore.get(rel) != mafter.get(rel):
                    out.append((dict(base_sig, kind="frame", what="mode-changed"), dict(detail, path=rel)))
                continue
            if rel in allowed_anc:
                if b is None and a == "DIR":
                    if "created" in exp["parents"]:
                        continue
                out.append((dict(base_sig, kind="frame", what="parent-directory-replaced"), dict(detail, path=rel, before=b, after=a)))
                continue
            what = "created" if b is None else "deleted" if a is None else "modified"
            lf = next((f for f in FILES if links.get(des[f]) and rel == f"linked/{f}_target.go"), None)
            if lf and outcome[lf] == "new" and (d / rel).is_file() and (d / rel).read_text(errors="replace") == ref[lf]:
                continue        # forced overwrite written THROUGH the link: the statement does not say link or target
            if rel in pipetrace.MODULE_FILES:
                out.append((dict(base_sig, kind="frame", what=what, cls="module-file", path=rel, untidy=fault.get("feature", "-")),
                            dict(detail, path=rel, before=b, after=a)))
                continue
            out.append((dict(base_sig, kind="frame", what=what, cls=("source" if rel.endswith(".go") else "dir" if a == "DIR" or b == "DIR" else "file")),
                        dict(detail, path=rel, before=b, after=a)))
        if not out and not os.environ.get("VERIF_KEEP"):
            shutil.rmtree(d, ignore_errors=True)       # thousands of worlds in the thorough tier
        if envx and envx["tsrc"] == "http" and not any(p.startswith(f"/{d.name}/") for p in list(self.web.log)) \
                and r.code == 0:       # (a run that fails before it retrieves anything never asks; a successful one must have)
            raise MachineryError(f"http world {item['id']}: the loopback server was never asked for its template")
        summary = {"id": item["id"], "env": envx["env"] if envx else "-", "tsrc": envx["tsrc"] if envx else "-", "fs0": w["fs0"], "force": w["force"], "fault": {k: fault[k] for k in ("kind", "file", "files", "at", "class", "feature")},
                   "variant": ch["variant"], "layout": prof["layout"], "exit": r.code, "expected": exp["exit"],
                   "outcome": outcome, "allowed": exp["final"], "fired": sorted(fired)}
        return out, summary


# ------------------------------------------------------------------------------------------------ selection of worlds
def writable(w, f):
    return w["fs0"][f] == "absent" or (w["fs0"][f] in ("gen", "user") and w["force"][f])


def cls(w, f):
    st = w["fs0"][f]
    return st if st in ("absent", "dir") else ("replaceable" if w["force"][f] else "blocked")


def stratum(case):
    w = case["world"]
    fl = w["fault"]
    if any(v == "appears" for v in w["fs0"].values()):
        return ("appears", sum(1 for v in w["fs0"].values() if v == "appears"), w["force"]["f1"])
    if fl["kind"] == "input":
        return ("input", fl["class"], fl["feature"], fl["pos"], any(w["fs0"][f] != "absent" for f in FILES))
    if fl["kind"] == "shared":
        # how many of the files that share the cause could be clobbered by a run that mishandles the later ones
        nw = sum(1 for f in fl["files"] if writable(w, f))
        wr = "all" if nw == len(fl["files"]) else "some" if nw else "none"
        return ("shared", fl["at"], len(fl["files"]), wr, wr == "all" and any(w["fs0"][f] != "absent" for f in fl["files"]))
    if fl["kind"] == "stage":
        f = fl["file"]
        return ("stage", fl["at"], w["fs0"][f], w["force"][f]) + (("with-missing-interface",) if w["missing"] else ())
    if w["missing"]:
        return ("missing-interface", any(w["fs0"][f] != "absent" and not w["force"][f] for f in FILES))
    return ("none", tuple(sorted(cls(w, f) for f in FILES)))


def select(cases, n, rng, shared_fill):
    """one world per stratum, then a random fill up to n (quick: the fill leaves shared-cause worlds to the strata, because
    each of those is replayed once per variant)"""
    by = {}
    for i, c in enumerate(cases):
        by.setdefault(stratum(c), []).append(i)
    picked = set()
    for k in sorted(by, key=repr):
        picked.add(rng.choice(by[k]))
    strata_picks = set(picked)
    rest = [i for i in range(len(cases)) if i not in picked and (shared_fill or cases[i]["world"]["fault"]["kind"] != "shared")]
    rng.shuffle(rest)
    for i in rest:
        if len(picked) >= n:
            break
        picked.add(i)
    return sorted(picked), strata_picks


def vacuity(cases):
    def some(p):
        return any(p(c["world"], c["expect"]) for c in cases)
    need = {
        "a failing stage": lambda w, e: w["fault"]["kind"] == "stage" and w["fault"]["at"] in ("template", "schema", "exec", "format"),
        "a failpoint": lambda w, e: w["fault"]["kind"] == "stage" and w["fault"]["at"] in ("mkdir", "stat", "write"),
        "an existing file that must survive": lambda w, e: any(w["fs0"][f] in ("gen", "user") and not w["force"][f] for f in FILES),
        "an existing file that must be replaced": lambda w, e: any(w["fs0"][f] in ("gen", "user") and e["final"][f] == ["new"] for f in FILES),
        "a directory at an output path": lambda w, e: any(w["fs0"][f] == "dir" for f in FILES),
        "either-old-or-new": lambda w, e: any(sorted(e["final"][f]) == ["new", "old"] for f in FILES),
        "zero exit expected": lambda w, e: e["exit"] == "zero",
        "a missing interface": lambda w, e: w["missing"],
        "a file that appears during the run": lambda w, e: any(v == "appears" for v in w["fs0"].values()),
        "an untidy module": lambda w, e: w["fault"]["kind"] == "input" and w["fault"]["class"] == "untidy-module" and e["exit"] == "any",
        "a cause shared by all files": lambda w, e: w["fault"]["kind"] == "shared" and len(w["fault"]["files"]) == 3,
        "a cause shared by two files with the third writable": lambda w, e: w["fault"]["kind"] == "shared" and len(w["fault"]["files"]) == 2
        and any(sorted(e["final"][f]) == ["new", "old"] for f in FILES),
    }
    bad = [k for k, p in need.items() if not some(p)]
    if bad:
        raise MachineryError("vacuous case export, never: " + ", ".join(bad))


WITNESS_CFG = """SPECIFICATION Spec
CONSTANTS
  Files <- MCFiles
  Worlds <- C10WorldsMCQuick
  StopAtFailure = %s
VIEW view
INVARIANT %s
CHECK_DEADLOCK FALSE
"""


def run(ctx):
    thorough = ctx.thorough()
    tier = "thorough" if thorough else "quick"
    res = {}

    def bg(name, *a, **kw):
        def go():
            try:
                res[name] = ctx.tlc(*a, **kw)
            except BaseException as e:  # noqa: BLE001 - re-raised in the main thread
                res[name] = e
        t = threading.Thread(target=go, daemon=True)
        t.start()
        time.sleep(0.15)
        return t

    def joined(t, name):
        t.join()
        r = res[name]
        if isinstance(r, BaseException):
            raise r
        return r

    # ------------------------------------------------------------ 1. TLC: case export + model check (in background)
    t_cases = bg("cases", "PipelineMC", f"Pipeline_c10_cases_{tier}.cfg", workers=1, timeout=900, count=False)
    t_mc = bg("mc", "PipelineMC", f"Pipeline_c10_mc_{tier}.cfg", workers=6 if thorough else 4, timeout=2400, count=False,
              coverage=thorough)
    t_lv = bg("levels", "PipelineLevels", "Pipeline_levels.cfg", workers=1, timeout=300, count=False)
    t_env = bg("env", "PipelineEnv", "PipelineEnv_cases.cfg", workers=1, timeout=300, count=False)
    phase = {}
    tp = time.time()
    ctx.mockery()
    phase["build"] = round(time.time() - tp, 1)
    r_lv = joined(t_lv, "levels")
    if not r_lv.ok:
        raise MachineryError("TLC failed on the LEVELS export:\n" + r_lv.tail())
    levels = r_lv.prints("LEVELS")
    if len(levels) != 81:
        raise MachineryError(f"expected 81 level assignments, got {len(levels)}")
    if next(x["eff"] for x in levels if all(v == "unset" for v in x["a"].values())) is not False:
        raise MachineryError("contract: force-file-write unset at every level must default to false")
    r_cases = joined(t_cases, "cases")
    if not r_cases.ok:
        raise MachineryError("TLC failed on the case export:\n" + r_cases.tail())
    tp = time.time()
    cases = r_cases.prints("CASE")
    phase["wait_and_parse_cases"] = round(time.time() - tp, 1)
    if len(cases) < 22000:
        raise MachineryError(f"only {len(cases)} worlds exported")
    vacuity(cases)

    # ------------------------------------------------------------ 2. replay through the real binary
    rng = ctx.rng
    profiles = make_profiles(rng, 18 if thorough else 6)
    rp = Replayer(ctx, profiles, levels)
    if getattr(ctx, "replay", None):
        det = json.loads(open(ctx.replay).read())["detail"]
        rp.profiles = profiles = [det["profile"]] * (det["profile"]["id"] + 1)
        items = [{"id": "replay", "case": det["case"], "choices": det["choices"]}]
    else:
        n = int(os.environ.get("VERIF_C10_N") or (3600 if thorough else 230))      # VERIF_C10_N: development knob
        idx, strata_picks = select(cases, n, rng, shared_fill=thorough)
        items = []
        for i in idx:
            fl = cases[i]["world"]["fault"]
            if fl["kind"] == "shared" and i in strata_picks:      # every variant of the shared cause
                for v in SHARED_VARIANTS[fl["at"]]:
                    items.append({"id": f"{i}/{v}", "case": cases[i], "choices": choose(cases[i], profiles, levels, rng, variant=v)})
            else:
                chz = choose(cases[i], profiles, levels, rng)
                for k in range(ORDER_REPEATS if chz["variant"] in MIXED.values() else 1):
                    items.append({"id": i if k == 0 else f"{i}#{k}", "case": cases[i], "choices": chz})
    # environment x template-source worlds (spec/PipelineEnv.tla): expectation exported by TLC like the others
    r_env = joined(t_env, "env")
    if not r_env.ok:
        raise MachineryError("TLC failed on the environment-world export:\n" + r_env.tail())
    ecases = r_env.prints("ENVCASE")
    eclasses = sorted({(e["env"], e["tsrc"]) for e in ecases})
    if len(eclasses) < 10 or not any(e["env"] == "no-home" and e["tsrc"] == "http" and not e["expect"]["open_below"] for e in ecases) \
            or not any(e["expect"]["open_below"] for e in ecases) or any(e["expect"]["others"] != ["same"] for e in ecases):
        raise MachineryError(f"vacuous environment-world export: {eclasses}")
    n_env = 0
    if not getattr(ctx, "replay", None):
        rp.web = Loopback()
        custom_profiles = [q if q.get("allcustom") else None for q in profiles]
        by_cls = {}
        for k, e in enumerate(ecases):
            by_cls.setdefault((e["env"], e["tsrc"]), []).append(k)
        pick = []
        for key in sorted(by_cls):
            ks = by_cls[key]
            # quick: per (environment, source) class the fault-free world with nothing at the paths + two drawn ones
            plain = [k for k in ks if ecases[k]["world"]["fault"]["kind"] == "none" and all(v == "absent" for v in ecases[k]["world"]["fs0"].values())]
            pick += ks if thorough else sorted(set(plain[:1] + rng.sample(ks, 2)))
        for k in pick:
            e = ecases[k]
            ecase = {"world": e["world"], "expect": e["expect"]}
            chz = choose(ecase, [q for q in profiles if q.get("allcustom")], levels, rng)
            items.append({"id": f"env{k}", "case": ecase, "choices": chz,
                          "envx": {"env": e["env"], "tsrc": e["tsrc"], "expect": e["expect"]}})
            n_env += 1
    elif det.get("envx"):
        rp.web = Loopback()
        items[0]["envx"] = det["envx"]
    ctx.cov["environment_worlds_replayed"] = n_env
    ctx.cov["environment_classes"] = [f"{a}/{b}" for a, b in eclasses]
    t0 = time.time()
    results = pipetrace.pmap(rp.replay, items, workers=12 if thorough else 10)
    if rp.web:
        ctx.cov["http_template_requests_served"] = len(rp.web.log)
        if n_env and not rp.web.log:
            raise MachineryError("vacuous: no http:// template was ever requested from the loopback server")
        rp.web.close()
    replay_wall = time.time() - t0
    nviol = 0
    summaries = []
    for viols, summary in results:
        if summary:
            summaries.append(summary)
        for sig, detail in viols:
            if ctx.violation(sig, detail):
                nviol += 1
    ctx.cov["evaluations"] += len(items)
    # measured coverage of the replayed worlds
    stats = {"failed_stage": 0, "failpoint": 0, "blocked_by_existing": 0, "overwritten_with_force": 0, "dir_at_path": 0,
             "written_before_failure_elsewhere": 0, "not_reached_after_failure": 0, "zero_exit": 0, "shared_cause": 0, "untidy_module": 0, "appeared_during_run": 0,
             "shared_cause_all_writable": 0}
    for s in summaries:
        fl = s["fault"]
        if fl["kind"] in ("stage", "shared"):
            stats["failed_stage" if fl["at"] in STEPS[:4] else "failpoint"] += 1
        stats["appeared_during_run"] += len(s.get("fired", []))
        if fl["kind"] == "input":
            stats["untidy_module"] += 1
        if fl["kind"] == "shared":
            stats["shared_cause"] += 1
            stats["shared_cause_all_writable"] += all(writable(s, f) for f in fl["files"])
        stats["zero_exit"] += s["exit"] == 0
        for f in FILES:
            if s["fs0"][f] in ("gen", "user") and not s["force"][f]:
                stats["blocked_by_existing"] += 1
            if s["fs0"][f] in ("gen", "user") and s["outcome"][f] == "new":
                stats["overwritten_with_force"] += 1
            if s["fs0"][f] == "dir":
                stats["dir_at_path"] += 1
            if sorted(s["allowed"][f]) == ["new", "old"]:
                stats["written_before_failure_elsewhere" if s["outcome"][f] == "new" else "not_reached_after_failure"] += 1
    if not getattr(ctx, "replay", None) and not ctx.violations:
        either = ("written_before_failure_elsewhere", "not_reached_after_failure")   # which one depends on stop/continue
        zero = [k for k, v in stats.items() if v == 0 and k not in either]
        if sum(stats[k] for k in either) == 0:
            zero.append("a writable file in a run where another file failed")
        if zero:
            raise MachineryError("vacuous replay, never observed: " + ", ".join(zero))
    for s in summaries[:2] + [s for s in summaries if s["fault"]["kind"] == "stage"][:2] + \
            [s for s in summaries if s["fault"]["kind"] == "shared"][:1] + \
            [s for s in summaries if any(v == "new" and s["fs0"][f] != "absent" for f, v in s["outcome"].items())][:1]:
        ctx.sample(s)

    # ------------------------------------------------------------ 3. code -> spec: every hook trace through PipelineTrace
    runs = [r for r, _ in rp.runs]
    labels = [lab for _, lab in rp.runs]
    tp = time.time()
    rej = pipetrace.validate_runs(ctx, runs)
    phase["trace_validation"] = round(time.time() - tp, 1)
    badidx = {x["index"] for x in rej}
    good = next((r for k, r in enumerate(runs) if k not in badidx and r.code == 0 and any(e.get("ev") == "Write" for e in r.trace)), None)
    if good is None:
        if not ctx.violations and not rej:
            raise MachineryError("no successful run to self-test the trace specification with")
    else:
        ctx.cov["trace_selftest_rejections"] = pipetrace.selftest(ctx, good)
    ctx.cov["traces_validated_against_impl"] += rej.validated
    ctx.cov["trace_events_states"] = rej.tlc_states
    for x in rej:
        ev = x["event"]
        ctx.violation({"kind": "trace-rejected", "why": x["why"][0], "ev": ev["ev"]},
                      {"case": labels[x["index"]], "why": x["why"], "event": ev, "at": x["at"], "projected_trace": x["events"]})
    # the root run-level trace specification (spec/MockeryTrace.tla) over the complete event stream of the same runs
    tp = time.time()
    rsel = list(range(len(runs))) if thorough or len(runs) <= 400 else sorted(rng.sample(range(len(runs)), 400))
    rrej = runtrace.validate_runs(ctx, [runs[k] for k in rsel])
    phase["run_trace_validation"] = round(time.time() - tp, 1)
    own, other = runtrace.mine(rrej, "C10")
    for x in own:
        ctx.violation({"kind": "run-trace-rejected", "why": x["why"][0]},
                      {"case": labels[rsel[x["index"]]], "why": x["why"], "at": x["at"], "event": x["event"], "events": x["events"]})
    for x in other:
        ctx.note(f"run-trace clause of {x['props']} rejected a run: {x['why']}")
    for dn in rrej.drift[:5]:
        ctx.note("drift: " + ", ".join(dn["why"]))
    ctx.cov["traces_validated_against_impl"] += rrej.validated
    ctx.cov["run_traces_validated"] = rrej.validated
    ctx.cov["run_trace_events_states"] = rrej.tlc_states
    if rej.drift:
        kinds = sorted({wname for dnote in rej.drift for wname in dnote["why"]})
        ctx.note(f"drift: {len(rej.drift)} run(s) accepted by the contract but not shaped like Pipeline.tla's code layer: {kinds}")

    # ------------------------------------------------------------ 4. model-check verdict (Impl => Contract)
    tp = time.time()
    r_mc = joined(t_mc, "mc")
    phase["wait_model_check"] = round(time.time() - tp, 1)
    ctx.cov["phase_wall_s"] = phase
    if not r_mc.ok:
        raise MachineryError(f"TLC: code-shaped model vs contract failed on {r_mc.cfg} ({r_mc.violated}):\n" + r_mc.tail())
    ctx.cov["states"] += r_mc.distinct + r_cases.distinct
    ctx.cov["transitions"] += r_mc.generated + r_cases.generated
    ctx.cov["tlc_wall_s"] = {"cases": round(r_cases.wall, 1), "model_check": round(r_mc.wall, 1)}
    if thorough:
        z = pipetrace.final_coverage_zero(r_mc)
        if z:
            raise MachineryError("actions of Pipeline.tla never taken: " + "; ".join(z[:5]))
        r2 = ctx.tlc_ok("PipelineMC", "Pipeline_c10_mc_continue.cfg", workers=6, timeout=2400)   # the refactor that goes on
        ctx.cov["continue_after_failure_variant_states"] = r2.distinct
        for stop, inv in (("TRUE", "NeverAFailedStage"), ("TRUE", "NeverAnExistingFileOverwritten"),
                          ("TRUE", "NeverBlockedByExistingFile"), ("FALSE", "NeverWriteAfterFailure")):
            rw = ctx.tlc("PipelineMC", "Pipeline_wit.cfg", workers=4, timeout=900, count=False,
                         files={"cfg/Pipeline_wit.cfg": WITNESS_CFG % (stop, inv)})
            if rw.violated != inv:
                raise MachineryError(f"vacuity witness {inv} was not violated: the model never gets there\n" + rw.tail())
    ctx.cov["distinct_nontrivial"] = sum(1 for s in summaries if s["fault"]["kind"] != "none" or any(v != "absent" for v in s["fs0"].values()))
    ctx.cov["rule"] = ("worlds = initial state of 3 output paths x effective force-file-write x (no fault | one failing step of one "
                       "file | one stage failing for 2 or 3 files that share its cause, every variant of the cause) x missing interface; non-trivial = a fault or an occupied output path; quick replays a seeded "
                       "stratified sample (one per (step, state, force) stratum at least), thorough a larger one")
    ctx.cov["worlds_exported"] = len(cases)
    ctx.cov["replayed"] = stats
    ctx.cov["replay_wall_s"] = round(replay_wall, 1)
    ctx.cov["reference_profiles"] = len(rp.refs)
    ctx.assumptions += [
        "TLC is exhaustive over 3 output files, 4 initial path states, 7 failing steps, all file orders (small scope)",
        "only single faults; partial writes inside os.WriteFile itself cannot be injected (the write failpoint sits before it)",
        "Go map order cannot be forced: which files precede the failing one is whatever the runtime drew; the contract accepts both",
        "complete new content = bytes an unfaulted run of the same configuration wrote for that path (checked deterministic over 2 runs)",
        "mockery is run with the go command's default -mod (GOFLAGS empty, GOWORK=off), as a user would; go.mod, go.sum, go.work and "
        "go.work.sum are part of the frame; vendor/ is not exercised (a vendor directory switches the go command to -mod=vendor)",
        "untidy-but-resolvable module (replace without require, missing go.sum line for a cached module): exit status left open, frame not",
    ]
    return {"level": "model_checking", "exhaustive": False}


def run_guarded(ctx):
    """an I/O problem of the harness itself (disk full, ...) is 'could not decide' (exit 2), never exit 1"""
    try:
        return run(ctx)
    except OSError as e:
        raise MachineryError(f"harness I/O error: {e!r}")


if __name__ == "__main__":
    main("C10", run_guarded)
