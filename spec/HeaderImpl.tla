----------------------------- MODULE HeaderImpl -----------------------------
(***************************************************************************)
(* C17, code-shaped layer as pure operators (no variables): what the       *)
(* header block of the built-in templates emits for one header             *)
(* configuration, and what the formatter makes of it.  Header.tla runs     *)
(* these section by section as actions; HeaderHist.tla uses them in        *)
(* histories of runs over the same output file.                            *)
(***************************************************************************)
EXTENDS HeaderContract

\* comment-only boilerplate texts, as line classes (the harness writes matching bytes).
\* The second group are texts a doc-comment reformatter (gofmt on a comment that is attached to a declaration)
\* would rewrite: indented lines, list markers, numbered lists, headings, trailing blanks, " * " gutters.
BigN == 24        \* > RunCap: "many"
LCs(n) == [i \in 1..n |-> L("lc")]
BoilerLines(s) ==
  CASE s = "none"   -> << >>
    [] s = "empty"  -> <<L("blank")>>                           \* an empty file still starts a new line
    [] s = "line1"  -> <<L("lc")>>
    [] s = "line3"  -> LCs(3)
    [] s = "groups" -> <<L("lc"), L("lc"), L("blank"), L("lc")>>   \* two comment groups
    [] s = "block1" -> <<L("bone")>>
    [] s = "blockN" -> <<L("bopen"), L("bmid"), L("bmid"), L("bclose")>>
    [] s = "mixed"  -> <<L("bopen"), L("bclose"), L("lc")>>
    [] s = "lead"   -> <<L("blank"), L("blank"), L("lc"), L("lc")>>   \* the file starts with two empty lines
    [] s = "apache"    -> LCs(13)      \* the standard Apache-2.0 source header (indented URL line)
    [] s = "bsdlist"   -> LCs(5)       \* BSD-style header with a " * " list
    [] s = "numbered"  -> LCs(4)       \* numbered list
    [] s = "heading"   -> LCs(4)       \* "// # Title" heading
    [] s = "indented"  -> LCs(5)       \* tab- and space-indented lines inside // comments
    [] s = "dashlist"  -> LCs(4)       \* "- " list items
    \* size classes (concretised just above 4 KiB / 64 KiB / 1 MiB): "many" lines, see HeaderContract!CapRuns
    [] s = "manylines" -> LCs(BigN)
    [] s = "manyblock" -> <<L("bopen")>> \o [i \in 1..BigN |-> L("bmid")] \o <<L("bclose")>>
    \* text/template metacharacters: the boilerplate is data, never template source
    [] s = "tmplline"  -> LCs(2)       \* // lines with {{.PkgName}}, {{year}}, backquotes
    [] s = "tmplnote"  -> LCs(2)       \* {{/* */}}, {{- -}}, unbalanced {{ and }}
    [] s = "tmplblock" -> <<L("bopen"), L("bmid"), L("bmid"), L("bclose")>>   \* the same inside /* */
    [] s = "crlf"      -> LCs(2)       \* CRLF line endings
    [] s = "bom"       -> LCs(2)       \* the file starts with a UTF-8 byte order mark
    [] s = "trailsp"   -> LCs(2)       \* lines ending in blanks / a tab
    \* block comments a "where does the header end" heuristic stumbles over
    [] s = "k8sblock"   -> <<L("bopen"), L("bmid"), L("bmid"), L("bmid"), L("bmid"), L("bclose")>>   \* inner blank line (kubernetes-style)
    [] s = "blockslash" -> <<L("bopen"), L("bmid"), L("bmid"), L("bclose")>>                       \* inner lines that look like // comments
    [] s = "blockbuild" -> <<L("bopen"), L("bmid"), L("bmid"), L("bmid"), L("bmid"), L("bclose")>>   \* inner //go:build and // +build look-alikes
    [] s = "blocks2"    -> <<L("bone"), L("blank"), L("bopen"), L("bmid"), L("bclose")>>            \* two block comments, blank line between
    \* texts that interact with the generated-code marker rule
    [] s = "dneline"     -> LCs(2)                           \* // text that merely mentions DO NOT EDIT / Code generated
    [] s = "dneblock"    -> <<L("bopen"), L("bmid"), L("bmid"), L("bclose")>>   \* the same inside /* */
    [] s = "othermarker" -> <<L("marker"), L("lc")>>          \* a full conforming marker line of another tool
    [] s = "nearmiss"    -> LCs(2)                           \* marker without the final period / in lower case
    \* characters that are legal inside a Go comment but that a "printable text" filter drops or rewrites; always in the
    \* MIDDLE of a line (at the end of a line they fall under the trailing-blanks class)
    [] s = "zs"       -> LCs(2)       \* non-ASCII spaces (Zs): U+00A0, U+202F, U+3000, U+2003
    [] s = "zlzp"     -> LCs(2)       \* U+2028 / U+2029 (Zl, Zp): not line ends for Go
    [] s = "cf"       -> LCs(2)       \* format characters (Cf): U+200C, U+200D, soft hyphen, U+2060, U+200E
    [] s = "ctrl"     -> LCs(2)       \* other control characters (Cc) except NUL: form feed, vertical tab, BEL, ESC, DEL, U+0085
    [] s = "uniblock" -> <<L("bopen"), L("bmid"), L("bmid"), L("bmid"), L("bmid"), L("bclose")>>   \* all of them inside /* */
    [] s = "blocklist" -> <<L("bopen"), L("bmid"), L("bmid"), L("bmid"), L("bmid"), L("bclose")>>   \* /* */ with " * " gutter and a list

\* raw text = L1 \n L2 \n L3 [ \n <boilerplate bytes> ] [ \n\n //go:build <expr> ] \n\n package ...
\* A trailing newline of the boilerplate terminates its last line; what follows starts with a newline of its own,
\* which then shows as one more blank line.
\* The header is a function of (mock-build-tags, boilerplate-file, formatter) alone: neither the platform nor a build
\* constraint of the SOURCE file that declares the interfaces enters it (HeaderContract!SrcCons is a world dimension).
MarkerPart        == <<L("marker"), L("lc"), L("lc")>>
BoilerPart(s, n)  == IF s = "none" THEN << >> ELSE BoilerLines(s) \o (IF n THEN <<L("blank")>> ELSE << >>)
BuildTagPart(e)   == IF e.op = "none" THEN << >> ELSE <<L("blank"), GoBuild(e)>>
PackagePart       == <<L("blank"), L("package")>>
TemplateText(e, s, n) == MarkerPart \o BoilerPart(s, n) \o BuildTagPart(e) \o PackagePart

\* gofmt / goimports (go/printer): runs of blank lines collapse to one, and fixGoBuildLines puts the
\* //go:build line at the latest place a constraint may stand -- after the last blank line of the leading run of
\* // comments and blank lines -- unless it already stands earlier.  A /* */ block ends that run: with a block
\* comment in the boilerplate the constraint moves to the very top of the file, above the marker.
\* noop leaves the text alone.
RECURSIVE Collapse(_)
Collapse(ls) ==
  IF Len(ls) <= 1 THEN ls
  ELSE IF ls[1].c = "blank" /\ ls[2].c = "blank" THEN Collapse(Tail(ls))
  ELSE <<ls[1]>> \o Collapse(Tail(ls))

SlashOrBlank(x) == x.c \in {"marker", "lc", "gobuild", "blank"}
LeadLen(ls) == CHOOSE n \in 0..Len(ls) : (\A i \in 1..n : SlashOrBlank(ls[i])) /\ (n < Len(ls) => ~SlashOrBlank(ls[n + 1]))
MaxOf(S) == CHOOSE x \in S : \A y \in S : y <= x
MinOf(S) == CHOOSE x \in S : \A y \in S : x <= y
InsertAfter(ls) == LET B == {i \in 1..LeadLen(ls) : ls[i].c = "blank"} IN IF B = {} THEN 0 ELSE MaxOf(B)
FixGoBuild(ls) ==
  LET G == {i \in 1..Len(ls) : ls[i].c = "gobuild"} IN
  IF G = {} THEN ls
  ELSE LET g == MinOf(G)
           ins == InsertAfter(ls)
       IN IF g <= ins THEN ls
          ELSE LET rest == SubSeq(ls, 1, g - 1) \o SubSeq(ls, g + 1, Len(ls))
               IN SubSeq(rest, 1, ins) \o <<ls[g], L("blank")>> \o SubSeq(rest, ins + 1, Len(rest))
Formatted(f, ls) == IF f = "noop" THEN ls ELSE Collapse(FixGoBuild(ls))
Produced(e, s, n, f) == Formatted(f, TemplateText(e, s, n))
=============================================================================
