----------------------------- MODULE AllocTrace -----------------------------
(* Trace validation for C15: replies recorded from the real allocators (drivers/alloc, or a probe
   template run through the mockery binary) must be a behaviour of AllocContract. *)
EXTENDS AllocContract, TLC, Json

Trace == ndJsonDeserialize("trace.ndjson")
VARIABLE l
tvars == <<visible, imp, req, inpkg, dst, others, nvars, l>>

ToSet(s) == {s[i] : i \in 1..Len(s)}
Ev == Trace[l]
IsEvent(e) == l <= Len(Trace) /\ Trace[l].op = e /\ l' = l + 1

\* "Suggestion without allocation has no effect on later results": the driver replays every history a
\* second time with the suggest operations erased and logs, next to each reply, the reply the erased
\* history gave at the same position (field <f>_erased).  The two must be equal.
Same(f) == (f \o "_erased") \in DOMAIN Ev => Ev[f] = Ev[f \o "_erased"]
NoEffect == Same("res") /\ Same("quals") /\ Same("visible") /\ Same("found") /\ Same("nil") /\ Same("names") /\ Same("rpath")
\* the path the returned package reports (Package.Path()); a recorder that does not log it reported the requested one
RPath == IF "rpath" \in DOMAIN Ev THEN Ev.rpath ELSE Ev.path

TraceInit == visible = {} /\ imp = << >> /\ req = << >> /\ inpkg = FALSE /\ dst = "" /\ others = {} /\ nvars = 0 /\ l = 1

TraceStep ==
  \/ IsEvent("reset")    /\ CReset(Ev.inpkg, Ev.dst, ToSet(Ev.visible))
  \/ IsEvent("add")      /\ CAddName(Ev.name)
  \/ IsEvent("exists")   /\ CNameExists(Ev.name, Ev.res)
  \/ IsEvent("suggest")  /\ CSuggestName(Ev.res)
  \/ IsEvent("alloc")    /\ CAllocateName(Ev.res)
  \/ IsEvent("import")   /\ CAddImport(Ev.path, RPath, Ev.nil, Ev.res)
  \/ IsEvent("imports")  /\ CImports(Ev.paths, Ev.quals)
  \/ IsEvent("qual")     /\ CPkgQualifier(Ev.path, Ev.found, Ev.res)
  \/ IsEvent("newscope") /\ CNewScope(ToSet(Ev.visible))
  \/ IsEvent("scopesees") /\ CScopeSees(ToSet(Ev.visible) \cup ToSet(Ev.mustseen), Ev.must)
  \/ IsEvent("addvar")   /\ CAddVar(Ev.path, RPath, Ev.nil, Ev.q, Ev.tstr, IF "tident" \in DOMAIN Ev THEN Ev.tident ELSE TRUE, ToSet(Ev.visible))
  \/ IsEvent("resolve")  /\ CResolve(Ev.names, ToSet(Ev.visible))
  \* a "panic" event matches no action: the trace is rejected there

TraceNext == (l <= Len(Trace) => NoEffect) /\ TraceStep

TraceSpec == TraceInit /\ [][TraceNext]_tvars

Consumed == TLCGet("stats").diameter - 1
TraceAccepted == PrintT(<<"CONSUMED", Consumed, Len(Trace)>>) /\ Consumed = Len(Trace)
=============================================================================
