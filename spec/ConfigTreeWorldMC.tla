------------------------- MODULE ConfigTreeWorldMC -------------------------
(* Model constants of the replay worlds: the tree of ConfigTreeShape. *)
EXTENDS ConfigTreeWorld, ConfigTreeShape
=============================================================================
