----------------------------- MODULE PipelineMC -----------------------------
(* Model constants for Pipeline.tla (cfg files cannot spell records or sequences). *)
EXTENDS Pipeline

MCFiles == <<"f1", "f2", "f3">>

AllStageFaults == {StageFault(f, s) : f \in FileSet, s \in StageSet \cup Points}
AllAbsent == [f \in FileSet |-> "absent"]
NoForce == [f \in FileSet |-> FALSE]
AllForce == [f \in FileSet |-> TRUE]

\* C10: every initial state of every output path x every effective force-file-write x at most one failing
\* step of any one file; a missing listed interface on top (quick: only without another fault)
\* a template-, schema-, exec- or format-stage failure whose cause is shared by two or all three files
SharedFaults == {SharedFault(S, s) : S \in {T \in SUBSET FileSet : Cardinality(T) >= 2}, s \in StageSet}
C10WorldsFull == {[fs0 |-> a, force |-> b, fault |-> c, missing |-> m] :
                    a \in [FileSet -> InitStates], b \in [FileSet -> BOOLEAN],
                    c \in AllStageFaults \cup SharedFaults \cup {NoFault}, m \in BOOLEAN}
\* Frame over the module files: an untidy-but-resolvable module, output paths absent or occupied, with and without force
C10UntidyWorlds == {[fs0 |-> a, force |-> b, fault |-> InputFault("untidy-module", "pkg", p, "among", ft), missing |-> FALSE] :
                      a \in [FileSet -> {"absent", "user"}], b \in {NoForce, AllForce}, p \in {"first", "last"}, ft \in UntidyFeatures}
\* a file appears at an output path during the run (see OldValue)
C10AppearWorlds == {[fs0 |-> a, force |-> b, fault |-> NoFault, missing |-> FALSE] :
                      a \in [FileSet -> {"absent", "appears"}] \ {AllAbsent}, b \in {NoForce, AllForce}}
C10WorldsQuick == {x \in C10WorldsFull : x.missing => \/ x.fault = NoFault
                                                         \/ (x.fault.kind = "stage" /\ x.fault.at \in {"format", "write"})}
                  \cup C10UntidyWorlds \cup C10AppearWorlds
\* quick model check: "gen" and "user" content are the same thing to the model (the difference only exists for the
\* real code, and the case export keeps both)
C10WorldsMCQuick == {x \in C10WorldsQuick : \A f \in FileSet : x.fs0[f] # "gen"}
C10WorldsThorough == C10WorldsFull \cup C10UntidyWorlds \cup C10AppearWorlds

\* C09: every invalid-input class x every level it can be written at x first/last package x alone/among valid
\* ones, plus the fault-free world
C09Worlds == {[fs0 |-> AllAbsent, force |-> NoForce, fault |-> NoFault, missing |-> FALSE]} \cup
             UNION {{[fs0 |-> AllAbsent, force |-> NoForce, fault |-> InputFault(c, l, p, x, "-"), missing |-> FALSE] :
                       l \in ClassLevels(c), p \in {"first", "last"}, x \in {"alone", "among"}} : c \in InputClasses \ {"untidy-module"}}
             \* the spellings of the conflict classes, and the untidy-module shapes
             \cup UNION {{[fs0 |-> AllAbsent, force |-> NoForce, fault |-> InputFault(c, l, p, x, ft), missing |-> FALSE] :
                       l \in ClassLevels(c), p \in {"first", "last"}, x \in {"alone", "among"}, ft \in ConflictFeatures(c) \ {"-"}} :
                       c \in {"conflict-srcpkg", "conflict-pkgname", "conflict-template"}}
             \cup {[fs0 |-> AllAbsent, force |-> NoForce, fault |-> InputFault("untidy-module", "pkg", p, x, ft), missing |-> FALSE] :
                       p \in {"first", "last"}, x \in {"alone", "among"}, ft \in UntidyFeatures}
             \* schema-rejected data in ONE file whose custom template + schema the other files use too, with other per-file
             \* parameters (not required, conforming data): run-global state must not carry one file's parameters to another
             \cup {[fs0 |-> AllAbsent, force |-> NoForce, fault |-> InputFault("schema-data", l, p, "among", "shared-template-mixed-require"), missing |-> FALSE] :
                       l \in {"pkg", "iface", "entry"}, p \in {"first", "last"}}
             \* COMBINATIONS: a package that fails to load which also has an unusual-but-valid trait
             \cup {[fs0 |-> AllAbsent, force |-> NoForce, fault |-> InputFault(c, "pkg", "first", x, ft), missing |-> FALSE] :
                       c \in PkgErrClasses, x \in {"alone", "among"}, ft \in PkgFeatures}
\* C09 x C10 (thorough tier): an invalid input while output paths are occupied, with and without force-file-write
C09WorldsOccupied == UNION {{[fs0 |-> a, force |-> b, fault |-> InputFault(c, l, p, "among", "-"), missing |-> FALSE] :
                       l \in ClassLevels(c), p \in {"first", "last"},
                       a \in [FileSet -> {"absent", "user"}], b \in {NoForce, AllForce}} : c \in InputClasses \ {"untidy-module"}}
C09WorldsThorough == C09Worlds \cup C09WorldsOccupied
=============================================================================
