-------------------------- MODULE TestifyConcCases --------------------------
(***************************************************************************)
(* C05, testify half -- the HISTORY CLASSES the stress driver replays on   *)
(* the freshly generated testify mocks under the race detector, and what   *)
(* the contract expects of each.                                           *)
(*                                                                         *)
(* Contract: a generated method is exactly ONE Mock.Called(...) -- atomic  *)
(* under testify's mutex -- per call, with nothing of its own around it.   *)
(* So whatever the interleaving of G goroutines x Kc calls, the outcome is *)
(* that of N = G*Kc Called()s in some order on testify's expectation list: *)
(* this module computes it (testify v1.10.0 MethodCalled: first matching   *)
(* expectation with Repeatability > -1; 1 -> -1, n>1 -> n-1, 0 unlimited)  *)
(* and exports it with every case.  A class = how the expectation is       *)
(* limited x how many variadic arguments the callers pass x the            *)
(* unroll-variadic setting x what the user's own goroutine does to the     *)
(* expectation list meanwhile (testify WRITES under its lock in each).     *)
(***************************************************************************)
EXTENDS Integers, Sequences, FiniteSets, TLC, Json

CONSTANTS G, Kc      \* goroutines and calls per goroutine of the replay

VARIABLES c, reps, n, failed
N == G * Kc

ExpKinds == {"maybe", "times", "once", "twice"}     \* .Maybe() unlimited | one .Times(N) | N x .Once() | N/2 x .Twice()
NVars    == {"na", "0", "2"}                        \* "na": the method is not variadic
Unrolls  == {"false", "unset", "true"}
Concs    == {"none", "on", "unset", "assert"}       \* On("B",..) / On+Unset of B expectations / AssertExpectations-style readers, concurrently

\* the expectation list registered for A before the goroutines start (Repeatability of each entry)
Reps(e) == CASE e = "maybe" -> <<0>>
             [] e = "times" -> <<N>>
             [] e = "once"  -> [i \in 1..N |-> 1]
             [] e = "twice" -> [i \in 1..(N \div 2) |-> 2]

\* one Called(): index of the expectation it consumes (0: none left -> testify fails the test)
Pick(rs) == IF \E i \in 1..Len(rs) : rs[i] > -1 THEN CHOOSE i \in 1..Len(rs) : rs[i] > -1 /\ \A j \in 1..(i - 1) : rs[j] = -1 ELSE 0
StepRep(r) == IF r = 1 THEN -1 ELSE IF r > 1 THEN r - 1 ELSE r
\* number of argument slots the variadic part occupies in Called(...) and hence in the expectation and the record
Slots(nv, u) == IF nv = "na" \/ nv = "0" THEN 0 ELSE IF u = "true" THEN 2 ELSE 1
Calls(e) == IF e = "twice" THEN 2 * (N \div 2) ELSE N       \* calls made in total (all goroutines)

Cases == {[exp |-> e, nvar |-> nv, unroll |-> u, conc |-> k] : e \in ExpKinds, nv \in NVars, u \in Unrolls, k \in Concs}
Id(x) == x.exp \o "/v" \o x.nvar \o "/u-" \o x.unroll \o "/" \o x.conc

\* the Called()s of all goroutines, one after the other (they are atomic under testify's mutex, and the expectations
\* of one class are interchangeable, so every interleaving is this one)
Init == c \in Cases /\ reps = Reps(c.exp) /\ n = 0 /\ failed = 0
Called == /\ n < Calls(c.exp)
          /\ LET i == Pick(reps) IN
               IF i = 0 THEN failed' = failed + 1 /\ UNCHANGED reps
                        ELSE reps' = [reps EXCEPT ![i] = StepRep(@)] /\ UNCHANGED failed
          /\ n' = n + 1 /\ UNCHANGED c
Next == Called
Spec == Init /\ [][Next]_<<c, reps, n, failed>>

Finished == n = Calls(c.exp)
Expect == [recorded |-> n - failed, failed |-> failed, slots |-> Slots(c.nvar, c.unroll),
           remaining |-> {reps[i] : i \in 1..Len(reps)}, races |-> 0]
Emit == IF Finished
        THEN PrintT(<<"CASE", ToJson([id |-> Id(c), exp |-> c.exp, nvar |-> c.nvar, unroll |-> c.unroll, conc |-> c.conc,
                                      g |-> G, k |-> Kc, calls |-> Calls(c.exp), registered |-> Len(Reps(c.exp)),
                                      rep |-> Reps(c.exp)[1], expect |-> Expect])>>)
        ELSE TRUE
\* sanity of the contract layer itself: nothing fails, every limited expectation ends exhausted
ContractSane == Finished => /\ failed = 0
                            /\ Expect.remaining = (IF c.exp = "maybe" THEN {0} ELSE {-1})
=============================================================================
