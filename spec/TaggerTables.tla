---------------------------- MODULE TaggerTables ----------------------------
(* The two abstraction tables of the C20 specification, shared by the model (TaggerMC.tla) and the trace
   specification (TaggerTraceMC.tla).  They abstract Masterminds/semver (lenient parse, order) and "is a
   full semantic version"; checks/c20.py recomputes every entry and every pairwise comparison with the
   real library (drivers/tagger) on each run and stops with exit 2 on any disagreement. *)
EXTENDS Naturals

N(full, dots3, parsable, maj, min, pat, pre) ==
  [full |-> full, dots3 |-> dots3, parsable |-> parsable, maj |-> maj, min |-> min, pat |-> pat, pre |-> pre]

\* pre-release ranks: 0 = release, 1 = "alpha.1", 2 = "alpha.2", 3 = "alpha.10" (numeric identifiers compare
\* numerically), 4 = "rc.1"
MCNameTable ==
  [n \in {"v3.0.0", "v3.0.1", "3.0.1", "v3.1.0-rc.1", "v3.1.0-alpha.2", "v3.1.0-alpha.10", "release/v3.1.0", "v3.1.0", "v3.1.0+build.5", "v4.0.0", "v0.0.0",
          "v0", "v3", "v4", "v3.1", "latest", "rel.2024.01", "v3.1-alpha.1"} |->
     CASE n = "v3.0.0"       -> N(TRUE,  TRUE,  TRUE,  3, 0, 0, 0)
       [] n = "v3.0.1"       -> N(TRUE,  TRUE,  TRUE,  3, 0, 1, 0)
       [] n = "3.0.1"        -> N(TRUE,  TRUE,  TRUE,  3, 0, 1, 0)      \* v-less full version
       [] n = "v3.1.0-rc.1"  -> N(TRUE,  TRUE,  TRUE,  3, 1, 0, 4)
       [] n = "v3.1.0-alpha.2"  -> N(TRUE, TRUE, TRUE, 3, 1, 0, 2)
       [] n = "v3.1.0-alpha.10" -> N(TRUE, TRUE, TRUE, 3, 1, 0, 3)     \* alpha.2 < alpha.10 (not a string comparison)
       [] n = "release/v3.1.0"  -> N(FALSE, TRUE, FALSE, 0, 0, 0, 0)   \* hierarchical ref name, not a version
       [] n = "v3.1.0"       -> N(TRUE,  TRUE,  TRUE,  3, 1, 0, 0)
       [] n = "v3.1.0+build.5" -> N(TRUE, TRUE, TRUE,  3, 1, 0, 0)      \* build metadata: same precedence as v3.1.0
       [] n = "v4.0.0"       -> N(TRUE,  TRUE,  TRUE,  4, 0, 0, 0)
       [] n = "v0.0.0"       -> N(TRUE,  TRUE,  TRUE,  0, 0, 0, 0)
       [] n = "v0"           -> N(FALSE, FALSE, TRUE,  0, 0, 0, 0)      \* major-only
       [] n = "v3"           -> N(FALSE, FALSE, TRUE,  3, 0, 0, 0)
       [] n = "v4"           -> N(FALSE, FALSE, TRUE,  4, 0, 0, 0)
       [] n = "v3.1"         -> N(FALSE, FALSE, TRUE,  3, 1, 0, 0)      \* two-part
       [] n = "latest"       -> N(FALSE, FALSE, FALSE, 0, 0, 0, 0)      \* not a version
       [] n = "rel.2024.01"  -> N(FALSE, TRUE,  FALSE, 0, 0, 0, 0)      \* three dotted parts, not a version
       [] n = "v3.1-alpha.1" -> N(FALSE, TRUE,  TRUE,  3, 1, 0, 1)]     \* two-part with pre-release: lenient parse only

R(valid, maj, min, pat, pre, fullname, majorname) ==
  [valid |-> valid, maj |-> maj, min |-> min, pat |-> pat, pre |-> pre, fullname |-> fullname, majorname |-> majorname]

MCReqTable ==
  \* fullname is ALWAYS "v" + the canonical Version.String() of the request, however the request is spelled
  [r \in {"v3.0.1", "v3.1.0-rc.1", "v3.1.0-alpha.2", "v3.1.0", "v4.0.0", "3.1.0", "v3.1", "3.1", "v4", "v03.1.0", "v3.1.0+build.5",
          "v0.0.0", "banana", "", "<missing>"} |->
     CASE r = "v3.0.1"       -> R(TRUE, 3, 0, 1, 0, "v3.0.1", "v3")
       [] r = "v3.1.0-rc.1"  -> R(TRUE, 3, 1, 0, 4, "v3.1.0-rc.1", "v3")
       [] r = "v3.1.0-alpha.2" -> R(TRUE, 3, 1, 0, 2, "v3.1.0-alpha.2", "v3")
       [] r = "v3.1.0"       -> R(TRUE, 3, 1, 0, 0, "v3.1.0", "v3")
       [] r = "v4.0.0"       -> R(TRUE, 4, 0, 0, 0, "v4.0.0", "v4")
       [] r = "3.1.0"        -> R(TRUE, 3, 1, 0, 0, "v3.1.0", "v3")     \* v-less request
       [] r = "v3.1"         -> R(TRUE, 3, 1, 0, 0, "v3.1.0", "v3")     \* two-part request (coerced)
       [] r = "3.1"          -> R(TRUE, 3, 1, 0, 0, "v3.1.0", "v3")     \* two-part, v-less
       [] r = "v4"           -> R(TRUE, 4, 0, 0, 0, "v4.0.0", "v4")     \* major only (coerced to 4.0.0)
       [] r = "v03.1.0"      -> R(TRUE, 3, 1, 0, 0, "v3.1.0", "v3")     \* leading zero (lenient parse accepts it)
       [] r = "v3.1.0+build.5" -> R(TRUE, 3, 1, 0, 0, "v3.1.0+build.5", "v3")   \* build metadata is part of String()
       [] r = "v0.0.0"       -> R(TRUE, 0, 0, 0, 0, "v0.0.0", "v0")
       [] r = "banana"       -> R(FALSE, 0, 0, 0, 0, "", "")
       [] r = ""             -> R(FALSE, 0, 0, 0, 0, "", "")            \* VERSION= (validate:"required" fails)
       [] r = "<missing>"    -> R(FALSE, 0, 0, 0, 0, "", "")]           \* no mockery-tools.env at all

=============================================================================
