------------------------ MODULE ReplaceTypeContract ------------------------
(***************************************************************************)
(* C13, contract layer (no variables): type terms, the world of a case as  *)
(* a function of its dimensions, and  Accept / Base  -- the outcomes the   *)
(* property allows with and without the replace-type setting.              *)
(* See ReplaceType.tla for the code-shaped layer and the export, and       *)
(* ReplaceTypeTrace.tla for the acceptance of observed outcomes.           *)
(***************************************************************************)
EXTENDS Naturals, Sequences, FiniteSets, TLC, Json

(* type terms: uniform records so that terms compare and serialise *)
Leaf(k, p, n) == [k |-> k, p |-> p, n |-> n, a |-> << >>]
Nm(p, n)      == Leaf("named", p, n)
Bas(n)        == Leaf("basic", "", n)
Con(k, args)  == [k |-> k, p |-> "", n |-> "", a |-> args]
Ptr(t)   == Con("ptr", <<t>>)
Slice(t) == Con("slice", <<t>>)
MapOf(t) == Con("map", <<Bas("string"), t>>)
Chan(t)  == Con("chan", <<t>>)
Func(t)  == Con("func", <<t, t>>)          \* func(t) t

TPar(n)  == Leaf("tparam", "", n)           \* a type parameter of the (generic) interface
Inst(g, t) == Con("inst", <<g, t>>)          \* g[t]: a generic type instantiated with t

NestKinds == {"ptr", "slice", "map", "chan", "func", "variadic", "inst"}

Prm(name, t) == [name |-> name, t |-> t, variadic |-> FALSE]
VPrm(name, t) == [name |-> name, t |-> Slice(t), variadic |-> TRUE]

-----------------------------------------------------------------------------
(* the case's world, as functions of the dims *)
KeyNameOf(sk)  == IF sk = "named" THEN "T" ELSE "TA"
AltNameOf(sk)  == IF sk = "named" THEN "TA" ELSE "T"
KeyOf(sk)      == <<"orig", KeyNameOf(sk)>>
SOf(sk)        == Nm("orig", KeyNameOf(sk))      \* the replaceable type as spelled in the source
SaltOf(sk)     == Nm("orig", AltNameOf(sk))      \* the same type under its other spelling
ThirdAlias     == Nm("third", "H")               \* `type H = orig.T` declared in a third package, never configured
UT             == Nm("orig", "U")                \* another type of the original package
TwinOf(sk)     == Nm("same", KeyNameOf(sk))      \* same type NAME in another package (which also has the orig's package name)
\* Generic positions: the configured type is declared in the package of the generic interface itself
\* (`type K string` next to `type I1[K comparable, V any] interface{...}`), so that a TYPE PARAMETER can carry the
\* configured type's name.  A type parameter is not the named type: it stays, whatever it is called.
GenericPos == {"tparam", "targ", "tparamreal"}
LocalK     == Nm("src", "K")
KeyFor(p, sk) == IF p \in GenericPos THEN <<"src", "K">> ELSE KeyOf(sk)
TParamsOf(p) == CASE p = "tparam"     -> <<[name |-> "K", constraint |-> "comparable"], [name |-> "V", constraint |-> "any"]>>
                  [] p = "tparamreal" -> <<[name |-> "P", constraint |-> "any"]>>
                  [] OTHER            -> << >>
ToOf(tg) == CASE tg = "named"    -> Nm("alt", "R")
              [] tg = "alias"    -> Nm("alt", "RA")
              [] tg = "samename" -> Nm("same", "R")
              [] tg = "dstpkg"   -> Nm("dst", "D")
              [] tg = "samepkg"  -> Nm("orig", "R")      \* the replacement lives in the package of the replaced type

\* M1 by position kind.  "$q" is concretised to the replacement package's name (a parameter named like the qualifier).
M1Params(p, sk) ==
  LET S == SOf(sk) IN
  CASE p = "param"     -> <<Prm("x", S), Prm("n", Bas("int"))>>
    [] p = "result"    -> <<Prm("n", Bas("int"))>>
    [] p = "both"      -> <<Prm("x", S)>>
    [] p = "unnamed"   -> <<Prm("", S)>>
    [] p = "qualparam" -> <<Prm("$q", Bas("int")), Prm("x", S)>>
    [] p = "variadic"  -> <<VPrm("xs", S)>>
    [] p = "ptr"       -> <<Prm("x", Ptr(S))>>
    [] p = "slice"     -> <<Prm("x", Slice(S))>>
    [] p = "map"       -> <<Prm("x", MapOf(S))>>
    [] p = "chan"      -> <<Prm("x", Chan(S))>>
    [] p = "func"      -> <<Prm("f", Func(S))>>
    [] p = "mixed"     -> <<Prm("x", S), Prm("p", Ptr(S))>>
    [] p = "viaalias"  -> <<Prm("x", SaltOf(sk))>>
    [] p = "viathird"  -> <<Prm("h", ThirdAlias)>>
    [] p = "tparam"     -> <<Prm("k", TPar("K"))>>                      \* the type parameter is NAMED like the configured type
    [] p = "targ"       -> <<Prm("b", Inst(Nm("src", "Box"), LocalK))>>    \* the configured type as a type argument (nested: open)
    [] p = "tparamreal" -> <<Prm("p", TPar("P")), Prm("k", LocalK)>>     \* a type parameter next to the real configured type
M1Results(p, sk) ==
  LET S == SOf(sk) IN
  CASE p = "param"  -> <<Bas("error")>>
    [] p = "result" -> <<S, Bas("error")>>
    [] p = "both"   -> <<S>>
    [] p = "ptr"    -> <<Ptr(S)>>
    [] p = "slice"  -> <<Slice(S)>>
    [] p = "mixed"  -> <<S>>
    [] p = "viaalias" -> <<SaltOf(sk)>>
    [] p = "viathird" -> <<ThirdAlias, Bas("error")>>
    [] p = "tparam"     -> <<TPar("V"), Bas("bool")>>
    [] p = "targ"       -> <<Inst(Nm("src", "Box"), LocalK)>>
    [] p = "tparamreal" -> <<LocalK, TPar("P")>>
    [] OTHER        -> << >>

\* an extra parameter goes in front, or at the end but never after a variadic parameter
WithExtra(ps, e, front) ==
  IF front \/ (Len(ps) > 0 /\ ps[Len(ps)].variadic) THEN <<e>> \o ps ELSE ps \o <<e>>

Mth(name, ps, rs) == [name |-> name, params |-> ps, results |-> rs]
ZMethod == Mth("Z", <<Prm("s", Bas("string"))>>, <<Bas("int")>>)

I1Methods(p, o, sk) ==
  LET nm(x) == IF p = "unnamed" THEN "" ELSE x
      base == M1Params(p, sk)
      ps == CASE o = "parambefore" -> WithExtra(base, Prm(nm("u"), UT), TRUE)
              [] o = "paramafter"  -> WithExtra(base, Prm(nm("u"), UT), FALSE)
              [] o \in {"twinparam", "twinmapped"} -> WithExtra(base, Prm(nm("z"), TwinOf(sk)), TRUE)
              [] OTHER             -> base
      m1 == Mth("M1", ps, M1Results(p, sk))
  IN  (IF o = "methodbefore" THEN <<Mth("M0", <<Prm("u", UT)>>, << >>)>> ELSE << >>)
      \o <<m1>>
      \o (IF o = "methodafter" THEN <<Mth("M2", <<Prm("u", UT)>>, <<UT>>)>> ELSE << >>)
      \* "embedded": I1 embeds an interface declared in the ORIGINAL package whose method mentions the type;
      \* the method belongs to I1's method set like any other
      \o (IF o = "embedded" THEN <<Mth("ME", <<Prm("e", SOf(sk))>>, <<SOf(sk)>>)>> ELSE << >>)
      \o <<ZMethod>>

I2Methods(o, sk) ==
  CASE o = "ifaceU" -> <<Mth("Q", <<Prm("u", UT)>>, << >>)>>
    [] o = "ifaceT" -> <<Mth("Q", <<Prm("x", SOf(sk))>>, <<SOf(sk)>>)>>
    [] OTHER        -> << >>

Ifaces(p, o, sk) ==
  <<[name |-> "I1", tparams |-> TParamsOf(p), methods |-> I1Methods(p, o, sk)]>>
  \o (IF o \in {"ifaceU", "ifaceT"} THEN <<[name |-> "I2", tparams |-> << >>, methods |-> I2Methods(o, sk)]>> ELSE << >>)

\* the mocks the single output file contains: (struct name, interface, which configs entry configures it)
TwoEntries == {"entry2", "entry2x", "entry2y"}
MocksOf(o, lv) ==
  (IF lv \in TwoEntries
   THEN <<[struct |-> "MockI1", iface |-> "I1", entry |-> "e0"], [struct |-> "MockI1R", iface |-> "I1", entry |-> "e1"]>>
   ELSE <<[struct |-> "MockI1", iface |-> "I1", entry |-> "e0"]>>)
  \o (IF o \in {"ifaceU", "ifaceT"} THEN <<[struct |-> "MockI2", iface |-> "I2", entry |-> "i2"]>> ELSE << >>)

MethodsOfIface(p, o, sk, iname) == IF iname = "I1" THEN I1Methods(p, o, sk) ELSE I2Methods(o, sk)

-----------------------------------------------------------------------------
(* Contract *)

\* Levels.  One mapping written at root / pkg / iface (I1) / entry (I1's only configs entry) / entry2 (the second of
\* two configs entries of I1).  And TWO mappings of the same source type to DIFFERENT targets for two mocks that
\* share the output file: entry2x / entry2y (the two configs entries of I1, either order), iface2x / iface2y (the
\* interface-level configs of I1 and I2, either order).
\* To2: the other target -- another type in another package than the first.
To2Of(tg) == IF tg = "samename" THEN Nm("alt", "R2") ELSE Nm("same", "R2")
\* "twinmapped": a second source package with the SAME package name has a type of the same name, mapped too (-> alt.R2)
TwinMaps(o, sk) == IF o = "twinmapped" THEN {<< <<"same", KeyNameOf(sk)>>, Nm("alt", "R2") >>} ELSE {}
\* the target this mock's own config maps the key to; NoTarget if no level on its chain carries the mapping
NoTarget == Bas("")
MockTo(mk, lv, tg) ==
  CASE lv \in {"root", "pkg"}                          -> ToOf(tg)
    [] lv \in {"iface", "entry"}                       -> IF mk.iface = "I1" THEN ToOf(tg) ELSE NoTarget
    [] lv = "entry2"                                   -> IF mk.entry = "e1" THEN ToOf(tg) ELSE NoTarget
    [] lv = "entry2x"                                  -> IF mk.entry = "e0" THEN ToOf(tg) ELSE IF mk.entry = "e1" THEN To2Of(tg) ELSE NoTarget
    [] lv = "entry2y"                                  -> IF mk.entry = "e0" THEN To2Of(tg) ELSE IF mk.entry = "e1" THEN ToOf(tg) ELSE NoTarget
    [] lv = "iface2x"                                  -> IF mk.iface = "I1" THEN ToOf(tg) ELSE To2Of(tg)
    [] lv = "iface2y"                                  -> IF mk.iface = "I1" THEN To2Of(tg) ELSE ToOf(tg)
    \* the same source type mapped at two levels of ONE chain to different targets: the most specific level wins
    [] lv = "over_pi"                                  -> IF mk.iface = "I1" THEN ToOf(tg) ELSE To2Of(tg)   \* package: To2, interface I1: To
    [] lv = "over_re"                                  -> IF mk.iface = "I1" THEN ToOf(tg) ELSE To2Of(tg)   \* top level: To2, I1's configs entry: To
Covered(mk, lv) == MockTo(mk, lv, "named") # NoTarget

\* a choice fixes what the documentation leaves open: the constructor kinds through which the
\* replacement descends.  A replaceable type is identified by (package path, name): a parameter spelled with
\* ANOTHER name of the same type (the alias when the named type is configured, the named type when the alias is,
\* an alias in a third package) has no entry of its own and is one of "all other parameters": unchanged.
Choices == [desc : SUBSET NestKinds]

RECURSIVE Sub(_, _, _, _)
MapsTo(maps, t) == (CHOOSE e \in maps : e[1] = <<t.p, t.n>>)[2]
Mapped(maps, t) == t.k = "named" /\ \E e \in maps : e[1] = <<t.p, t.n>>
Sub(t, ch, maps, to) ==
  IF t.k = "named"
  THEN IF Mapped(maps, t) THEN MapsTo(maps, t) ELSE t
  ELSE IF t.k \in {"basic", "tparam"} THEN t          \* a type parameter is never the configured type
  ELSE IF t.k \in ch.desc THEN [t EXCEPT !.a = [i \in DOMAIN t.a |-> Sub(t.a[i], ch, maps, to)]]
  ELSE t

\* a parameter / result at top level: exact match MUST be replaced, whatever the choice
TopType(t, variadic, ch, maps, to) ==
  IF variadic
  THEN IF "variadic" \in ch.desc THEN Slice(Sub(t.a[1], ch, maps, to)) ELSE t
  ELSE IF Mapped(maps, t) THEN MapsTo(maps, t)
  ELSE Sub(t, ch, maps, to)

RenderMethod(m, rep, ch, maps, to) ==
  [name     |-> m.name,
   params   |-> [i \in DOMAIN m.params |->
                   IF rep THEN TopType(m.params[i].t, m.params[i].variadic, ch, maps, to) ELSE m.params[i].t],
   results  |-> [i \in DOMAIN m.results |-> IF rep THEN TopType(m.results[i], FALSE, ch, maps, to) ELSE m.results[i]],
   variadic |-> Len(m.params) > 0 /\ m.params[Len(m.params)].variadic]

RECURSIVE Refs(_)
Refs(t) == IF t.k = "named" THEN {t.p}
           ELSE IF t.k = "basic" THEN {}
           ELSE UNION {Refs(t.a[i]) : i \in DOMAIN t.a}

MethodRefs(rm) == UNION ({Refs(rm.params[i]) : i \in DOMAIN rm.params} \cup {Refs(rm.results[i]) : i \in DOMAIN rm.results})

Universe == {"orig", "alt", "same", "dst", "third"}

\* rendered mocks -> outcome with the import contract:
\*   every package a rendered signature refers to is imported, except the file's own package;
\*   no package of the universe that nothing refers to is imported (in particular the original
\*   package once nothing mentions it any more), and never the file's own package.
Outcome(rmocks) ==
  LET allrefs == UNION {UNION {MethodRefs(rmocks[i].methods[j]) : j \in DOMAIN rmocks[i].methods} : i \in DOMAIN rmocks}
  IN [mocks |-> rmocks, req |-> allrefs \ {"dst", "src"}, forb |-> (Universe \ allrefs) \cup {"dst"}]   \* the source package's own import is not judged

RenderAll(p, o, sk, tg, lv, ch, on) ==
  LET mks == MocksOf(o, lv) IN
  [i \in DOMAIN mks |->
     LET ms == MethodsOfIface(p, o, sk, mks[i].iface) IN
     [struct |-> mks[i].struct, iface |-> mks[i].iface,
      methods |-> [j \in DOMAIN ms |-> RenderMethod(ms[j], on /\ Covered(mks[i], lv), ch,
                                               {<<KeyFor(p, sk), MockTo(mks[i], lv, tg)>>} \cup TwinMaps(o, sk), MockTo(mks[i], lv, tg))]]]

\* only the open points that occur in the case matter; restricting the choices keeps Accept small
KindsIn(p) == CASE p = "variadic" -> {"variadic"}
                [] p = "ptr"   -> {"ptr"}   [] p = "slice" -> {"slice"} [] p = "map" -> {"map"}
                [] p = "targ"  -> {"inst"}
                [] p = "chan"  -> {"chan"}  [] p = "func"  -> {"func"}  [] p = "mixed" -> {"ptr"}
                [] OTHER -> {}
RelevantChoices(p) == {ch \in Choices : ch.desc \subseteq KindsIn(p)}

Accept(p, o, sk, tg, lv) == {Outcome(RenderAll(p, o, sk, tg, lv, ch, TRUE)) : ch \in RelevantChoices(p)}
NoChoice == [desc |-> {}]
Base(p, o, sk, tg, lv) == Outcome(RenderAll(p, o, sk, tg, lv, NoChoice, FALSE))   \* the same world without the setting

\* positions the contract REQUIRES to change (vacuity / "the setting had an effect")
MustChange(p, o, sk, tg, lv) ==
  \A oc \in Accept(p, o, sk, tg, lv) : oc.mocks # Base(p, o, sk, tg, lv).mocks


-----------------------------------------------------------------------------
(* No-leak family: "the setting has this effect at whichever level it is written -- and ONLY there".
   Three source packages whose interface I mentions two types of the original package,
       M(x orig.T, u orig.U) (orig.T, orig.U)
   R (recursive: true), Rin (a sub-package of R, listed under `packages:` or only discovered) and S (an
   unrelated sibling).  A config WRITES a set of <<level, key>> pairs: replace-type entries for T (-> alt.R)
   and/or U (-> alt.R2) at the top level and at package level.
   What the property fixes, whatever the merge of a map-valued parameter means (key by key, or the most
   specific map as a whole):
     - a key no level on the package's chain defines stays UNCHANGED there (no leak from siblings / children);
     - a key defined by the most specific level of the chain that carries any replace-type is REPLACED;
     - otherwise (defined higher up, a more specific level carries only the other key) it is left open. *)
LPkgs   == {"R", "Rin", "S"}
LLevels == {"root", "R", "Rin", "S"}
LKeys   == {"T", "U"}
LChain(p) == CASE p = "S" -> <<"root", "S">> [] p = "R" -> <<"root", "R">> [] p = "Rin" -> <<"root", "R", "Rin">>
LOrig(k) == Nm("orig", k)
LTo(k)   == IF k = "T" THEN Nm("alt", "R") ELSE Nm("alt", "R2")
LMax(S)  == CHOOSE x \in S : \A y \in S : y <= x
LStatus(w, p, k) ==
  LET ch   == LChain(p)
      defs == {i \in DOMAIN ch : <<ch[i], k>> \in w}
      any  == {i \in DOMAIN ch : \E k2 \in LKeys : <<ch[i], k2>> \in w}
  IN IF defs = {} THEN "unchanged" ELSE IF LMax(any) \in defs THEN "replaced" ELSE "open"
\* c : key -> BOOLEAN (replaced?)
LMock(c) ==
  LET ty(k) == IF c[k] THEN LTo(k) ELSE LOrig(k) IN
  <<[struct |-> "MockI", iface |-> "I",
     methods |-> <<[name |-> "M", params |-> <<ty("T"), ty("U")>>, results |-> <<ty("T"), ty("U")>>, variadic |-> FALSE],
                   [name |-> "Z", params |-> <<Bas("string")>>, results |-> <<Bas("int")>>, variadic |-> FALSE]>>]>>
LAccept(w, p) ==
  {Outcome(LMock(c)) : c \in {c \in [LKeys -> BOOLEAN] :
       \A k \in LKeys : (LStatus(w, p, k) = "unchanged" => ~c[k]) /\ (LStatus(w, p, k) = "replaced" => c[k])}}
LBase == Outcome(LMock([k \in LKeys |-> FALSE]))
=============================================================================
