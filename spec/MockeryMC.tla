----------------------------- MODULE MockeryMC -----------------------------
(* Model constants of the root specification: the WORLDS explored (cfg files cannot spell records).
   A configuration is written as a set of triples <<node, parameter, value>>; families of worlds vary one aspect
   of a run over a fixed background and are united.  Ill-formed worlds (two mocks of one file with the same struct
   name or different force-file-write: the statement leaves their outcome open) are filtered out. *)
EXTENDS Mockery

CfgOf(T) == [n \in {t[1] : t \in T} |->
               [p \in {t[2] : t \in {u \in T : u[1] = n}} |-> (CHOOSE t \in T : t[1] = n /\ t[2] = p)[3]]]

BaseLay == [cwd |-> <<"w">>, mode |-> "search_yml", cfgdir |-> <<"w">>, decoy |-> LY!NoDecoy]
NoFp    == [point |-> "-", key |-> "-"]
World(tag, shape, argv, lay, T, occ, fp, pf) ==
  [tag |-> tag, shape |-> shape, argv |-> argv, lay |-> lay, cfg |-> CfgOf(T), occ |-> occ, fp |-> fp, pkgfault |-> pf]
Run(tag, shape, T) == World(tag, shape, "run", BaseLay, T, {}, NoFp, "-")

\* marker values: the text names the level that wrote it
INm == Var("InterfaceName")
FN(n) == CASE n = "env" -> <<Lit("fenv.go")>>
           [] n = "root" -> <<Lit("fr.go")>>
           [] n = "a" -> <<Lit("fp.go")>>
           [] n = "k" -> <<Lit("fq_"), INm, Lit(".go")>>
           [] n = "a.A1" -> <<Lit("fi_"), INm, Lit(".go")>>
           [] n = "a.A1.1" -> <<Lit("fe1.go")>>
           [] n = "a.A1.2" -> <<Lit("fe2.go")>>
           [] n = "k.K1" -> <<Lit("fj.go")>>
SN(n) == CASE n = "env" -> <<Lit("V"), INm>>
           [] n = "root" -> <<Lit("R"), INm>>
           [] n = "a" -> <<Lit("P"), INm>>
           [] n = "k" -> <<Lit("Q"), INm>>
           [] n = "a.A1" -> <<Lit("I"), INm>>
           [] n = "a.A1.1" -> <<Lit("E1"), INm>>
           [] n = "a.A1.2" -> <<Lit("E2"), INm>>
           [] n = "k.K1" -> <<Lit("J"), INm>>
Lv4 == {"root", "a", "a.A1", "a.A1.1"}

\* background: everything of a and (through recursion) a/b is mocked, k mocks its listed K1; entry 2 always names itself
Bg == {<<"a", "all", TRUE>>, <<"a", "recursive", TRUE>>, <<"a.A1.2", "structname", SN("a.A1.2")>>}
BgPer == Bg \cup {<<"root", "filename", <<Lit("m_"), INm, Lit(".go")>> >>}            \* one file per interface ...
BgPerE == BgPer \cup {<<"a.A1.2", "filename", FN("a.A1.2")>>}                       \* ... and per entry

\* LEVELS: each of the two parameters at every subset of the four levels, the other one nowhere / everywhere
Levels(OtherSets) ==
  UNION {{Run("levels", "S1", Bg \cup {<<n, "filename", FN(n)>> : n \in S} \cup {<<n, "structname", SN(n)>> : n \in O}),
          Run("levels", "S1", Bg \cup {<<n, "structname", SN(n)>> : n \in S} \cup {<<n, "filename", FN(n)>> : n \in O})}
         : S \in SUBSET Lv4, O \in OtherSets}
\* templated values referring to each other: the file name contains the (templated) struct name
CrossRef == {Run("crossref", "S1", Bg \cup {<<"root", "filename", <<Lit("f_"), Var("StructName"), Lit(".go")>> >>}
                                     \cup {<<n, "structname", SN(n)>> : n \in S}) : S \in {{}, {"a"}, {"a.A1.1"}, {"root", "a.A1"}}}

\* SELECT: all / listed / include / exclude at root and package level, listed or not
SelectW ==
  {Run("select", sh, {<<"a", "recursive", TRUE>>, <<"a.A1.2", "structname", SN("a.A1.2")>>, <<"root", "filename", <<Lit("m_"), INm, Lit(".go")>> >>,
                      <<"a.A1.2", "filename", FN("a.A1.2")>>}
                     \cup (IF ra = "U" THEN {} ELSE {<<"root", "all", ra = "T">>})
                     \cup (IF pa = "U" THEN {} ELSE {<<"a", "all", pa = "T">>})
                     \cup (IF inc = {} THEN {} ELSE {<<"a", "include-interface-regex", inc>>, <<"k", "include-interface-regex", {"K2"}>>})
                     \cup (IF exc = {} THEN {} ELSE {<<"a", "exclude-interface-regex", exc>>}))
     : sh \in {"S1", "S2"}, ra \in {"U", "T"}, pa \in {"U", "T", "F"}, inc \in {{}, {"A2"}, {"A1", "A2", "B1"}}, exc \in {{}, {"A2"}}}

\* RECURSIVE: recursive and exclude-subpkg-regex at root and package level
Recur ==
  {Run("recursive", "S1", {<<"root", "all", TRUE>>, <<"a.A1.2", "structname", SN("a.A1.2")>>, <<"root", "filename", <<Lit("m_"), INm, Lit(".go")>> >>,
                           <<"a.A1.2", "filename", FN("a.A1.2")>>}
                          \cup (IF rr = "U" THEN {} ELSE {<<"root", "recursive", rr = "T">>})
                          \cup (IF pr = "U" THEN {} ELSE {<<"a", "recursive", pr = "T">>})
                          \cup (IF rx THEN {<<"root", "exclude-subpkg-regex", <<"ab">> >>} ELSE {})
                          \cup (IF px THEN {<<"a", "exclude-subpkg-regex", <<"ab">> >>} ELSE {}))
     : rr \in {"U", "T"}, pr \in {"U", "T", "F"}, rx \in BOOLEAN, px \in BOOLEAN}

\* FS: pre-existing output files x force-file-write at root / package level
FsBase == BgPerE
FsFiles == CFiles(Run("x", "S1", FsBase))
Force(v) == CASE v = "U" -> {} [] v = "rootT" -> {<<"root", "force-file-write", TRUE>>} [] v = "aT" -> {<<"a", "force-file-write", TRUE>>}
              [] v = "rootT-aF" -> {<<"root", "force-file-write", TRUE>>, <<"a", "force-file-write", FALSE>>}
OneFile(S) == CHOOSE f \in S : \A g \in S : Len(f) <= Len(g)
FsWorlds(OccSets) ==
  {World("fs", "S1", "run", BaseLay, FsBase \cup Force(v), occ, NoFp, "-") : v \in {"U", "rootT", "aT", "rootT-aF"}, occ \in OccSets}

\* FAULT: one fault per world
TFaults == {"noschema", "needkey", "badexec", "badfmt", "ok"}
Fault ==
  {Run("fault-template", "S1", BgPerE \cup {<<n, "template", t>>}) : t \in TFaults, n \in {"root", "a", "k"}}
  \cup {World("fault-failpoint", "S1", "run", BaseLay, FsBase, {}, [point |-> pt, key |-> f], "-") : pt \in {"mkdir", "stat", "write"}, f \in FsFiles}
  \cup {Run("fault-missing", "S3", BgPerE \cup A) : A \in {{}, {<<"k", "all", TRUE>>}}}
  \cup {World("fault-input", "S1", "run", BaseLay, BgPerE, {}, NoFp, pf) : pf \in {"parse-error", "unknown-key", "nocfg"}}
  \cup {Run("fault-cyclic", "S1", BgPerE \cup {<<"a.A1.1", "structname", <<Var("StructName"), Lit("x")>> >>})}
  \cup {Run("fault-conflict-template", "S1", Bg \cup {<<"a.A1", "filename", FN("a.A1")>>, <<"a.A1.1", "template", "matryer">>}),
        Run("fault-conflict-pkgname", "S1", Bg \cup {<<"a.A1", "filename", FN("a.A1")>>, <<"a.A1.1", "pkgname", <<Lit("other")>> >>}),
        Run("fault-conflict-srcpkg", "S1", {<<"root", "all", TRUE>>, <<"a.A1.2", "structname", SN("a.A1.2")>>, <<"root", "dir", "up">>})}
  \cup {Run("dir-forms", "S1", BgPerE \cup {<<n, "dir", d>>}) : n \in {"root", "a"}, d \in {"mocks", "up"}}
  \cup {Run("loglevel", "S1", BgPerE \cup {<<n, "log-level", v>>}) : n \in {"env", "root", "flag"}, v \in {"debug", "error", "bogus"}}

\* SOURCES: defaults < MOCKERY_* < file < flags for the top level
Sources ==
  {Run("sources", "S1", BgPerE \cup {<<n, "structname", SN(n)>> : n \in S} \cup {<<n, "log-level", IF n = "env" THEN "debug" ELSE IF n = "root" THEN "warn" ELSE "error">> : n \in L})
     : S \in SUBSET {"env", "root"}, L \in SUBSET {"env", "root", "flag"}}
  \cup {Run("sources", "S2", {<<"env", "all", TRUE>>, <<"root", "filename", <<Lit("m_"), INm, Lit(".go")>> >>} \cup A) : A \in {{}, {<<"a", "all", FALSE>>}}}

\* COMMANDS that are not the default command, over healthy and broken configurations
Commands ==
  {World("command", "S1", argv, BaseLay, T, occ, NoFp, pf) :
     argv \in {"showconfig", "version", "help", "badflag", "badcmd"},
     T \in {BgPerE, BgPerE \cup {<<n, "structname", SN(n)>> : n \in Lv4} \cup {<<"root", "log-level", "bogus">>}},
     occ \in {{}, FsFiles}, pf \in {"-"}}
  \cup {World("command", "S1", "showconfig", BaseLay, BgPerE, {}, NoFp, pf) : pf \in {"unknown-key", "nocfg", "parse-error"}}

\* LOCATE: where the config file is and how it is found (Layout.tla), with a decoy that must not be used
Lays(Modes, Cwds) == {l \in LY!AllLayouts : l.mode \in Modes /\ l.cwd \in Cwds /\ l.cfgdir \in {<< >>, <<"w">>} /\ l.mode # "search_both"
                                             /\ l.decoy \in {LY!NoDecoy, << >>, <<"w">>, <<"w", "a">>}}
Locate(Modes, Cwds, Argvs) ==
  {World("locate", "S1", argv, l, BgPerE \cup {<<"root", "structname", SN("root")>>}, {}, NoFp, "-") : l \in Lays(Modes, Cwds), argv \in Argvs}

AllModes == LY!Modes \ {"search_both"}
Quick == Levels({{}, Lv4}) \cup CrossRef \cup SelectW \cup Recur \cup FsWorlds({{}, {OneFile(FsFiles)}, FsFiles}) \cup Fault \cup Sources
         \cup Commands \cup Locate(AllModes, {<<"w">>, <<"w", "a">>}, {"run"}) \cup Locate({"search_yml", "flag_rel", "env_abs", "flagenv_abs"}, {<<"w", "a">>}, {"showconfig"})
Thorough == Quick \cup Levels(SUBSET Lv4) \cup FsWorlds(SUBSET FsFiles)
            \cup Locate(AllModes, LY!ModDirs, {"run", "showconfig"})
            \cup {[x EXCEPT !.occ = FsFiles, !.cfg = Over(x.cfg, CfgOf({<<"env", "force-file-write", TRUE>>}))] : x \in SelectW \cup Recur}
            \cup {[x EXCEPT !.fp = [point |-> pt, key |-> f]] : x \in FsWorlds({{}, FsFiles}), pt \in {"stat", "write"}, f \in FsFiles}

MCQuick    == {x \in Quick : WellFormed(x)}
MCThorough == {x \in Thorough : WellFormed(x)}
=============================================================================
