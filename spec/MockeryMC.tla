----------------------------- MODULE MockeryMC -----------------------------
(* Model constants of the root specification: the WORLDS explored (cfg files cannot spell records).
   A configuration is written as a set of triples <<node, parameter, value>>; families of worlds vary one aspect
   of a run over a background B and are united.  Backgrounds:
     Bg3   a, a/b (through recursion, a/b/c excluded) fully mocked, k mocks its listed K1; default file name: ONE file
           per package (three output files, the one of package a holds three mocks);  Bg4: a/b/c included (four files)
     Bg5   Bg3 with one file per interface and per entry (five output files);  Bg6: Bg4 likewise (six files)
     BgS   a without recursion, one file per interface and entry (four files)
   Ill-formed worlds (two mocks of one file with the same struct name or different force-file-write: the statement
   leaves their outcome open) are filtered out.  Families are operators with parameters on purpose: TLC evaluates
   every zero-arity constant definition at start-up. *)
EXTENDS Mockery

CfgOf(T) == [n \in {t[1] : t \in T} |->
               [p \in {t[2] : t \in {u \in T : u[1] = n}} |-> (CHOOSE t \in T : t[1] = n /\ t[2] = p)[3]]]

BaseLay == [cwd |-> <<"w">>, mode |-> "search_yml", cfgdir |-> <<"w">>, decoy |-> LY!NoDecoy, dname |-> ".mockery.yml", via |-> "phys"]
NoFp    == [point |-> "-", key |-> "-"]
World(tag, shape, argv, lay, T, occ, fp, pf) ==
  [tag |-> tag, shape |-> shape, argv |-> argv, lay |-> lay, cfg |-> CfgOf(T), occ |-> occ, fp |-> fp, pkgfault |-> pf, tagged |-> FALSE, cfgkind |-> "normal", mout |-> "default", container |-> FALSE, envspell |-> "lower"]
Run(tag, shape, T) == World(tag, shape, "run", BaseLay, T, {}, NoFp, "-")

\* marker values: the text names the level that wrote it
INm == Var("InterfaceName")
FN(n) == CASE n = "env" -> <<Lit("fenv.go")>>
           [] n = "root" -> <<Lit("fr.go")>>
           [] n = "a" -> <<Lit("fp.go")>>
           [] n = "k" -> <<Lit("fq_"), INm, Lit(".go")>>
           [] n = "a.A1" -> <<Lit("fi_"), INm, Lit(".go")>>
           [] n = "a.A1.1" -> <<Lit("fe1.go")>>
           [] n = "a.A1.2" -> <<Lit("fe2.go")>>
           [] n = "k.K1" -> <<Lit("fj.go")>>
SN(n) == CASE n = "env" -> <<Lit("V"), INm>>
           [] n = "root" -> <<Lit("R"), INm>>
           [] n = "a" -> <<Lit("P"), INm>>
           [] n = "k" -> <<Lit("Q"), INm>>
           [] n = "ab" -> <<Lit("S"), INm>>
           [] n = "a.A1" -> <<Lit("I"), INm>>
           [] n = "a.A1.1" -> <<Lit("E1"), INm>>
           [] n = "a.A1.2" -> <<Lit("E2"), INm>>
           [] n = "k.K1" -> <<Lit("J"), INm>>
Lv4 == {"root", "a", "a.A1", "a.A1.1"}

E2   == {<<"a.A1.2", "structname", SN("a.A1.2")>>}                                  \* entry 2 always names itself
PerI == {<<"root", "filename", <<Lit("m_"), INm, Lit(".go")>> >>}                    \* one file per interface ...
PerE == PerI \cup {<<"a.A1.2", "filename", FN("a.A1.2")>>}                           \* ... and per entry
Bg4  == {<<"a", "all", TRUE>>, <<"a", "recursive", TRUE>>} \cup E2             \* a, a/b, a/b/c, k: four files
Bg3  == Bg4 \cup {<<"a", "exclude-subpkg-regex", <<"abc">> >>}                    \* a/b/c excluded: three files
Bg5  == Bg3 \cup PerE
Bg6  == Bg4 \cup PerE
BgS  == {<<"a", "all", TRUE>>} \cup E2 \cup PerE                                  \* no recursion: files of a (3) and k (1)

\* LEVELS: each of the two parameters at every subset of the four levels, the other one at each set of OtherSets
Levels(OtherSets) ==
  UNION {{Run("levels", "S1", Bg3 \cup {<<n, "filename", FN(n)>> : n \in S} \cup {<<n, "structname", SN(n)>> : n \in O}),
          Run("levels", "S1", Bg3 \cup {<<n, "structname", SN(n)>> : n \in S} \cup {<<n, "filename", FN(n)>> : n \in O})}
         : S \in SUBSET Lv4, O \in OtherSets}
\* templated values referring to each other: the file name contains the (templated) struct name
CrossRef(Sets) == {Run("crossref", "S1", Bg3 \cup {<<"root", "filename", <<Lit("f_"), Var("StructName"), Lit(".go")>> >>}
                                           \cup {<<n, "structname", SN(n)>> : n \in S}) : S \in Sets}

\* SELECT: all / listed / include / exclude at root and package level, listed or not
SelectW(Shapes, Incs, F) ==
  {Run("select", sh, {<<"a", "recursive", TRUE>>} \cup E2 \cup F
                     \cup (IF ra = "U" THEN {} ELSE {<<"root", "all", ra = "T">>})
                     \cup (IF pa = "U" THEN {} ELSE {<<"a", "all", pa = "T">>})
                     \cup (IF inc = {} THEN {} ELSE {<<"a", "include-interface-regex", inc>>, <<"k", "include-interface-regex", {"K2"}>>})
                     \cup (IF exc = {} THEN {} ELSE {<<"a", "exclude-interface-regex", exc>>}))
     : sh \in Shapes, ra \in {"U", "T"}, pa \in {"U", "T", "F"}, inc \in Incs, exc \in {{}, {"A2"}}}

\* RECURSIVE: recursive and exclude-subpkg-regex at root and package level
Recur(RootExcl, F, L) ==
  {Run("recursive", "S1", {<<"root", "all", TRUE>>} \cup E2 \cup F
                          \cup (IF rr = "U" THEN {} ELSE {<<"root", "recursive", rr = "T">>})
                          \cup (IF pr = "U" THEN {} ELSE {<<"a", "recursive", pr = "T">>})
                          \cup (IF rx THEN {<<"root", "exclude-subpkg-regex", L>>} ELSE {})
                          \cup (IF px THEN {<<"a", "exclude-subpkg-regex", L>>} ELSE {}))
     : rr \in {"U", "T"}, pr \in {"U", "T", "F"}, rx \in RootExcl, px \in BOOLEAN}

FilesOf(B) == CFiles(Run("x", "S1", B))

\* TWO RECURSION LEVELS with a/b written in `packages:` below a (shape S4): whose settings does a/b/c carry?  The
\* struct-name markers of a (P..) and a/b (S..) travel with the settings into the names of the mocks of a/b/c.
Recur2(F, RootRec) ==
  {Run("recursive2", "S4", {<<"root", "all", TRUE>>, <<"a", "structname", SN("a")>>, <<"ab", "structname", SN("ab")>>} \cup F
                           \cup (IF rr = "U" THEN {} ELSE {<<"root", "recursive", rr = "T">>})
                           \cup (IF ar = "U" THEN {} ELSE {<<"a", "recursive", ar = "T">>})
                           \cup (IF br = "U" THEN {} ELSE {<<"ab", "recursive", br = "T">>})
                           \cup (CASE ex = "none" -> {} [] ex = "root-abc" -> {<<"root", "exclude-subpkg-regex", <<"abc">> >>}
                                   [] ex = "ab-abc" -> {<<"ab", "exclude-subpkg-regex", <<"abc">> >>}))
     : rr \in RootRec, ar \in {"U", "T"}, br \in {"U", "T", "F"}, ex \in {"none", "root-abc", "ab-abc"}}

\* SCHEMA: custom file:// template whose schema requires template-data key "need" (a string), data accepted / rejected at
\* file level (the package's map) and per mock (the entry's map); k keeps the built-in template, whose schema forbids the key
TDv(k, v) == (k :> v)
Schema(B) ==
  {Run("schema", "S1", B \cup {<<"a", "template", "needkey">>} \cup D) :
     D \in {{},
            {<<"a", "template-data", TDv("need", "str")>>},
            {<<"a.A1", "template-data", TDv("need", "str")>>},
            {<<"a", "template-data", TDv("need", "str")>>, <<"a.A1.2", "template-data", TDv("need", "int")>>},
            {<<"a", "template-data", TDv("need", "str")>>, <<"a.A1.1", "template-data", TDv("extra", "str")>>},
            {<<"root", "template-data", TDv("need", "str")>>},
            {<<"a", "template-data", TDv("need", "int")>>, <<"a.A1", "template-data", TDv("need", "str")>>}}}
\* PER-FILE parameters (template, formatter, force-file-write, require-template-schema-exists) differing between the files of one run
PerFile(B) ==
  {World("perfile", "S1", "run", BaseLay, B \cup {<<"a", "template", "needkey">>, <<"a", "template-data", TDv("need", "str")>>} \cup x.M, x.occ, NoFp, "-") :
     x \in {[M |-> {<<"k", "formatter", "gofmt">>}, occ |-> {}],
            [M |-> {<<"k", "formatter", "nosuchfmt">>}, occ |-> {}],
            [M |-> {<<"a.A1.2", "formatter", "noop">>, <<"k", "template", "matryer">>}, occ |-> {}],
            [M |-> {<<"k", "template", "noschema">>, <<"k", "require-template-schema-exists", FALSE>>}, occ |-> {}],
            [M |-> {<<"k", "template", "noschema">>}, occ |-> {}],
            [M |-> {<<"a.A1.1", "template", "ok">>, <<"k.K1", "force-file-write", TRUE>>}, occ |-> FilesOf(B)],
            [M |-> {<<"a.A1.1", "template", "ok">>, <<"a.A1.1", "force-file-write", TRUE>>, <<"root", "require-template-schema-exists", FALSE>>,
                    <<"a", "require-template-schema-exists", TRUE>>}, occ |-> FilesOf(B)]}}

\* CONFIG KINDS: an empty config file, a config file without `packages`
CfgKinds ==
  {[World("config-kind", "S1", argv, BaseLay, x.T, {}, NoFp, "-") EXCEPT !.cfgkind = x.kind] :
     argv \in {"run", "showconfig"},
     x \in {[kind |-> "empty", T |-> {}], [kind |-> "empty", T |-> {<<"env", "all", TRUE>>, <<"flag", "log-level", "debug">>}],
            [kind |-> "nopackages", T |-> {<<"root", "all", TRUE>>, <<"root", "structname", SN("root")>>, <<"root", "recursive", TRUE>>}]}}

\* FS: pre-existing output files x force-file-write at root / package level
Force(v) == CASE v = "U" -> {} [] v = "rootT" -> {<<"root", "force-file-write", TRUE>>} [] v = "aT" -> {<<"a", "force-file-write", TRUE>>}
              [] v = "rootT-aF" -> {<<"root", "force-file-write", TRUE>>, <<"a", "force-file-write", FALSE>>}
OneFile(S) == CHOOSE f \in S : \A g \in S : Len(f) <= Len(g)
FsWorlds(B, OccSets) ==
  {World("fs", "S1", "run", BaseLay, B \cup Force(v), occ, NoFp, "-") : v \in {"U", "rootT", "aT", "rootT-aF"}, occ \in OccSets}

\* FAULT: one fault per world
TFaults == {"noschema", "needkey", "badexec", "badfmt", "ok"}
Fault(B) ==
  {Run("fault-template", "S1", B \cup {<<n, "template", t>>}) : t \in TFaults, n \in {"root", "a", "k"}}
  \cup {World("fault-failpoint", "S1", "run", BaseLay, B, {}, [point |-> pt, key |-> f], "-") : pt \in {"mkdir", "stat", "write"}, f \in FilesOf(B)}
  \cup {Run("fault-missing", "S3", B \cup A) : A \in {{}, {<<"k", "all", TRUE>>}}}
  \cup {World("fault-input", "S1", "run", BaseLay, B, {}, NoFp, pf) : pf \in {"parse-error", "unknown-key", "nocfg"}}
  \cup {Run("fault-cyclic", "S1", B \cup {<<"a.A1.1", "structname", <<Var("StructName"), Lit("x")>> >>})}
  \cup {Run("fault-conflict-template", "S1", Bg3 \cup {<<"a.A1", "filename", FN("a.A1")>>, <<"a.A1.1", "template", "matryer">>}),
        Run("fault-conflict-pkgname", "S1", Bg3 \cup {<<"a.A1", "filename", FN("a.A1")>>, <<"a.A1.1", "pkgname", <<Lit("other")>> >>}),
        Run("fault-conflict-srcpkg", "S1", {<<"root", "all", TRUE>>, <<"root", "dir", "up">>} \cup E2)}
  \cup {Run("dir-forms", "S1", B \cup {<<n, "dir", d>>}) : n \in {"root", "a"}, d \in {"mocks", "up"}}
  \cup {Run("loglevel", "S1", B \cup {<<n, "log-level", v>>}) : n \in {"env", "root", "flag"}, v \in {"debug", "error", "bogus"}}

\* SOURCES: defaults < MOCKERY_* < file < flags for the top level
Sources(B) ==
  {Run("sources", "S1", B \cup {<<n, "structname", SN(n)>> : n \in S}
                          \cup {<<n, "log-level", IF n = "env" THEN "debug" ELSE IF n = "root" THEN "warn" ELSE "error">> : n \in L})
     : S \in SUBSET {"env", "root"}, L \in {{}, {"env"}, {"env", "root"}, {"env", "root", "flag"}, {"root", "flag"}}}
  \cup {Run("sources", "S2", {<<"env", "all", TRUE>>} \cup PerI \cup A) : A \in {{}, {<<"a", "all", FALSE>>}}}

\* BUILD TAGS: K2 of package k lives behind `//go:build extra`; build-tags / MOCKERY_BUILD_TAGS at the top level
BuildTags(B) ==
  {[Run("build-tags", "S1", B \cup {<<"k", "all", TRUE>>} \cup T) EXCEPT !.tagged = TRUE] :
     T \in {{}, {<<"root", "build-tags", "extra">>}, {<<"env", "build-tags", "extra">>}, {<<"root", "build-tags", "other">>},
            {<<"env", "build-tags", "other">>, <<"root", "build-tags", "extra">>}}}
  \cup {[World("build-tags", "S1", "showconfig", BaseLay, B \cup {<<"env", "build-tags", "extra">>}, {}, NoFp, "-") EXCEPT !.tagged = TRUE]}

\* COMMANDS that are not the default command, over healthy and broken configurations
Commands(B) ==
  {World("command", "S1", argv, BaseLay, T, occ, NoFp, "-") :
     argv \in {"showconfig", "version", "help", "badflag", "badcmd", "completion", "helpcmd"},
     T \in {B, B \cup {<<n, "structname", SN(n)>> : n \in Lv4} \cup {<<"root", "log-level", "bogus">>}},
     occ \in {{}, FilesOf(B)}}
  \cup {World("command", "S1", "showconfig", BaseLay, B, {}, NoFp, pf) : pf \in {"unknown-key", "nocfg", "parse-error"}}
  \cup {World("command", "S1", "showconfig", BaseLay, x.T, {}, NoFp, "-") :
          x \in {[T |-> {<<"root", "all", TRUE>>, <<"root", "recursive", TRUE>>} \cup E2],
                 [T |-> B \cup {<<"a", "exclude-subpkg-regex", <<"ab">> >>}],
                 [T |-> {<<"a", "recursive", TRUE>>, <<"env", "all", TRUE>>, <<"env", "structname", SN("env")>>} \cup E2],
                 [T |-> B \cup {<<"env", "structname", SN("env")>>, <<"env", "log-level", "debug">>, <<"flag", "log-level", "error">>,
                               <<"env", "build-tags", "extra">>}]}}

\* CONTAINER: the directory of package a holds no Go files of its own, only its sub-packages (shape S2: nothing listed in a)
Container ==
  {[World("container", "S2", argv, BaseLay, {<<"root", "all", TRUE>>, <<"a", "structname", SN("a")>>} \cup T, {}, NoFp, "-") EXCEPT !.container = TRUE] :
     argv \in {"run", "showconfig"},
     T \in {{<<"a", "recursive", TRUE>>}, {}, {<<"root", "recursive", TRUE>>}, {<<"a", "recursive", FALSE>>, <<"root", "recursive", TRUE>>},
            {<<"a", "recursive", TRUE>>, <<"a", "exclude-subpkg-regex", <<"ab">> >>},
            {<<"a", "recursive", TRUE>>, <<"a", "exclude-subpkg-regex", <<"ab", "abc">> >>}}}

\* ENVIRONMENT: MOCKERY_<PARAM> for every scalar parameter -- alone (env beats the default) and against the config file
\* (the file beats env); booleans in every spelling the code recognises, and one it does not
EnvVals == [p \in {"all"} |-> <<TRUE, FALSE>>] @@ [p \in {"recursive"} |-> <<FALSE, TRUE>>] @@ [p \in {"force-file-write"} |-> <<TRUE, FALSE>>]
           @@ [p \in {"require-template-schema-exists"} |-> <<FALSE, TRUE>>]
           @@ [p \in {"dir"} |-> <<"mocks", "up">>] @@ [p \in {"filename"} |-> <<FN("env"), FN("root")>>]
           @@ [p \in {"structname"} |-> <<SN("env"), SN("root")>>] @@ [p \in {"pkgname"} |-> << <<Lit("envpkg")>>, <<Lit("filepkg")>> >>]
           @@ [p \in {"template"} |-> <<"matryer", "testify">>] @@ [p \in {"formatter"} |-> <<"gofmt", "noop">>]
           @@ [p \in {"include-interface-regex"} |-> <<{"A2", "K2"}, {"B1"}>>] @@ [p \in {"exclude-interface-regex"} |-> <<{"A2"}, {"K2"}>>]
           @@ [p \in {"log-level"} |-> <<"debug", "error">>] @@ [p \in {"build-tags"} |-> <<"extra", "other">>]
EnvBase(p) == CASE p \in {"all", "recursive"} -> {<<"a", "exclude-subpkg-regex", <<"abc">> >>} \cup E2 \cup (IF p = "all" THEN {<<"a", "recursive", TRUE>>} ELSE {<<"a", "all", TRUE>>})
                [] p = "require-template-schema-exists" -> Bg3 \cup {<<"k", "template", "noschema">>}
                [] p \in {"include-interface-regex", "exclude-interface-regex"} -> {<<"a", "recursive", TRUE>>, <<"a", "exclude-subpkg-regex", <<"abc">> >>,
                                                                                   <<"k", "include-interface-regex", {"K1", "K2"}>>} \cup E2
                [] p = "build-tags" -> Bg3 \cup {<<"k", "all", TRUE>>}
                [] OTHER -> Bg3
EnvParams(Spells) ==
  UNION {{[World("env", "S1", "run", BaseLay, EnvBase(p) \cup {<<"env", p, EnvVals[p][1]>>} \cup F, IF p = "force-file-write" THEN FilesOf(Bg3) ELSE {}, NoFp, "-")
            EXCEPT !.tagged = (p = "build-tags"), !.envspell = sp]
           : F \in {{}, {<<"root", p, EnvVals[p][2]>>}}, sp \in IF p \in BoolParams THEN Spells ELSE {"lower"}} : p \in DOMAIN EnvVals}
  \cup {Run("env", "S1", Bg4 \cup {<<"env", "exclude-subpkg-regex", <<"abc">> >>} \cup F) : F \in {{}, {<<"root", "exclude-subpkg-regex", <<"ab">> >>}}}
  \cup {[World("env", "S1", "showconfig", BaseLay, Bg3 \cup {<<"env", "all", TRUE>>, <<"env", "formatter", "gofmt">>}, {}, NoFp, "-") EXCEPT !.envspell = sp] : sp \in Spells}

\* INIT and MIGRATE: the two commands that write a configuration file (target present / absent; --outfile)
InitMigrate(B) ==
  {World("init", "S1", "init", BaseLay, B, occ, NoFp, pf) : occ \in {{}, FilesOf(B)}, pf \in {"-", "nocfg"}}
  \cup {[World("migrate", "S1", "migrate", BaseLay, B, {}, NoFp, pf) EXCEPT !.mout = mo] : pf \in {"-", "nocfg"}, mo \in {"default", "rel"}}

\* LOCATE: where the config file is and how it is found (Layout.tla), with a decoy that must not be used
\* (working directories reached through a symbolic link -- Layout's via -- are C11's; here the physical spelling only)
Lays(Modes, Cwds) == {l \in LY!AllLayouts : l.via = "phys" /\ l.mode \in Modes /\ l.cwd \in Cwds /\ l.cfgdir \in {<< >>, <<"w">>} /\ l.mode # "search_both"
                                             /\ l.decoy \in {LY!NoDecoy, << >>, <<"w">>, <<"w", "a">>}}
Locate(B, Modes, Cwds, Argvs) ==
  {World("locate", "S1", argv, l, B \cup {<<"root", "structname", SN("root")>>}, {}, NoFp, "-") : l \in Lays(Modes, Cwds), argv \in Argvs}

AllModes == LY!Modes \ {"search_both"}
Quick == Levels({{}}) \cup CrossRef({{}, {"a.A1.1"}}) \cup SelectW({"S1"}, {{}, {"A1", "A2", "B1"}}, {}) \cup SelectW({"S2"}, {{}}, {})
         \cup Recur({FALSE}, {}, <<"ab">>) \cup Recur2({}, {"U"}) \cup Schema(BgS) \cup PerFile(BgS) \cup CfgKinds \cup FsWorlds(Bg3, {{}, {OneFile(FilesOf(Bg3))}, FilesOf(Bg3)}) \cup Fault(Bg3) \cup Sources(Bg3) \cup BuildTags(Bg3)
         \cup Commands(Bg3) \cup InitMigrate(Bg3) \cup Container \cup EnvParams({"lower", "upper", "one"}) \cup Locate(Bg3, AllModes, {<<"w", "a">>}, {"run"})
         \cup Locate(Bg3, {"search_yml", "flag_rel", "env_abs", "flagenv_abs"}, {<<"w">>}, {"showconfig"})
MCTiny     == {Run("tiny", "S1", Bg5)}
MCQuick    == {x \in Quick : WellFormed(x)}
=============================================================================
