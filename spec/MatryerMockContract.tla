------------------------ MODULE MatryerMockContract ------------------------
(***************************************************************************)
(* C04, contract layer: what property C04 says about ONE step of a         *)
(* matryer-style mock, as pure predicates over                             *)
(*   the state before the step  (funcs: method -> function id or "nil",    *)
(*                               logs:  method -> sequence of records),    *)
(*   the step's observation e   (operation, reply, what every MFunc        *)
(*                               invocation saw, MCalls() of every method  *)
(*                               and nil-ness of every MFunc afterwards).  *)
(* No variables here: MatryerMock.tla (code-shaped layer) is checked by    *)
(* TLC to satisfy these predicates on every step, and MatryerMockTrace.tla *)
(* judges op logs recorded from freshly generated real mocks with the very *)
(* same predicates.                                                        *)
(*                                                                         *)
(* Abstract values.  An argument is a sequence of codes: <<c>> for an      *)
(* ordinary parameter, <<c1..cn>> for the variadic one.  A record is the   *)
(* sequence of the arguments in parameter order.  Results are codes, 0 is  *)
(* the zero value of whatever type the result has.                         *)
(***************************************************************************)
EXTENDS Naturals, Sequences, FiniteSets

Methods == {"A", "B"}
Nil     == "nil"
FuncIds == {"F1", "F2", "FR", "FP"}   \* table function 1/2, re-entrant function, panicking function
FNum(f) == CASE f = "F1" -> 1 [] f = "F2" -> 2 [] f = "FR" -> 3 [] f = "FP" -> 4 [] OTHER -> 7
InnerTag == 9                          \* tag of the nested call the re-entrant function makes

ArgCode(v, i, j) == 100 * v + 10 * i + j
Args(shape, v, n) ==
  [i \in 1..shape.ar |-> IF shape.var /\ i = shape.ar THEN [j \in 1..n |-> ArgCode(v, i, j)]
                                                      ELSE <<ArgCode(v, i, 0)>>]
InnerArgs(shape) == Args(shape, InnerTag, IF shape.var THEN 1 ELSE 0)

\* the user's function is an abstract table:  (function id, tag of the first argument it SAW) -> results
TagOf(args) == IF Len(args) = 0 THEN 0 ELSE IF Len(args[1]) = 0 THEN 0 ELSE args[1][1] \div 100
Results(f, args, nres) == [i \in 1..nres |-> 1000 * FNum(f) + 10 * TagOf(args) + i]
Zeros(nres) == [i \in 1..nres |-> 0]

Fwd(m, f, args) == [m |-> m, f |-> f, args |-> args]

\* Identity of reference-like arguments.  The table function F1 also WRITES through every reference-like argument it
\* is given (element 0 of a non-empty slice -- the variadic one included, the call is made with a spread slice --, the
\* value of a map key, the target of a pointer): +MutDelta on the first code.  Which non-variadic positions are
\* reference-like is a property of the concrete type set the class is materialised with (RefPositions; the driver
\* re-derives it from the real parameter types and refuses to run on a disagreement).
MutDelta == 5
TypeSetNames == {"ints", "mixed", "rich", "refs", "vals", "tparam"}   \* vals: struct/array/interface params, func/chan/array results; tparam: generic interface
RefPositions(ts) == CASE ts = "rich" -> {1, 2} [] ts = "refs" -> {1, 2, 3} [] OTHER -> {}
\* (the type sets vary method A's signature; B is always B(x int) int)
IsRef(ts, m, shape, i, args) == IF shape.var /\ i = shape.ar THEN Len(args[i]) > 0 ELSE m = "A" /\ i \in RefPositions(ts)
Mut(a) == [a EXCEPT ![1] = @ + MutDelta]
\* the caller's argument objects as the caller sees them after the call
AfterFor(ts, m, shape, f, args) ==
  [i \in 1..Len(args) |-> IF f = "F1" /\ IsRef(ts, m, shape, i, args) THEN Mut(args[i]) ELSE args[i]]

\* A second instance of the same mock type (the "bystander") is called once per method before the history
\* starts; nothing done to the instance under test may change what the bystander recorded.
ByTag == 7
ByArgs(sig) == [m \in Methods |-> Args(sig[m], ByTag, IF sig[m].var THEN 1 ELSE 0)]
ByLogs(sig) == [m \in Methods |-> <<ByArgs(sig)[m]>>]
XArgs == <<<<ArgCode(8, 1, 0)>>>>            \* the one call of the third method X(p int)
XLog0 == <<XArgs>>

---------------------------------------------------------------------------
(* Frame: what no operation other than SetFunc may touch, and what a step  *)
(* on method m may not touch.                                              *)
FuncsUntouched(funcs, e) == \A x \in Methods : e.fnil[x] = (funcs[x] = Nil)
OtherLogsUntouched(logs, e, m) == \A x \in Methods \ {m} : e.logs[x] = logs[x]

(* "MCalls() returns one record per call, in call order" *)
OneRecordPerCallInOrder(sig, opt, funcs, logs, e) ==
  LET m == e.m  f == funcs[m] IN
  /\ OtherLogsUntouched(logs, e, m)
  /\ IF f = Nil /\ ~opt.stub
     THEN \* the statement does not say whether the panicking call is recorded: either
          e.logs[m] = logs[m] \/ e.logs[m] = Append(logs[m], e.args)
     ELSE IF f = "FR"
     THEN e.logs[m] = Append(Append(logs[m], e.args), InnerArgs(sig[m]))     \* outer call first
     ELSE e.logs[m] = Append(logs[m], e.args)

(* "whose fields hold the arguments in parameter order" (the record the call added) *)
FieldsInParameterOrder(sig, opt, funcs, logs, e) ==
  LET m == e.m IN
  Len(e.logs[m]) > Len(logs[m]) =>
     LET rec == e.logs[m][Len(logs[m]) + 1] IN
     /\ Len(rec) = sig[m].ar
     /\ \A i \in 1..sig[m].ar : rec[i] = e.args[i]

(* "invokes the user-supplied MFunc exactly once with exactly the call's arguments" *)
ForwardedExactlyOnce(sig, opt, funcs, logs, e) ==
  LET m == e.m  f == funcs[m] IN
  IF f = Nil THEN e.fwd = << >>
  ELSE IF f = "FR" THEN e.fwd = <<Fwd(m, f, e.args), Fwd(m, f, InnerArgs(sig[m]))>>
  ELSE e.fwd = <<Fwd(m, f, e.args)>>

(* "and returns exactly its results" *)
ResultsAreFuncResults(sig, opt, funcs, logs, e) ==
  LET m == e.m  f == funcs[m]  nres == sig[m].nres IN
  /\ f \in {"F1", "F2", "FR"} => e.reply.kind = "ret" /\ e.reply.res = Results(f, e.args, nres)
  /\ f = "FR" => e.reply.inner = Results(f, InnerArgs(sig[m]), nres)
  \* f = "FP": the property says nothing about a panicking MFunc's reply

(* "with exactly the call's arguments": for reference-like arguments that includes identity -- what MFunc stores
   through a slice, map or pointer it was given is visible through the caller's own value afterwards *)
ArgumentsAreTheCallersObjects(sig, ts, funcs, e) ==
  e.after = AfterFor(ts, e.m, sig[e.m], funcs[e.m], e.args)

(* "When MFunc is nil the call panics with a message naming MFunc, unless stub-impl is set, in which
   case the call is still recorded and zero values are returned" *)
NilFuncContract(sig, opt, funcs, logs, e) ==
  LET m == e.m IN
  funcs[m] = Nil =>
     IF opt.stub THEN /\ e.reply.kind = "ret" /\ e.reply.res = Zeros(sig[m].nres)
                      /\ e.logs[m] = Append(logs[m], e.args)
                 ELSE e.reply.kind = "panic" /\ e.reply.names

CallOK(sig, opt, ts, funcs, logs, e) ==
  /\ FuncsUntouched(funcs, e)
  /\ ArgumentsAreTheCallersObjects(sig, ts, funcs, e)
  /\ OneRecordPerCallInOrder(sig, opt, funcs, logs, e)
  /\ FieldsInParameterOrder(sig, opt, funcs, logs, e)
  /\ ForwardedExactlyOnce(sig, opt, funcs, logs, e)
  /\ ResultsAreFuncResults(sig, opt, funcs, logs, e)
  /\ NilFuncContract(sig, opt, funcs, logs, e)

(* "ResetMCalls and ResetCalls empty the corresponding records and nothing else" *)
ResetEmptiesOnlyItsTarget(sig, opt, funcs, logs, e) ==
  /\ opt.resets                      \* the reset methods exist only with with-resets
  /\ e.reply.kind = "ret"
  /\ e.fwd = << >>
  /\ FuncsUntouched(funcs, e)
  /\ IF e.op = "resetm" THEN e.logs[e.m] = << >> /\ OtherLogsUntouched(logs, e, e.m)
                        ELSE \A x \in Methods : e.logs[x] = << >>

(* assigning the MFunc field is the user's own statement: it changes that field and nothing else *)
SetFuncOK(sig, opt, funcs, logs, e) ==
  /\ e.fwd = << >>
  /\ \A x \in Methods : e.logs[x] = logs[x]
  /\ \A x \in Methods : e.fnil[x] = (IF x = e.m THEN e.f = Nil ELSE funcs[x] = Nil)

\* "... and nothing else": what another mock instance held before the history started (by0) is not touched
OtherInstanceUntouched(by0, e) == e.by = by0

\* The mocked interface has a third method X (declared so that it sorts BETWEEN A and B) that the histories never call:
\* it is called once before the history starts.  xprev = what XCalls() showed after the previous operation; only
\* ResetCalls may change it (it empties ALL records), every other operation -- ResetACalls, ResetBCalls, calls -- must
\* leave it alone ("empty the corresponding records and nothing else").
ThirdMethodFrame(xprev, e) == e.xlog = (IF e.op = "resetall" THEN << >> ELSE xprev)
\* Inside the re-entrant function (FR, on A) the OTHER method's MCalls() is read as well: it shows B's log as it is
\* (a mock that holds some lock across the forwarding call would hang or show something else).
OtherMethodReadableInsideFunc(funcs, logs, e) ==
  (e.op = "call" /\ funcs[e.m] = "FR") => e.reply.seen = <<logs["B"], logs["B"]>>    \* outer and nested invocation

\* A record once returned keeps denoting the same call.  The observer RETAINS results of MCalls() (the returned slice
\* itself, not a copy): after an operation that changed method x's log to a non-empty value it keeps what MxCalls()
\* returned then.  snaps = the retained results so far, as [m, recs] in the order taken (recs = what they showed when
\* taken); e.snaps = the same retained slices re-inspected AFTER operation e.  No operation -- in particular no reset
\* followed by further calls -- may change them ("one record per call ... whose fields hold the arguments";
\* "resets empty the corresponding records and nothing else").
ReturnedRecordsStable(snaps, e) == e.snaps = snaps
SnapOf(logs, e, x) == IF e.logs[x] # logs[x] /\ e.logs[x] # << >> THEN <<[m |-> x, recs |-> e.logs[x]]>> ELSE << >>
SnapsAfter(snaps, logs, e) == snaps \o SnapOf(logs, e, "A") \o SnapOf(logs, e, "B")

StepOK(sig, opt, ts, funcs, logs, by0, snaps, xprev, e) ==
  /\ OtherInstanceUntouched(by0, e)
  /\ ThirdMethodFrame(xprev, e)
  /\ OtherMethodReadableInsideFunc(funcs, logs, e)
  /\ ReturnedRecordsStable(snaps, e)
  /\ CASE e.op = "call"     -> CallOK(sig, opt, ts, funcs, logs, e)
       [] e.op = "resetm"   -> ResetEmptiesOnlyItsTarget(sig, opt, funcs, logs, e)
       [] e.op = "resetall" -> ResetEmptiesOnlyItsTarget(sig, opt, funcs, logs, e)
       [] e.op = "setfunc"  -> SetFuncOK(sig, opt, funcs, logs, e)
       [] OTHER -> FALSE

\* diagnosis only (which clause rejected a step); the verdict is StepOK
FailedClause(sig, opt, ts, funcs, logs, by0, snaps, xprev, e) ==
  IF ~OtherInstanceUntouched(by0, e) THEN "OtherInstanceUntouched"
  ELSE IF ~ThirdMethodFrame(xprev, e) THEN "ThirdMethodFrame"
  ELSE IF ~OtherMethodReadableInsideFunc(funcs, logs, e) THEN "OtherMethodReadableInsideFunc"
  ELSE IF ~ReturnedRecordsStable(snaps, e) THEN "ReturnedRecordsStable"
  ELSE IF e.op = "call" THEN
       LET m == e.m
           grow == Len(e.logs[m]) - Len(logs[m])
           want == IF funcs[m] = "FR" THEN 2 ELSE 1 IN
       IF ~FuncsUntouched(funcs, e) THEN "FuncsUntouched"
       ELSE IF ~NilFuncContract(sig, opt, funcs, logs, e) THEN "NilFuncContract"
       ELSE IF grow # want /\ ~(funcs[m] = Nil /\ ~opt.stub) THEN "OneRecordPerCallInOrder"
       ELSE IF funcs[m] # "FR" /\ ~FieldsInParameterOrder(sig, opt, funcs, logs, e) THEN "FieldsInParameterOrder"
       ELSE IF ~OneRecordPerCallInOrder(sig, opt, funcs, logs, e) THEN "OneRecordPerCallInOrder"
       ELSE IF ~ForwardedExactlyOnce(sig, opt, funcs, logs, e) THEN "ForwardedExactlyOnce"
       ELSE IF ~ArgumentsAreTheCallersObjects(sig, ts, funcs, e) THEN "ArgumentsAreTheCallersObjects"
       ELSE IF ~ResultsAreFuncResults(sig, opt, funcs, logs, e) THEN "ResultsAreFuncResults"
       ELSE "none"
  ELSE IF e.op \in {"resetm", "resetall"} THEN "ResetEmptiesOnlyItsTarget"
  ELSE IF e.op = "setfunc" THEN "SetFuncOK"
  ELSE "UnknownOperation"

---------------------------------------------------------------------------
(* Where the options come from.  skip-ensure / stub-impl / with-resets are keys of `template-data`, which can be       *)
(* written at four configuration levels: the top level of the config file, a package's `config`, an interface's        *)
(* `config`, an entry of the interface's `configs` list.  "all template-data combinations" (C04's quantifier) is about *)
(* the EFFECTIVE value a mock is generated with: per key, the most specific level that writes the key decides, an      *)
(* explicit false as much as an explicit true; a key written nowhere is off.  A placement of ONE switch is the tuple   *)
(* of what each level writes for it, outermost first.                                                                  *)
PlaceLevels == <<"root", "pkg", "iface", "entry">>
PlaceVals   == {"unset", "true", "false"}
EffSwitch(t) == LET set == {i \in 1..Len(t) : t[i] # "unset"} IN
                IF set = {} THEN FALSE ELSE t[CHOOSE i \in set : \A j \in set : j <= i] = "true"
\* the option set the model is run with for a mock whose three switches are placed as pl = [skip, stub, resets |-> tuple]
EffOpts(pl) == [skip |-> EffSwitch(pl.skip), stub |-> EffSwitch(pl.stub), resets |-> EffSwitch(pl.resets)]

FuncsAfter(funcs, e) == IF e.op = "setfunc" THEN [funcs EXCEPT ![e.m] = e.f] ELSE funcs
=============================================================================
