---------------------------- MODULE ConfigSources ----------------------------
(***************************************************************************)
(* C08, source layering of the TOP level:                                  *)
(*     defaults < MOCKERY_* environment < config file < command-line flags *)
(*                                                                         *)
(* Contract: TopValue / ConfigFileUsed.  Code-shaped layer: NewRootConfig  *)
(* (config/config.go:119-227) as the sequence                              *)
(*   Defaults   koanf.Load(structs.Provider(defaults))              :143   *)
(*   Locate     --config, else MOCKERY_CONFIG, else search          :152-172 *)
(*   LoadEnv    env.ProviderWithValue("MOCKERY_")                   :175   *)
(*   LoadFile   file.Provider(located file)                         :204   *)
(*   LoadFlags  posflag.Provider(flags, ".", k): a flag overrides iff it   *)
(*              was given; an absent flag contributes its DEFAULT only if  *)
(*              the key is still missing.  The default of --log-level is   *)
(*              $MOCKERY_LOG_LEVEL (cmd/mockery.go:54)                :209   *)
(* Three parameter classes: "log-level" (env + file + flag), "config" (env *)
(* + flag; the file cannot name itself), "scalar" (env + file, no flag:    *)
(* dir, template, ...).                                                    *)
(***************************************************************************)
EXTENDS Naturals, Sequences, FiniteSets, TLC, Json

CONSTANT EnvBeforeFlag    \* TRUE re-creates the repaired defect D18 (MOCKERY_CONFIG consulted before --config)

Params == {"log-level", "scalar", "config"}
Sources == {"env", "file", "flag"}
HasSource(p, s) == CASE p = "scalar" -> s # "flag" [] p = "config" -> s # "file" [] OTHER -> TRUE

VARIABLES
  given,     \* [param -> subset of Sources that set it]; the value a source gives is the source's name (marker)
  k,         \* koanf: [param -> marker]  (partial)
  located,   \* which config file is read: "flag" | "env" | "search" | ""
  pc

vars == <<given, k, located, pc>>

-----------------------------------------------------------------------------
(* Contract *)
TopValue(g, p) == IF "flag" \in g[p] THEN "flag" ELSE IF "file" \in g[p] THEN "file" ELSE IF "env" \in g[p] THEN "env" ELSE "default"
ConfigFileUsed(g) == IF "flag" \in g["config"] THEN "flag" ELSE IF "env" \in g["config"] THEN "env" ELSE "search"

-----------------------------------------------------------------------------
(* Code-shaped *)
Init == /\ given \in {g \in [Params -> SUBSET Sources] : \A p \in Params : \A s \in g[p] : HasSource(p, s)}
        /\ k = << >> /\ located = "" /\ pc = "defaults"

Defaults == /\ pc = "defaults"
            /\ k' = [p \in {"log-level", "scalar"} |-> "default"]       \* `config` has no default entry
            /\ pc' = "locate" /\ UNCHANGED <<given, located>>

\* config.go:152-172 -- the flag, then the environment variable, then the upward search
Locate == /\ pc = "locate"
          /\ located' = IF EnvBeforeFlag
                         THEN IF "env" \in given["config"] THEN "env" ELSE IF "flag" \in given["config"] THEN "flag" ELSE "search"
                         ELSE IF "flag" \in given["config"] THEN "flag" ELSE IF "env" \in given["config"] THEN "env" ELSE "search"
          /\ pc' = "env" /\ UNCHANGED <<given, k>>

Override(f, g) == [p \in DOMAIN f \cup DOMAIN g |-> IF p \in DOMAIN g THEN g[p] ELSE f[p]]

LoadEnv == /\ pc = "env"
           /\ k' = Override(k, [p \in {q \in Params : "env" \in given[q]} |-> "env"])
           /\ pc' = "file" /\ UNCHANGED <<given, located>>

LoadFile == /\ pc = "file"
            /\ k' = Override(k, [p \in {q \in Params : "file" \in given[q]} |-> "file"])
            /\ pc' = "flags" /\ UNCHANGED <<given, located>>

\* posflag with the koanf instance: changed flags always, unchanged flags only for missing keys
FlagDefault(p) == IF p = "log-level" /\ "env" \in given[p] THEN "env" ELSE "empty"
LoadFlags == /\ pc = "flags"
             /\ k' = Override(k, [p \in {q \in {"log-level", "config"} : "flag" \in given[q] \/ q \notin DOMAIN k} |->
                                    IF "flag" \in given[p] THEN "flag" ELSE FlagDefault(p)])
             /\ pc' = "done" /\ UNCHANGED <<given, located>>

Next == Defaults \/ Locate \/ LoadEnv \/ LoadFile \/ LoadFlags
Spec == Init /\ [][Next]_vars

-----------------------------------------------------------------------------
\* INVARIANT (holds): the layered value of every parameter that is read from koanf
LayeringOK == pc = "done" => \A p \in {"log-level", "scalar"} : k[p] = TopValue(given, p)
\* INVARIANT (holds; violated with EnvBeforeFlag = TRUE): the config file that is read
ConfigFileOK == pc = "done" => located = ConfigFileUsed(given)

\* export: one replay case per combination of the sources naming a config file
Emit == IF pc = "defaults" /\ given["log-level"] = {} /\ given["scalar"] = {}
        THEN PrintT(<<"CASE", ToJson([given |-> given["config"], expect |-> ConfigFileUsed(given)])>>) ELSE TRUE
=============================================================================
