----------------------------- MODULE Selection -----------------------------
(***************************************************************************)
(* C07 -- within a configured package, exactly the configured interfaces   *)
(* are mocked, once per `configs` entry.                                   *)
(*                                                                         *)
(* A case is one package configuration:                                    *)
(*   R   what the top level of .mockery.yml says about all /               *)
(*       include-interface-regex / exclude-interface-regex                 *)
(*   P   what packages.<pkg>.config says about them (Unset = not written)  *)
(*   L   the `interfaces:` section: a sequence of                          *)
(*         [name, form, n]  form in {"null","config","configs"},           *)
(*                          n = number of entries of `configs:`            *)
(* over one fixed package whose declarations are the constant Decls        *)
(* (every declaration kind at once, see Discovery.tla).                    *)
(*                                                                         *)
(* Contract layer  : Selected / ContractMocks / ContractExit  (the         *)
(*                   property, order free, nothing about HOW).             *)
(* Code-shaped     : Parse (AST walk + scope lookup), SelectStep (one      *)
(*                   iteration of the loop at internal/cmd/mockery.go      *)
(*                   240-307: ShouldGenerateInterface as its chain of      *)
(*                   early returns, GetInterfaceConfig, the loop over      *)
(*                   Configs), Missing accounting.                         *)
(* TLC checks Impl => Contract on every case and exports each case with    *)
(* the contract's expectation; the harness replays them on the binary.     *)
(***************************************************************************)
EXTENDS Discovery, TLC, Json

CONSTANTS Decls,          \* sequence of declarations of the package under test
          PatVals,        \* sequence of pattern values (may contain "" = written but empty)
          Match,          \* [pattern -> [name -> BOOLEAN]]  (Go regexp.MatchString; recomputed by the harness)
          ListedVariants  \* set of `interfaces:` sections

Unset == "<unset>"

VARIABLES R, P, L,        \* the case
          pcs,            \* "parse" | "select" | "done"
          cands,          \* candidate names in source order (output of ParsePackages)
          i,              \* next candidate
          mocks,          \* sequence of [iface, entry] generated so far (entry 0 = no `configs` list)
          sel             \* sequence of [iface, gen]: decisions taken (the Select hook)

vars == <<R, P, L, pcs, cands, i, mocks, sel>>

Max(a, b) == IF a >= b THEN a ELSE b
PatSet == SeqToSet(PatVals)

\* TLC evaluates zero-arity constant definitions once, but re-evaluates a constant overridden with `<-`
\* on every reference: everything derived from the constants goes through these cached tables.
TheDecls   == Decls
MatchT     == Match
RECURSIVE PkgNamesFrom(_)
PkgNamesFrom(j) == IF j > Len(TheDecls) THEN << >>
                   ELSE (IF TheDecls[j].scope = "pkg" THEN <<TheDecls[j].name>> ELSE << >>) \o PkgNamesFrom(j + 1)
PkgNameSeq == PkgNamesFrom(1)                        \* package-level names in source order
AllNames   == {TheDecls[j].name : j \in 1..Len(TheDecls)} \cup UNION {{v[j].name : j \in 1..Len(v)} : v \in ListedVariants}
ClassOf    == [n \in AllNames |-> NameClass(TheDecls, n)]
CandSeq    == ImplCandidates(TheDecls, 1)

\* ------------------------------------------------------------------ effective configuration (inheritance)
Eff(k, default) == IF P[k] # Unset THEN P[k] ELSE IF R[k] # Unset THEN R[k] ELSE default
EffAll == Eff("all", "F") = "T"
EffInc == Eff("inc", "")
EffExc == Eff("exc", "")
Listed == {L[j].name : j \in 1..Len(L)}
LEntry(n) == L[CHOOSE j \in 1..Len(L) : L[j].name = n]
NEntries(n) == IF n \in Listed /\ LEntry(n).form = "configs" THEN LEntry(n).n ELSE 0

\* ------------------------------------------------------------------ contract (property C07)
Selected(n) ==
  \/ EffAll
  \/ n \in Listed
  \/ (EffInc # "" /\ MatchT[EffInc][n] /\ ~(EffExc # "" /\ MatchT[EffExc][n]))

Why(n) == IF EffAll THEN "all"
          ELSE IF n \in Listed THEN "listed"
          ELSE IF EffInc = "" THEN (IF EffExc = "" THEN "no:noinc" ELSE "no:exc-without-inc")
          ELSE IF ~MatchT[EffInc][n] THEN "no:nomatch"
          ELSE IF EffExc = "" THEN "regex"
          ELSE IF MatchT[EffExc][n] THEN "no:excluded" ELSE "regex:not-excluded"

MocksPerInterface(n) == Max(1, NEntries(n))
EntriesOf(n) == IF NEntries(n) = 0 THEN <<0>> ELSE [k \in 1..NEntries(n) |-> k]

RECURSIVE ContractMocksFrom(_)
ContractMocksFrom(names) ==
  IF names = << >> THEN << >>
  ELSE LET n == Head(names) IN
       (IF ClassOf[n] = "yes" /\ Selected(n)
        THEN [k \in 1..MocksPerInterface(n) |-> [iface |-> n, entry |-> EntriesOf(n)[k]]]
        ELSE << >>) \o ContractMocksFrom(Tail(names))
ContractMocks == ContractMocksFrom(PkgNameSeq)

\* names for which the statement leaves it open whether they are interfaces: 0 mocks, or the full count
FreeNames == {n \in SeqToSet(PkgNameSeq) : ClassOf[n] = "free"}
FreeAllowance == [n \in FreeNames |-> IF Selected(n) THEN MocksPerInterface(n) ELSE 0]

\* exit status: the statement promises the mocks; it promises success only when nothing configured is absent
ContractExit == IF \A n \in Listed : ClassOf[n] = "yes" THEN "zero" ELSE "any"

\* ------------------------------------------------------------------ code-shaped
\* config.go:499-546, as its chain of early returns
ImplSelected(n) ==
  IF EffAll THEN TRUE
  ELSE IF n \in Listed THEN TRUE
  ELSE IF EffInc = "" THEN FALSE
  ELSE IF ~MatchT[EffInc][n] THEN FALSE
  ELSE IF EffExc = "" THEN TRUE
  ELSE IF MatchT[EffExc][n] THEN FALSE
  ELSE TRUE

\* config.go:481-497 + 560-570: a listed interface carries its Configs (Initialize turned an empty list
\* into the single `config`), an unlisted one gets one deep copy of the package config
ImplEntries(n) ==
  IF n \in Listed THEN (IF LEntry(n).form = "configs" /\ LEntry(n).n > 0 THEN [k \in 1..LEntry(n).n |-> k] ELSE <<0>>)
  ELSE <<0>>

Decoy(vals, v) == LET idx == CHOOSE j \in 1..Len(vals) : vals[j] = v IN vals[(idx % Len(vals)) + 1]
ParamSpace(vals) ==
  {[lvl |-> "none", val |-> Unset]} \cup {[lvl |-> l, val |-> vals[j]] : l \in {"root", "pkg", "both"}, j \in 1..Len(vals)}
RootVal(p, vals) == IF p.lvl = "root" THEN p.val ELSE IF p.lvl = "both" THEN Decoy(vals, p.val) ELSE Unset
PkgVal(p) == IF p.lvl \in {"pkg", "both"} THEN p.val ELSE Unset

AllVals == <<"T", "F">>

Init ==
  /\ \E a \in ParamSpace(AllVals), ic \in ParamSpace(PatVals), ex \in ParamSpace(PatVals) :
       /\ R = [all |-> RootVal(a, AllVals), inc |-> RootVal(ic, PatVals), exc |-> RootVal(ex, PatVals)]
       /\ P = [all |-> PkgVal(a), inc |-> PkgVal(ic), exc |-> PkgVal(ex)]
  /\ L \in ListedVariants
  /\ pcs = "parse" /\ cands = << >> /\ i = 1 /\ mocks = << >> /\ sel = << >>

\* internal/parse.go: ParsePackages
Parse == /\ pcs = "parse"
         /\ cands' = CandSeq
         /\ pcs' = "select"
         /\ UNCHANGED <<R, P, L, i, mocks, sel>>

\* internal/cmd/mockery.go:240-307, one iteration
SelectStep ==
  /\ pcs = "select" /\ i <= Len(cands)
  /\ LET n == cands[i]
         g == ImplSelected(n)
         es == ImplEntries(n) IN
       /\ sel' = Append(sel, [iface |-> n, gen |-> g])
       /\ mocks' = IF g THEN mocks \o [k \in 1..Len(es) |-> [iface |-> n, entry |-> es[k]]] ELSE mocks
  /\ i' = i + 1
  /\ UNCHANGED <<R, P, L, pcs, cands>>

Finish == /\ pcs = "select" /\ i > Len(cands)
          /\ pcs' = "done"
          /\ UNCHANGED <<R, P, L, cands, i, mocks, sel>>

Next == Parse \/ SelectStep \/ Finish
Spec == Init /\ [][Next]_vars

\* internal/cmd/mockery.go:209-222,247-253,380-394
ImplMissing == {n \in Listed : Count(cands, n) = 0}
ImplExit == IF ImplMissing = {} THEN 0 ELSE 1

\* ------------------------------------------------------------------ Impl => Contract
Bag(s) == [x \in SeqToSet(s) |-> Count(s, x)]
StrictPart(s) == SelectSeq(s, LAMBDA m : ClassOf[m.iface] # "free")
FreePart(s, n) == Cardinality({j \in 1..Len(s) : s[j].iface = n})

ImplRefinesContract ==
  pcs = "done" =>
    /\ Bag(StrictPart(mocks)) = Bag(ContractMocks)
    /\ \A n \in FreeNames : FreePart(mocks, n) \in {0, FreeAllowance[n]}
    /\ ContractExit = "zero" => ImplExit = 0
TypeOK == pcs \in {"parse", "select", "done"} /\ i \in 1..(Len(cands) + 1)

\* ------------------------------------------------------------------ export
Reasons == [n \in {x \in SeqToSet(PkgNameSeq) : ClassOf[x] = "yes"} |-> Why(n)]
CaseRec == [R |-> R, P |-> P, L |-> L,
            expect |-> [mocks |-> ContractMocks, free |-> FreeAllowance, exit |-> ContractExit, why |-> Reasons],
            impl |-> [mocks |-> mocks, exit |-> ImplExit]]
Emit == IF pcs = "done" THEN PrintT(<<"CASE", ToJson(CaseRec)>>) ELSE TRUE
=============================================================================
