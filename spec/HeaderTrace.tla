---------------------------- MODULE HeaderTrace ----------------------------
(***************************************************************************)
(* C17, code -> spec.  One concatenated trace of every mockery run of the  *)
(* check:                                                                  *)
(*   run  (harness) : the output files the run was configured to produce,  *)
(*                    with their template and formatter                    *)
(*   Collect, FileBegin, Stage, Write, Exit : hook events (build tag verif)*)
(*   hdr  (harness) : for one written file -- the header as a sequence of  *)
(*                    line classes (drivers/header), what go/ast said      *)
(*                    (IsGenerated), what `go list -tags` said under the    *)
(*                    four tag assignments on every platform it was asked  *)
(*                    on (inclenv: platform -> assignment -> listed; the   *)
(*                    host always), whether the boilerplate bytes          *)
(*                    are a contiguous block before the package clause     *)
(* The pipeline events must be the run the case asked for, otherwise the   *)
(* trace is not consumed.  For every hdr event TLC prints                  *)
(*   ok   : the CONTRACT (HeaderContract!Demands) accepts what the         *)
(*          toolchain reported;                                            *)
(*   rule : Go's rules as written in HeaderContract.tla, applied to the    *)
(*          observed lines, agree with what the toolchain reported         *)
(*          (a disagreement means the abstraction is wrong: exit 2).       *)
(***************************************************************************)
EXTENDS HeaderContract

Trace == ndJsonDeserialize("trace.ndjson")

VARIABLES l, expect, cur, stage, written, exited
tvars == <<l, expect, cur, stage, written, exited>>

Ev == Trace[l]
IsEvent(e) == l <= Len(Trace) /\ Trace[l].ev = e /\ l' = l + 1
StageNo(s) == CASE s = "template" -> 1 [] s = "schema" -> 2 [] s = "exec" -> 3 [] s = "format" -> 4 [] OTHER -> 99

TraceInit == l = 1 /\ expect = << >> /\ cur = "" /\ stage = 0 /\ written = {} /\ exited = FALSE

RunEv ==
  /\ IsEvent("run")
  /\ expect' = [f \in {Ev.files[i].file : i \in 1..Len(Ev.files)} |->
                  LET r == CHOOSE i \in 1..Len(Ev.files) : Ev.files[i].file = f
                  IN [template |-> Ev.files[r].template, formatter |-> Ev.files[r].formatter]]
  /\ cur' = "" /\ stage' = 0 /\ written' = {} /\ exited' = FALSE
CollectEv ==
  /\ IsEvent("Collect") /\ ~exited
  /\ Ev.file \in DOMAIN expect /\ Ev.template = expect[Ev.file].template
  /\ UNCHANGED <<expect, cur, stage, written, exited>>
FileBeginEv ==
  /\ IsEvent("FileBegin") /\ ~exited /\ cur = ""     \* the previous file was written
  /\ Ev.file \in DOMAIN expect /\ Ev.file \notin written
  /\ cur' = Ev.file /\ stage' = 0
  /\ UNCHANGED <<expect, written, exited>>
StageEv ==
  /\ IsEvent("Stage") /\ ~exited /\ cur # ""
  /\ Ev.ok = TRUE
  /\ StageNo(Ev.stage) = stage + 1
  /\ (Ev.stage = "template" => Ev.template = expect[cur].template)
  /\ (Ev.stage = "format" => Ev.formatter = expect[cur].formatter)
  /\ stage' = stage + 1
  /\ UNCHANGED <<expect, cur, written, exited>>
WriteEv ==
  /\ IsEvent("Write") /\ ~exited
  /\ Ev.file = cur /\ stage = 4
  /\ written' = written \cup {cur} /\ cur' = "" /\ stage' = 0
  /\ UNCHANGED <<expect, exited>>
ExitEv ==
  /\ IsEvent("Exit") /\ ~exited
  /\ Ev.code = 0 /\ written = DOMAIN expect
  /\ exited' = TRUE
  /\ UNCHANGED <<expect, cur, stage, written>>

\* Go's rules on the observed lines vs. what go/ast and `go list` reported
RuleAgrees(e) ==
  /\ GeneratedByRule(e.lines) = e.gen
  /\ (RuleDecides(e.lines) => /\ VerbatimByRule(e.lines, e.boiler) = e.verbatim
                              /\ \A v \in DOMAIN e.inclenv : \A n \in AsgNames : IncludedByRule(e.lines, n) = e.inclenv[v][n])

HdrEv ==
  /\ IsEvent("hdr") /\ exited
  /\ Ev.file \in written
  /\ PrintT(<<"OBSV", ToJson([case |-> Ev.case, ok |-> DemandsEnv(Ev.expr, Ev.gen, Ev.verbatim, Ev.inclenv),
                              rule |-> RuleAgrees(Ev), decides |-> RuleDecides(Ev.lines)])>>)
  /\ UNCHANGED <<expect, cur, stage, written, exited>>

OtherEv ==
  /\ l <= Len(Trace)
  /\ Trace[l].ev \in {"InitBegin", "InitPkg", "InitEnd", "Parsed", "Select", "ResolveIter", "Resolved", "Generated", "Exists"}
  /\ l' = l + 1
  /\ UNCHANGED <<expect, cur, stage, written, exited>>

TraceNext == RunEv \/ CollectEv \/ FileBeginEv \/ StageEv \/ WriteEv \/ ExitEv \/ HdrEv \/ OtherEv
TraceSpec == TraceInit /\ [][TraceNext]_tvars

Consumed == TLCGet("stats").diameter - 1
TraceAccepted == PrintT(<<"CONSUMED", Consumed, Len(Trace)>>) /\ Consumed = Len(Trace)
=============================================================================
