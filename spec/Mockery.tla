------------------------------ MODULE Mockery ------------------------------
(***************************************************************************)
(* ROOT of the specification: one whole run of the `mockery` binary as ONE *)
(* state machine (DESIGN.md 2.1).                                          *)
(*                                                                         *)
(*   main.go -> internal/cmd/mockery.go  NewRootCmd / Execute (cobra)      *)
(*     Start          which command: default | showconfig | version | help *)
(*                    | init | migrate | unknown flag | unknown sub-command *)
(*                                                        mockery.go:26-61 *)
(*     InitCmd        `init <pkg>`: O_EXCL create of the target  init.go   *)
(*     MigrateCmd     `migrate`: v2 file found -> --outfile     migrate.go *)
(*     LoadSources    NewRootConfig: locate the config file (--config,     *)
(*                    MOCKERY_CONFIG, upward search), defaults < MOCKERY_* *)
(*                    < file < flags                     config.go:120-226 *)
(*     Initialize     InitBegin, InitPkg (Go map range), sort deepest      *)
(*                    first, Recursive, Exclude / Inject, InitEnd          *)
(*                    -- TWICE: config.go:234 and mockery.go:183           *)
(*     ShowConfig     prints the table after the FIRST pass  showconfig.go *)
(*     RunStart       logger from the effective log-level  mockery.go:175  *)
(*     Parse          packages.Load of the table (a Go map range decides   *)
(*                    the package order)                   parse.go:42-121 *)
(*     Select         ShouldGenerateInterface            config.go:510-557 *)
(*     RIter/Resolved ParseTemplates fixpoint            config.go:665-758 *)
(*     Collect        InterfaceCollection.Append        mockery.go:134-170 *)
(*     FileBegin .. Write   per output file, Go map range                  *)
(*                    mockery.go:309-376, template_generator.go:433-506    *)
(*     Missing, Exit  mockery.go:378-397;  logFatalErr  mockery.go:63-67   *)
(*     ProcExit, Tree the status and the file tree the OS is left with     *)
(*                                                                         *)
(* THREE LAYERS                                                            *)
(*  1. RUN SKELETON (MockerySkeleton.tla; variables ini, tbl, pass1, sl,   *)
(*     colls, fl, fin, xb): what the hook events of a run let an observer  *)
(*     reconstruct, one set of NAMED CLAUSES per event (phase order plus   *)
(*     the CROSS-PHASE consistency no family module can state).            *)
(*     MockeryTrace.tla binds it to recorded events.                       *)
(*  2. CODE-SHAPED CLOSED MODEL (this module; variables w, pc, mcfg, ...): *)
(*     one action per critical section, every Go map range a               *)
(*     nondeterministic pick; every action is                              *)
(*        <guard on the world> /\ Sk(<event it emits>) /\ <effect on the   *)
(*        merged configuration / the file system>                          *)
(*     so every behaviour of the model is a trace the skeleton accepts,    *)
(*     and a clause the code shape cannot meet shows up as a DEADLOCK      *)
(*     (checked: CHECK_DEADLOCK TRUE, only `Done` stutters).  The contract *)
(*     expectation of the world rides along in xb, so the `contract-*`     *)
(*     clauses are checked on every step of every order, too.              *)
(*  3. CONTRACT (operators MockInfo, Contract and the invariants at the    *)
(*     bottom), composed from the family modules                           *)
(*       ConfigTreeContract  which mocks, effective values   (C07 / C08)   *)
(*       TemplateResolve     fixpoint of templated values    (C11)         *)
(*       Layout              config file location, directories (C11)       *)
(*     plus the outcome rules of Pipeline.tla (C09 / C10) restated for     *)
(*     files keyed by their RESOLVED path (Pipeline.tla has abstract file  *)
(*     ids and checks those rules in depth).  Recursive.tla / Selection.tla*)
(*     / ConfigTree.tla / Schema.tla check their families in depth over    *)
(*     worlds whose state shape does not compose with a whole run; the     *)
(*     few operators needed here (Merge, deepest-first order,              *)
(*     ShouldGenerate chain) are restated with a pointer.                  *)
(*                                                                         *)
(* WORLD (w, chosen in Init): module example.com/w laid out as Layout.tla  *)
(* says -- packages a (apk; A1, A2), a/b (bpk; B1) below it, a/b/c (cpk;   *)
(* C1) below that (two recursion levels), k (kpk; K1, K2) -- a             *)
(* configuration tree of one of four SHAPES (S4: a/b written in            *)
(* `packages:` below a recursive a), template-data and the per-file        *)
(* parameters template / formatter / force-file-write /                    *)
(* require-template-schema-exists at any level, a layout (where the        *)
(* config file is and how it is found), the command line, pre-existing     *)
(* output files, at most one fault, optionally a build-tagged declaration. *)
(*                                                                         *)
(* Behaviour no listed property names, as actions / invariants of the same *)
(* machine: `showconfig` (ShowConfig; ShowconfigShowsWhatRunUses), log     *)
(* level from --log-level / MOCKERY_LOG_LEVEL / the file (RunStart;        *)
(* SourcesLayered; no other influence), `version`, `--help`, unknown flag  *)
(* or sub-command (Start; OtherCommandsTouchNothing), build-tags /         *)
(* MOCKERY_BUILD_TAGS (Visible, NextPkg; there is no --build-tags flag),   *)
(* an empty config file / one without `packages` (cfgkind; a run fails     *)
(* with "no packages specified", showconfig shows the empty table), no     *)
(* config file at all, `init` / `migrate` (InitAsContract,                 *)
(* MigrateAsContract), the double Initialize (PassesAgree).  mockery v3 has no version-check network call (the only  *)
(* http.Get downloads http(s):// templates), so there is nothing to model. *)
(***************************************************************************)
EXTENDS MockerySkeleton, Json

CONSTANTS Worlds,          \* set of world records explored (MockeryMC)
          StopAtFailure    \* TRUE: the run returns at the first failing file (what the code does)

LY == INSTANCE Layout
IC == INSTANCE InitCmdContract WITH DocInit <- << >>, DocTable <- << >>      \* C18: only the tree-level promises are used here
MG == INSTANCE MigrateContract                                              \* C19: likewise
TR == INSTANCE TemplateResolve WITH Cap <- 20, MustOk <- 18, Horizon <- 22, Interleave <- FALSE,
        case <- [id |-> "-"], vals <- << >>, i <- 0, changed <- FALSE, pending <- {}, pc <- "done"

-----------------------------------------------------------------------------
(* The source tree (fixed) *)
Pkgs    == {"a", "ab", "abc", "k"}
PkgDir(p) == CASE p = "a" -> <<"w", "a">> [] p = "ab" -> <<"w", "a", "b">> [] p = "abc" -> <<"w", "a", "b", "c">> [] p = "k" -> <<"w", "k">>
PkgNameOf(p) == IF p = "abc" THEN "cpk" ELSE LY!PkgName(PkgDir(p))     \* Layout.tla's tree ends at a/b
P(p)    == LY!PkgPath(PkgDir(p))                         \* import path
PS(p)   == <<"example.com">> \o PkgDir(p)                \* its segments
IfSeq   == [a |-> <<"A1", "A2">>, ab |-> <<"B1">>, abc |-> <<"C1">>, k |-> <<"K1", "K2">>]     \* declaration order
DeclT   == [a |-> {"A1", "A2"}, ab |-> {"B1"}, abc |-> {"C1"}, k |-> {"K1", "K2"}]
SubsT   == [a |-> {"ab", "abc"}, ab |-> {"abc"}, k |-> {}]
\* (whether K2 sits behind a build tag is a property of the WORLD here -- see Visible -- not of the shape)
TaggedT == [a |-> << >>, ab |-> << >>, abc |-> << >>, k |-> << >>]
SubList == [a |-> <<"a", "ab", "abc">>, ab |-> <<"ab", "abc">>, abc |-> <<"abc">>, k |-> <<"k">>]   \* `go list p/...` (p itself included)
\* proper ancestors in the directory tree, nearest first
AncSeq(s) == CASE s = "ab" -> <<"a">> [] s = "abc" -> <<"ab", "a">> [] OTHER -> << >>
\* config.go:380-385: longer import path first, ties by path
RecOrder == <<"abc", "ab", "a", "k">>

(* Configuration tree shapes (ConfigTreeContract.NodeRecs must be a constant: one instance per shape) *)
N(id, parent, kd, pkg, letter) == [id |-> id, parent |-> parent, kind |-> kd, pkg |-> pkg, letter |-> letter]
Top  == {N("env", "", "env", "", ""), N("root", "env", "root", "", ""), N("flag", "root", "flag", "", "")}
PkN  == {N("a", "flag", "pkg", "a", ""), N("k", "flag", "pkg", "k", "")}
NS2  == Top \cup PkN \cup {N("k.K1", "k", "iface", "k", "K1")}
NS1  == NS2 \cup {N("a.A1", "a", "iface", "a", "A1"), N("a.A1.1", "a.A1", "entry", "a", "A1"), N("a.A1.2", "a.A1", "entry", "a", "A1")}
NS3  == NS1 \cup {N("k.Nope", "k", "iface", "k", "Nope")}
NS4  == NS2 \cup {N("ab", "flag", "pkg", "ab", "")}              \* a/b configured explicitly, below the (possibly recursive) a
CT1 == INSTANCE ConfigTreeContract WITH NodeRecs <- NS1, Decl <- DeclT, Tagged <- TaggedT, Subs <- SubsT
CT2 == INSTANCE ConfigTreeContract WITH NodeRecs <- NS2, Decl <- DeclT, Tagged <- TaggedT, Subs <- SubsT
CT3 == INSTANCE ConfigTreeContract WITH NodeRecs <- NS3, Decl <- DeclT, Tagged <- TaggedT, Subs <- SubsT
CT4 == INSTANCE ConfigTreeContract WITH NodeRecs <- NS4, Decl <- DeclT, Tagged <- TaggedT, Subs <- SubsT
CTMocks(x)     == CASE x.shape = "S1" -> CT1!Mocks(x.cfg) [] x.shape = "S2" -> CT2!Mocks(x.cfg) [] x.shape = "S3" -> CT3!Mocks(x.cfg)
                    [] x.shape = "S4" -> CT4!Mocks(x.cfg)
CEff(x, p, n)  == CASE x.shape = "S1" -> CT1!EffScalar(x.cfg, p, n) [] x.shape = "S2" -> CT2!EffScalar(x.cfg, p, n)
                    [] x.shape = "S3" -> CT3!EffScalar(x.cfg, p, n) [] x.shape = "S4" -> CT4!EffScalar(x.cfg, p, n)
CHits(x, p, n) == CASE x.shape = "S1" -> CT1!Hits(x.cfg, p, n) [] x.shape = "S2" -> CT2!Hits(x.cfg, p, n)
                    [] x.shape = "S3" -> CT3!Hits(x.cfg, p, n) [] x.shape = "S4" -> CT4!Hits(x.cfg, p, n)
\* the packages written in `packages:` (none when the config file is empty or has no `packages` section)
ConfiguredSet(x) == IF x.cfgkind # "normal" THEN {} ELSE IF x.shape = "S4" THEN {"a", "ab", "k"} ELSE {"a", "k"}
CListed(x, p)  == IF p \notin ConfiguredSet(x) THEN {}
                  ELSE CASE x.shape = "S1" -> CT1!ListedLetters(p) [] x.shape = "S2" -> CT2!ListedLetters(p)
                         [] x.shape = "S3" -> CT3!ListedLetters(p) [] x.shape = "S4" -> CT4!ListedLetters(p)
CSelected(x, p, L) == CASE x.shape = "S1" -> CT1!Selected(x.cfg, p, L, L \in CListed(x, p))
                        [] x.shape = "S2" -> CT2!Selected(x.cfg, p, L, L \in CListed(x, p))
                        [] x.shape = "S3" -> CT3!Selected(x.cfg, p, L, L \in CListed(x, p))
                        [] x.shape = "S4" -> CT4!Selected(x.cfg, p, L, L \in CListed(x, p))
IfNode(p, L)  == p \o "." \o L
EntSeq(x, n)  == IF n = "a.A1" /\ x.shape \in {"S1", "S3"} THEN <<"a.A1.1", "a.A1.2">> ELSE << >>
NodesOfPkg(x, p) == {IfNode(p, L) : L \in CListed(x, p)} \cup UNION {SeqSet(EntSeq(x, IfNode(p, L))) : L \in CListed(x, p)}

-----------------------------------------------------------------------------
(* Parameters and their values.  Templated values are TemplateResolve token sequences; `dir` is a FORM id
   (its tokens and its path segments are tabulated); `template` is a template id. *)
Lit(s) == TR!Lit(s)
Var(v) == TR!Var(v)
Params == {"all", "recursive", "include-interface-regex", "exclude-interface-regex", "exclude-subpkg-regex", "dir", "filename",
           "structname", "pkgname", "template", "template-schema", "force-file-write", "log-level", "build-tags",
           "template-data", "formatter", "require-template-schema-exists"}
Defaults ==   ("all" :> FALSE) @@ ("recursive" :> FALSE) @@ ("include-interface-regex" :> {}) @@ ("exclude-interface-regex" :> {})
           @@ ("exclude-subpkg-regex" :> << >>) @@ ("dir" :> "def") @@ ("filename" :> <<Lit("mocks_test.go")>>)
           @@ ("structname" :> <<Var("Mock"), Var("InterfaceName")>>) @@ ("pkgname" :> <<Var("SrcPackageName")>>)
           @@ ("template" :> "testify") @@ ("template-schema" :> <<Var("Template"), Lit(".schema.json")>>)
           @@ ("force-file-write" :> FALSE) @@ ("log-level" :> "info") @@ ("build-tags" :> "")
           @@ ("template-data" :> << >>) @@ ("formatter" :> "goimports") @@ ("require-template-schema-exists" :> TRUE)
DirTok(form)  == CASE form = "def" -> <<Var("InterfaceDir")>>
                   [] form = "mocks" -> <<Var("InterfaceDir"), Lit("/mocks")>>
                   [] form = "up" -> <<Var("InterfaceDir"), Lit("/../gen")>>
DirSegs(form, d) == <<LY!RootStr>> \o d \o (CASE form = "def" -> << >> [] form = "mocks" -> <<"mocks">> [] form = "up" -> <<"..", "gen">>)
\* custom templates live in %R%/tmpl (probes/root); the stage at which each fails
TemplStr(t)   == IF t \in Builtin THEN t ELSE "file://" \o LY!RootStr \o "/tmpl/" \o t \o ".templ"
LogLevels  == {"info", "debug", "error", "warn"}
Formatters == {"goimports", "gofmt", "noop"}
\* template-data is a map key -> kind of value.  The schema of template `needkey` requires a string under "need" (other
\* keys are free), the built-in schemas forbid every key used here (additionalProperties: false), `ok` & co. are open.
\* (Schema.tla checks validation per level, schema availability and the remote-template cache in depth.)
DataValid(t, d) == CASE t = "needkey" -> "need" \in DOMAIN d /\ d["need"] = "str"
                     [] t \in Builtin -> DOMAIN d = {}
                     [] OTHER -> TRUE
\* the stage of the per-file pipeline at which a file fails ("-" none), as a function of its per-file parameters
\* (template t, require-template-schema-exists req, formatter fmt), the file-level data pd (the source package's
\* effective map) and the data ds of its mocks: Schema!FileVerdict o the stage order of template_generator.go:463-505
FileFault(t, req, fmt, pd, ds) ==
  IF t = "noschema" /\ req THEN "template"
  ELSE IF (t \in Builtin \/ req) /\ ~(DataValid(t, pd) /\ \A d \in ds : DataValid(t, d)) THEN "schema"
  ELSE IF t = "badexec" THEN "exec"
  ELSE IF t = "badfmt" \/ fmt \notin Formatters THEN "format"
  ELSE "-"

Over(f, g) == [p \in DOMAIN f \cup DOMAIN g |-> IF p \in DOMAIN g THEN g[p] ELSE f[p]]
\* mergeConfigs(src, dst), config.go:292-347: only what dst leaves unset is taken from src (ConfigTree.tla checks the
\* reflective merge per field kind)
\* (template-data, a map[string]any, is merged key by key: config.go:245-267)
Merge(src, dst) == [p \in DOMAIN src \cup DOMAIN dst |->
                      IF p = "template-data" /\ p \in DOMAIN src /\ p \in DOMAIN dst THEN Over(src[p], dst[p])
                      ELSE IF p \in DOMAIN dst THEN dst[p] ELSE src[p]]

Bind(p, L, t, cd) ==
  [InterfaceDir |-> LY!Abs(PkgDir(p)), InterfaceDirRelative |-> (IF LY!IsPrefix(cd, PkgDir(p)) THEN LY!RelStr(cd, PkgDir(p)) ELSE "."),
   InterfaceFile |-> LY!Abs(PkgDir(p)) \o "/svc.go", InterfaceName |-> L, Mock |-> "Mock",
   SrcPackageName |-> PkgNameOf(p), SrcPackagePath |-> P(p), Template |-> TemplStr(t), ConfigDir |-> LY!Abs(cd)]
BindFile(p, t, cd) ==
  [InterfaceDir |-> "", InterfaceDirRelative |-> "", InterfaceFile |-> "", InterfaceName |-> "", Mock |-> "",
   SrcPackageName |-> PkgNameOf(p), SrcPackagePath |-> P(p), Template |-> TemplStr(t), ConfigDir |-> LY!Abs(cd)]
ValsOf(c) == [dir |-> DirTok(c["dir"]), filename |-> c["filename"], pkgname |-> c["pkgname"], structname |-> c["structname"],
              schema |-> c["template-schema"]]
NormVals(v) == [q \in TR!Params |-> TR!Norm(v[q])]
FileKey(segs) == LY!JoinSegs(segs)
ParentKey(segs) == LY!JoinSegs(SubSeq(segs, 1, Len(segs) - 1))

-----------------------------------------------------------------------------
(* CONTRACT *)
CfgDir(x)  == LY!ConfigDirUsed(x.lay)
\* TLC re-evaluates a LET definition / operator argument on every reference; With1 binds a VALUE instead
With1(v, Op(_)) == CHOOSE r \in {Op(y) : y \in {v}} : TRUE
\* effective configuration at node n: most specific level of the chain that sets the parameter, else the default.
\* CNodeCfgCT is the definition by ConfigTreeContract!EffScalar; CNodeCfg is the same function restated over the chain
\* (ConfigTreeContract!Chain) taken ONCE per node, because TLC re-tabulates an INSTANCE's ChainTbl on every reference
\* (a factor of ~1000 here).  EffAgreesWithCT (checked by the *_cases cfgs on every world) is their equality.
CNodeCfgCT(x, n) == [p \in Params \ {"template-data"} |-> IF CHits(x, p, n) = {} THEN Defaults[p] ELSE CEff(x, p, n)]
ChainOf(x, n) == CASE x.shape = "S1" -> CT1!Chain(n) [] x.shape = "S2" -> CT2!Chain(n) [] x.shape = "S3" -> CT3!Chain(n)
                   [] x.shape = "S4" -> CT4!Chain(n)
RECURSIVE FirstSet(_, _, _)
FirstSet(cfg, ch, p) == IF ch = << >> THEN Defaults[p]
                        ELSE IF Head(ch) \in DOMAIN cfg /\ p \in DOMAIN cfg[Head(ch)] THEN cfg[Head(ch)][p]
                        ELSE FirstSet(cfg, Tail(ch), p)
\* map-valued parameter: merged key by key, the more specific level wins (ConfigTreeContract!EffMap over plain maps)
RECURSIVE EffData(_, _)
EffData(cfg, ch) == IF ch = << >> THEN << >>
                    ELSE Over(EffData(cfg, Tail(ch)),
                              IF Head(ch) \in DOMAIN cfg /\ "template-data" \in DOMAIN cfg[Head(ch)] THEN cfg[Head(ch)]["template-data"] ELSE << >>)
CNodeCfg(x, n) == With1(ChainOf(x, n), LAMBDA ch :
                    [p \in Params |-> IF p = "template-data" THEN EffData(x.cfg, ch) ELSE FirstSet(x.cfg, ch, p)] @@ << >>)
\* NEAREST RECURSIVE ANCESTOR (Recursive.tla checks this contract over package trees in depth; restated for the four
\* packages here): a package that is not written in `packages:` is in the table iff its nearest configured recursive
\* ancestor does not exclude it, and then carries that ancestor's settings.  If the nearest one excludes it while a
\* farther one is recursive, too, the statement leaves the outcome open (OpenSrc: such worlds are not generated).
RecAncSeq(x, s) == SelectSeq(AncSeq(s), LAMBDA a : a \in ConfiguredSet(x) /\ CNodeCfg(x, a)["recursive"])
ExclBy(x, a, s) == \E j \in 1..Len(CNodeCfg(x, a)["exclude-subpkg-regex"]) : CNodeCfg(x, a)["exclude-subpkg-regex"][j] = s
SrcOf(x, s) == IF s \in ConfiguredSet(x) THEN s
               ELSE IF RecAncSeq(x, s) = << >> \/ ExclBy(x, RecAncSeq(x, s)[1], s) THEN "" ELSE RecAncSeq(x, s)[1]
OpenSrc(x, s) == s \notin ConfiguredSet(x) /\ Len(RecAncSeq(x, s)) >= 2 /\ ExclBy(x, RecAncSeq(x, s)[1], s)
\* the package table a run uses and `showconfig` shows: package -> node whose effective configuration it carries
CTable(x) == [p \in {q \in Pkgs : SrcOf(x, q) # ""} |-> SrcOf(x, p)]
\* ConfigTreeContract!Mocks offers a sub-package's mocks from EVERY configured recursive ancestor; the nearest one counts
CMocksT(x, T) == IF x.cfgkind # "normal" THEN {}
                 ELSE {m \in CTMocks(x) : m.how # "subpkg" \/ (m.pkg \in DOMAIN T /\ T[m.pkg] = m.from)}
\* one mock of the contract (selection o configuration, ConfigTreeContract!Mocks) with its resolved values
\* (TemplateResolve fixpoint under the documented bindings) and its output path (Layout directories, clean join)
MockInfoOf(x, m, c, fix, T) ==
  LET segs == Clean(TRUE, DirSegs(c["dir"], PkgDir(m.pkg)) \o <<TR!Text(fix.vals["filename"])>>)
  IN [pkg |-> P(m.pkg), pid |-> m.pkg, iface |-> m.letter, node |-> m.from, ok |-> fix.n # -1,
      file |-> FileKey(segs), fsegs |-> segs, struct |-> TR!Text(fix.vals["structname"]),
      pkgname |-> TR!Text(fix.vals["pkgname"]), schema |-> TR!Text(fix.vals["schema"]),
      tid |-> c["template"], tmpl |-> TemplStr(c["template"]), force |-> c["force-file-write"],
      fmt |-> c["formatter"], req |-> c["require-template-schema-exists"], data |-> c["template-data"],
      pdata |-> CNodeCfg(x, T[m.pkg])["template-data"]]                 \* file-level data: the source package's map
MockInfo(x, m, T) ==
  With1(CNodeCfg(x, m.from), LAMBDA c :
    With1(TR!Iterate(NormVals(ValsOf(c)), Bind(m.pkg, m.letter, c["template"], CfgDir(x)), ValsOf(c)["structname"], 22),
          LAMBDA fix : MockInfoOf(x, m, c, fix, T)))
\* build-tags (MOCKERY_BUILD_TAGS): in a `tagged` world K2 of package k is declared in a file constrained by
\* `//go:build extra`; it exists for mockery only when the TOP-LEVEL build-tags value names that tag (mockery.go:187)
\* container (config.go:400-405, 468-470): in a `container` world the directory of package a holds no Go files of its
\* own (A1, A2 do not exist), only its sub-packages.  Written in `packages:` with `recursive: true` it is EXPANDED AND
\* SKIPPED AT LOAD -- its discovered sub-packages are mocked with its settings, the run succeeds; without recursion it
\* is a package that cannot be found (an invalid input, parse.go:53-61).
Visible(x, p, L) == /\ ~(x.container /\ p = "a")
                    /\ (~(x.tagged /\ p = "k" /\ L = "K2") \/ FirstSet(x.cfg, <<"flag", "root", "env">>, "build-tags") = "extra")
\* MOCKERY_<PARAM>: every scalar parameter can come from the environment (name upper-cased, '-' spelled '_'); a boolean
\* is recognised in any capitalisation of true / false (config.go:193-199) -- any other spelling ("1", "yes") reaches the
\* decoder as a string and is rejected: an invalid input, for every command that loads the configuration
BoolParams == {"all", "recursive", "force-file-write", "require-template-schema-exists"}
\* (a value the config file overrides never reaches the decoder: koanf layers the sources first)
FileSets(x) == IF x.cfgkind = "empty" \/ "root" \notin DOMAIN x.cfg THEN {} ELSE DOMAIN x.cfg["root"]
\* a list- or map-valued parameter cannot be spelled in an environment variable at all: the string is rejected likewise
NonScalar == {"exclude-subpkg-regex", "template-data"}
EnvBad(x) == /\ "env" \in DOMAIN x.cfg
             /\ \/ (x.envspell = "one" /\ (DOMAIN x.cfg["env"] \cap BoolParams) \ FileSets(x) # {})
                \/ (DOMAIN x.cfg["env"] \cap NonScalar) \ FileSets(x) # {}
Unloadable(x) == x.container /\ "a" \in ConfiguredSet(x) /\ ~CNodeCfg(x, "a")["recursive"]
MissingC(x)   == UNION {{<<P(p), L>> : L \in {n \in CListed(x, p) : n \notin DeclT[p]}} : p \in ConfiguredSet(x)}
LevelOK(x)    == CNodeCfg(x, "flag")["log-level"] \in LogLevels
MockRecOf(i) == [pkg |-> i.pkg, iface |-> i.iface, file |-> i.file, struct |-> i.struct, pkgname |-> i.pkgname, tmpl |-> i.tmpl]
SelKeyOf(p, L) == P(p) \o "|" \o L
ExpSelT(x, T) == UNION {{SelKeyOf(p, L) : L \in {n \in DeclT[p] : CSelected(x, T[p], n) /\ Visible(x, p, n)}} : p \in DOMAIN T}

\* Everything the contract says about world x, computed ONCE (TLC does not cache operator applications):
\*   infos      the mocks                         files     their output paths
\*   uniform    the mocks sharing a file agree on source package, pkgname, template (else: conflict, C09)
\*   mustkeep   the run has no legitimate way of putting new content there (Pipeline!MustKeep)
\*   allowed    "old" / "new" per file (Pipeline!AllowedFinal), new = the complete new content
\*   wellformed mocks sharing a file agree on force-file-write and have distinct struct names (else the statement
\*              leaves the outcome open: such worlds are not generated)
ContractOf(x, I, T) ==
  LET F      == {i.file : i \in I}
      Of(f)  == {i \in I : i.file = f}
      Uni(f) == \A i, j \in Of(f) : i.pkg = j.pkg /\ i.pkgname = j.pkgname /\ i.tmpl = j.tmpl
      Frc(f) == \A i \in Of(f) : i.force
      One(f) == CHOOSE i \in Of(f) : TRUE
      Flt(f) == FileFault(One(f).tid, One(f).req, One(f).fmt, One(f).pdata, {i.data : i \in Of(f)}) # "-" \/ x.fp.key = f
      MK(f)  == ~Uni(f) \/ Flt(f) \/ (f \in x.occ /\ ~Frc(f))
      Inp    == \/ x.pkgfault # "-"
                \/ EnvBad(x)
                \/ Unloadable(x)                              \* a configured package without Go files that is no container
                \/ x.cfgkind # "normal"                       \* no packages to work on (mockery.go:193-196)
                \/ \E i \in I : ~i.ok
                \/ ~LevelOK(x)
                \/ "real" \notin LY!RolesAllowed(x.lay)
      AnyF    == Inp \/ MissingC(x) # {} \/ \E f \in F : MK(f)
      CfgThere == x.pkgfault # "nocfg"                     \* a config file lies where the command looks for it
      Ex     == IF x.argv = "run" THEN (IF AnyF THEN "nonzero" ELSE "zero")
                \* init (InitCmdContract!InitAllowed): writes iff nothing is at the target path, else reports failure
                ELSE IF x.argv = "init"
                     THEN (IF [ok |-> TRUE, after |-> "created"] \in IC!InitAllowed(IF CfgThere THEN "yes" ELSE "no", TRUE) THEN "zero" ELSE "nonzero")
                \* migrate: a v2 file that can be found and decoded is migrated
                ELSE IF x.argv = "migrate" THEN (IF CfgThere THEN "zero" ELSE "nonzero")
                ELSE IF x.argv \in {"badflag", "badcmd"} THEN "nonzero"
                ELSE IF x.argv = "showconfig" /\ EnvBad(x) THEN "nonzero"
                ELSE IF x.argv = "showconfig" /\ (x.pkgfault \in {"nocfg", "unknown-key"} \/ "real" \notin LY!RolesAllowed(x.lay)) THEN "nonzero"
                ELSE "zero"
  IN [infos |-> I, files |-> F,
      uniform  |-> [f \in F |-> Uni(f)],
      mustkeep |-> [f \in F |-> MK(f)],
      allowed  |-> [f \in F |-> IF x.argv # "run" \/ MK(f) THEN {"old"} ELSE IF AnyF THEN {"old", "new"} ELSE {"new"}],
      new      |-> [f \in F |-> [kind |-> "new", pkgname |-> (CHOOSE i \in Of(f) : TRUE).pkgname,
                                 structs |-> {<<i.iface, i.struct>> : i \in Of(f)}]],
      fsegs    |-> [f \in F |-> (CHOOSE i \in Of(f) : TRUE).fsegs],
      anyfailure |-> AnyF, exit |-> Ex, missing |-> MissingC(x),
      \* the one path init / migrate may create (location ids as in MigrateContract!OutLocId), what loading it must yield
      cmdout |-> IF x.argv = "init" THEN {"config"} ELSE IF x.argv = "migrate" THEN {MG!OutLocId([out |-> x.mout])} ELSE {},
      initload |-> IC!LoadExpect(IF x.argv = "init" /\ ~CfgThere THEN P("a") ELSE IC!None),
      wellformed |-> /\ \A f \in F : \A i, j \in Of(f) : /\ i.force = j.force /\ i.fmt = j.fmt /\ i.req = j.req
                                                            /\ (i # j /\ Uni(f)) => i.struct # j.struct
                     \* "no validation without require" vs "data is validated": both are accepted by Schema.tla ("either")
                     /\ \A i \in I : ~(i.tid = "needkey" /\ ~i.req)
                     /\ \A s \in Pkgs : ~OpenSrc(x, s),
      table |-> [p \in DOMAIN T |-> [path |-> P(p), src |-> T[p], cfg |-> CNodeCfg(x, T[p])]],
      nodes |-> [n \in UNION {NodesOfPkg(x, p) : p \in ConfiguredSet(x)} |-> CNodeCfg(x, n)],
      top   |-> CNodeCfg(x, "flag"),
      \* the expectation handed to the skeleton (contract-* clauses)
      exp   |-> [sel   |-> ExpSelT(x, T),
                 known |-> UNION {{SelKeyOf(p, L) : L \in DeclT[p]} : p \in Pkgs},
                 mocks |-> {MockRecOf(i) : i \in I},
                 force |-> {[file |-> f, force |-> Frc(f)] : f \in F},
                 src   |-> {[sub |-> P(s), parent |-> P(T[s])] : s \in {q \in DOMAIN T : T[q] # q}},
                 exit  |-> Ex]]
Contract(x) == With1(CTable(x), LAMBDA T :
                 With1({MockInfo(x, m, T) : m \in {mm \in CMocksT(x, T) : Visible(x, mm.pkg, mm.letter)}}, LAMBDA I : ContractOf(x, I, T)))
WellFormed(x) == Contract(x).wellformed
CFiles(x) == Contract(x).files

-----------------------------------------------------------------------------
(* CODE-SHAPED CLOSED MODEL *)
VARIABLES w,        \* the world
          pc,       \* program counter
          mcfg,     \* merged configuration: node (or discovered package) -> parameter -> value
          pend,     \* the Go map being ranged over: elements not yet visited
          cx,       \* loop context: recq, subq, curp, ifq, curL, entq, curn
          rs,       \* ParseTemplates in progress: vals, data, sraw, i, ret
          cnode,    \* output file -> [node, pid, segs] of the first mock collected into it
          fs,       \* file key -> content record
          mk,       \* directories created
          out,      \* what the command printed (class)
          xc,       \* exit status, -1 while running
          snap,     \* (tbl, mcfg) after the first Initialize pass
          anyfail,  \* a file failed (only relevant when ~StopAtFailure)
          cc        \* Contract(w), computed once in Init (never changes)
mvars == <<w, cc, pc, mcfg, pend, cx, rs, cnode, fs, mk, out, xc, snap, anyfail>>
vars  == <<ini, tbl, pass1, sl, colls, fl, fin, xb, w, cc, pc, mcfg, pend, cx, rs, cnode, fs, mk, out, xc, snap, anyfail>>

NoSnap == [set |-> FALSE, tbl |-> {}, mcfg |-> << >>]
Cx0 == [recq |-> << >>, subq |-> << >>, curp |-> "", ifq |-> << >>, curL |-> "", entq |-> << >>, curn |-> ""]
Rs0 == [vals |-> << >>, data |-> << >>, sraw |-> << >>, i |-> 0, ret |-> "-"]
Others == {"src", "config", "unrelated"}
Fs0 == [k \in cc.files \cup w.occ \cup Others \cup cc.cmdout |->
          IF k \in w.occ THEN [kind |-> "user"]
          ELSE IF k = "config" THEN (IF w.pkgfault = "nocfg" THEN [kind |-> "absent"] ELSE [kind |-> "keep"])
          ELSE IF k \in Others THEN [kind |-> "keep"] ELSE [kind |-> "absent"]]
ById(path) == CHOOSE p \in Pkgs : P(p) = path
Own(n) == IF n \in DOMAIN w.cfg THEN w.cfg[n] ELSE << >>
ImplCfgDir == LY!ImplConfigDirDenotes(w.lay)
DecoyRoot == ("structname" :> <<Lit("Decoy"), Var("InterfaceName")>>)

Init == /\ w \in Worlds
        /\ cc = Contract(w)
        /\ SkInit(XbOf(cc.exp))
        /\ pc = "start" /\ mcfg = << >> /\ pend = {} /\ cx = Cx0 /\ rs = Rs0 /\ cnode = << >>
        /\ fs = Fs0 /\ mk = {} /\ out = "-" /\ xc = -1 /\ snap = NoSnap /\ anyfail = FALSE

Keep(S) == UNCHANGED S
SkKeep == UNCHANGED sk

\* cobra dispatch (mockery.go:26-61): help and version print and leave; an unknown flag or sub-command is a usage
\* error (status 1); everything else loads the configuration
Start ==
  /\ pc = "start"
  /\ CASE w.argv \in {"help", "version", "completion", "helpcmd"} -> out' = w.argv /\ xc' = 0 /\ pc' = "proc"
       [] w.argv \in {"badflag", "badcmd"} -> out' = "usage-error" /\ xc' = 1 /\ pc' = "proc"
       [] w.argv \in {"init", "migrate"} -> pc' = w.argv /\ UNCHANGED <<out, xc>>
       [] OTHER -> pc' = "load" /\ UNCHANGED <<out, xc>>
  /\ SkKeep /\ UNCHANGED <<w, cc, mcfg, pend, cx, rs, cnode, fs, mk, snap, anyfail>>

\* `mockery init <package>`, init.go:36-94: O_CREATE|O_EXCL on the target (InitCmd.tla checks path states, --config, races)
InitCmd ==
  /\ pc = "init"
  /\ IF fs["config"].kind = "absent"
     THEN fs' = [fs EXCEPT !["config"] = [kind |-> "initcfg", pkg |-> P("a")]] /\ xc' = 0
     ELSE xc' = 1 /\ UNCHANGED fs
  /\ out' = "init" /\ pc' = "proc"
  /\ SkKeep /\ UNCHANGED <<w, cc, mcfg, pend, cx, rs, cnode, mk, snap, anyfail>>

\* `mockery migrate`, migrate.go:130-: finds the v2 file like a run finds its config, writes --outfile (Migrate.tla checks the mapping)
MigrateCmd ==
  /\ pc = "migrate"
  /\ IF fs["config"].kind = "absent"
     THEN xc' = 1 /\ UNCHANGED fs
     ELSE fs' = [fs EXCEPT ![MG!OutLocId([out |-> w.mout])] = [kind |-> "migrated"]] /\ xc' = 0
  /\ out' = "migrate" /\ pc' = "proc"
  /\ SkKeep /\ UNCHANGED <<w, cc, mcfg, pend, cx, rs, cnode, mk, snap, anyfail>>

\* failure before / outside Run's per-file loop: logFatalErr (default command) or a plain error return (showconfig)
Fail == IF w.argv = "run" THEN pc' = "die" /\ UNCHANGED xc ELSE pc' = "proc" /\ xc' = 1

\* NewRootConfig, config.go:120-226.  Locate (ConfigSources.tla, Layout.tla): --config, else MOCKERY_CONFIG, else the
\* upward search; layering defaults < MOCKERY_* < file < flags; ErrorUnused rejects an unknown key.
LoadSources ==
  /\ pc = "load"
  /\ IF w.pkgfault \in {"nocfg", "unknown-key"} \/ EnvBad(w)
     THEN Fail /\ UNCHANGED mcfg
     ELSE /\ LET role == LY!ImplRoleUsed(w.lay)
                 file == IF w.cfgkind = "empty" THEN << >> ELSE IF role = "real" THEN Own("root") ELSE Over(Own("root"), DecoyRoot)
             IN mcfg' = ("root" :> Merge(Merge(Merge(Defaults, Own("env")), file), Own("flag")))
          /\ pc' = "ibegin" /\ UNCHANGED xc
  /\ SkKeep /\ UNCHANGED <<w, cc, pend, cx, rs, cnode, fs, mk, out, snap, anyfail>>

\* RootConfig.Initialize, config.go:349-421 (Recursive.tla checks discovery / inheritance over package trees)
InitBegin ==
  /\ pc = "ibegin"
  /\ LET S == IF ini.passes = 0 THEN ConfiguredSet(w) ELSE {ById(q) : q \in tbl} IN
       /\ Sk([ev |-> "InitBegin", n |-> Cardinality(S)])
       /\ pend' = S
       /\ pc' = IF S = {} THEN "sort" ELSE "loop1"
  /\ UNCHANGED <<w, cc, mcfg, cx, rs, cnode, fs, mk, out, xc, snap, anyfail>>

\* one iteration of `for pkgName, pkgConfig := range c.Packages`: merge root -> package -> interface -> entry
MergeDown(p) ==
  LET pc0 == Merge(mcfg["root"], IF p \in DOMAIN mcfg THEN mcfg[p] ELSE Own(p))
      ic(n) == Merge(pc0, IF n \in DOMAIN mcfg THEN mcfg[n] ELSE Own(n))
      inodes == {IfNode(p, L) : L \in CListed(w, p)}
      ParentIf(e) == CHOOSE n \in inodes : e \in SeqSet(EntSeq(w, n))
  IN [n \in DOMAIN mcfg \cup {p} \cup NodesOfPkg(w, p) |->
        IF n = p THEN pc0
        ELSE IF n \in inodes THEN ic(n)
        ELSE IF n \in NodesOfPkg(w, p) THEN Merge(ic(ParentIf(n)), IF n \in DOMAIN mcfg THEN mcfg[n] ELSE Own(n))
        ELSE mcfg[n]]
InitPkg(p) ==
  /\ pc = "loop1" /\ p \in pend
  /\ Sk([ev |-> "InitPkg", pkg |-> P(p)])
  /\ mcfg' = MergeDown(p)
  /\ pend' = pend \ {p}
  /\ pc' = IF pend' = {} THEN "sort" ELSE "loop1"
  /\ UNCHANGED <<w, cc, cx, rs, cnode, fs, mk, out, xc, snap, anyfail>>

\* config.go:377-385
SortRecursive ==
  /\ pc = "sort"
  /\ cx' = [cx EXCEPT !.recq = SelectSeq(RecOrder, LAMBDA p : P(p) \in ini.seen /\ mcfg[p]["recursive"])]
  /\ pc' = "loop2"
  /\ SkKeep /\ UNCHANGED <<w, cc, mcfg, pend, rs, cnode, fs, mk, out, xc, snap, anyfail>>

Recursive ==
  /\ pc = "loop2" /\ cx.recq # << >>
  /\ LET r == Head(cx.recq) IN
       /\ Sk([ev |-> "Recursive", pkg |-> P(r), psegs |-> PS(r)])
       \* `go list r/...` keeps packages with Go files only: a container is not in its own list
       /\ cx' = [cx EXCEPT !.recq = Tail(@), !.curp = r, !.subq = IF w.container /\ r = "a" THEN Tail(SubList[r]) ELSE SubList[r]]
  /\ pc' = "subs"
  /\ UNCHANGED <<w, cc, mcfg, pend, rs, cnode, fs, mk, out, xc, snap, anyfail>>

ExcludedBy(a, k) == \E j \in 1..Len(mcfg[a]["exclude-subpkg-regex"]) : mcfg[a]["exclude-subpkg-regex"][j] = k
SubStep ==
  /\ pc = "subs"
  /\ IF cx.subq = << >>
     THEN pc' = "loop2" /\ SkKeep /\ UNCHANGED <<mcfg, cx>>
     ELSE LET a == cx.curp
              k == Head(cx.subq)
              base == [parent |-> P(a), sub |-> P(k), psegs |-> PS(a), ssegs |-> PS(k)]
          IN /\ cx' = [cx EXCEPT !.subq = Tail(@)]
             /\ pc' = "subs"
             /\ IF ExcludedBy(a, k)
                THEN Sk(base @@ [ev |-> "Exclude"]) /\ UNCHANGED mcfg
                ELSE /\ Sk(base @@ [ev |-> "Inject", existed |-> (P(k) \in tbl)])
                     /\ mcfg' = Ext(mcfg, k, Merge(mcfg[a], IF k \in DOMAIN mcfg THEN mcfg[k] ELSE << >>))
  /\ UNCHANGED <<w, cc, pend, rs, cnode, fs, mk, out, xc, snap, anyfail>>

InitEnd ==
  /\ pc = "loop2" /\ cx.recq = << >>
  /\ Sk([ev |-> "InitEnd", n |-> Cardinality(tbl)])
  /\ IF ini.passes = 0
     THEN /\ snap' = [set |-> TRUE, tbl |-> tbl, mcfg |-> mcfg]
          /\ pc' = IF w.argv = "showconfig" THEN "show" ELSE "runstart"
     ELSE /\ pc' = "parse" /\ UNCHANGED snap
  /\ UNCHANGED <<w, cc, mcfg, pend, cx, rs, cnode, fs, mk, out, xc, anyfail>>

\* showconfig.go: prints the configuration as it is after NewRootConfig (one Initialize pass)
ShowConfig ==
  /\ pc = "show"
  /\ out' = [tbl |-> tbl, mcfg |-> mcfg] /\ xc' = 0 /\ pc' = "proc"
  /\ SkKeep /\ UNCHANGED <<w, cc, mcfg, pend, cx, rs, cnode, fs, mk, snap, anyfail>>

\* mockery.go:175-185: the logger is built from the effective log-level; then Initialize runs again
RunStart ==
  /\ pc = "runstart"
  /\ pc' = IF mcfg["root"]["log-level"] \in LogLevels THEN "ibegin" ELSE "die"
  /\ SkKeep /\ UNCHANGED <<w, cc, mcfg, pend, cx, rs, cnode, fs, mk, out, xc, snap, anyfail>>

\* parse.go:42-121: packages of the table, in the order GetPackages' map range produced
\* RootConfig.containers: recursive packages whose own directory holds no Go files but that have sub-packages
IsContainer(p) == w.container /\ p = "a" /\ P(p) \in tbl /\ mcfg[p]["recursive"]
Parse ==
  /\ pc = "parse"
  /\ IF \/ w.pkgfault = "parse-error"
        \/ tbl = {}                                            \* mockery.go:193-196: no packages specified in config
        \/ (w.container /\ P("a") \in tbl /\ ~IsContainer("a"))   \* parse.go:53-61: nothing to load, and no container
     THEN pc' = "die" /\ SkKeep /\ UNCHANGED pend
     ELSE /\ Sk([ev |-> "Parsed", n |-> 0])
          /\ pend' = {p \in {ById(q) : q \in tbl} : ~IsContainer(p)} /\ pc' = "selpkg"      \* GetPackages skips containers
  /\ UNCHANGED <<w, cc, mcfg, cx, rs, cnode, fs, mk, out, xc, snap, anyfail>>

NextPkg(p) ==
  /\ pc = "selpkg" /\ p \in pend
  /\ pend' = pend \ {p}
  /\ cx' = [cx EXCEPT !.curp = p,        \* the declarations the build tags let through, in source order
                       !.ifq = SelectSeq(IfSeq[p], LAMBDA L : ~(w.tagged /\ p = "k" /\ L = "K2") \/ mcfg["root"]["build-tags"] = "extra")]
  /\ pc' = "seliface"
  /\ SkKeep /\ UNCHANGED <<w, cc, mcfg, rs, cnode, fs, mk, out, xc, snap, anyfail>>

\* config.go:510-557 as its chain of early returns (Selection.tla checks the full decision table)
ImplSelected(p, L) ==
  LET c == mcfg[p] IN
  IF c["all"] THEN TRUE
  ELSE IF L \in CListed(w, p) THEN TRUE
  ELSE IF c["include-interface-regex"] = {} THEN FALSE
  ELSE IF L \notin c["include-interface-regex"] THEN FALSE
  ELSE IF c["exclude-interface-regex"] = {} THEN TRUE
  ELSE L \notin c["exclude-interface-regex"]
\* config.go:492-508, 571-586: the entries of a listed interface, else one copy of the package configuration
ImplEntries(p, L) ==
  IF L \in CListed(w, p) THEN (IF EntSeq(w, IfNode(p, L)) # << >> THEN EntSeq(w, IfNode(p, L)) ELSE <<IfNode(p, L)>>)
  ELSE <<p>>

Select ==
  /\ pc = "seliface"
  /\ IF cx.ifq = << >>
     THEN /\ pc' = IF pend = {} THEN "files" ELSE "selpkg"
          /\ pend' = IF pend = {} THEN DOMAIN colls ELSE pend
          /\ SkKeep /\ UNCHANGED cx
     ELSE LET p == cx.curp
              L == Head(cx.ifq)
              g == ImplSelected(p, L)
          IN /\ Sk([ev |-> "Select", pkg |-> P(p), iface |-> L, gen |-> g])
             /\ cx' = [cx EXCEPT !.ifq = Tail(@), !.curL = L, !.entq = IF g THEN ImplEntries(p, L) ELSE << >>]
             /\ pc' = IF g THEN "entry" ELSE "seliface"
             /\ UNCHANGED pend
  /\ UNCHANGED <<w, cc, mcfg, rs, cnode, fs, mk, out, xc, snap, anyfail>>

\* mockery.go:276-280: next `configs` entry, ParseTemplates on it
Entry ==
  /\ pc = "entry"
  /\ IF cx.entq = << >>
     THEN pc' = "seliface" /\ UNCHANGED <<cx, rs>>
     ELSE LET n == Head(cx.entq)
              c == mcfg[n]
              v == ValsOf(c)
          IN /\ cx' = [cx EXCEPT !.entq = Tail(@), !.curn = n]
             /\ rs' = [vals |-> NormVals(v), data |-> Bind(cx.curp, cx.curL, c["template"], ImplCfgDir), sraw |-> v["structname"],
                       i |-> 0, ret |-> "collect"]
             /\ pc' = "resolve"
  /\ SkKeep /\ UNCHANGED <<w, cc, mcfg, pend, cnode, fs, mk, out, xc, snap, anyfail>>

\* config.go:720-754, one pass of the loop (TemplateResolve.tla checks the loop over all reference graphs)
RIter ==
  /\ pc = "resolve"
  /\ Sk([ev |-> "ResolveIter", i |-> rs.i])
  /\ IF rs.i >= ResolveCap
     THEN pc' = "rloop" /\ UNCHANGED rs
     ELSE LET nx == TR!RenderAll(rs.vals, rs.data, rs.sraw) IN
          /\ rs' = [rs EXCEPT !.vals = nx, !.i = @ + 1]
          /\ pc' = IF nx # rs.vals THEN "resolve" ELSE "resolved"
  /\ UNCHANGED <<w, cc, mcfg, pend, cx, cnode, fs, mk, out, xc, snap, anyfail>>

RLoop ==
  /\ pc = "rloop"
  /\ Sk([ev |-> "ResolveLoop", iface |-> cx.curL])
  /\ pc' = "die"
  /\ UNCHANGED <<w, cc, mcfg, pend, cx, rs, cnode, fs, mk, out, xc, snap, anyfail>>

ResolvedDirSegs == IF rs.ret = "collect" THEN DirSegs(mcfg[cx.curn]["dir"], PkgDir(cx.curp)) ELSE << >>
Resolved ==
  /\ pc = "resolved"
  /\ Sk([ev |-> "Resolved", iface |-> IF rs.ret = "collect" THEN cx.curL ELSE "", dabs |-> TRUE, dsegs |-> ResolvedDirSegs,
         fnsegs |-> <<TR!Text(rs.vals["filename"])>>, pkgname |-> TR!Text(rs.vals["pkgname"]),
         struct |-> TR!Text(rs.vals["structname"]), schema |-> TR!Text(rs.vals["schema"])])
  /\ pc' = rs.ret
  /\ UNCHANGED <<w, cc, mcfg, pend, cx, rs, cnode, fs, mk, out, xc, snap, anyfail>>

\* mockery.go:281-305 + Append 134-170: the uniformity checks, then the mock joins its file's collection
Collect ==
  /\ pc = "collect"
  /\ LET segs == Clean(TRUE, sl.res.dsegs \o sl.res.fnsegs)
         f    == FileKey(segs)
         t    == TemplStr(mcfg[cx.curn]["template"])
         conflict == f \in DOMAIN colls /\ (colls[f].pkg # P(cx.curp) \/ colls[f].pkgname # sl.res.pkgname \/ colls[f].tmpl # t)
     IN IF conflict
        THEN pc' = "die" /\ SkKeep /\ UNCHANGED cnode
        ELSE /\ Sk([ev |-> "Collect", file |-> f, fabs |-> TRUE, fsegs |-> segs, pkg |-> P(cx.curp), iface |-> cx.curL,
                    struct |-> sl.res.struct, pkgname |-> sl.res.pkgname, tmpl |-> t])
             /\ cnode' = IF f \in DOMAIN cnode THEN [cnode EXCEPT ![f].nodes = Append(@, cx.curn)]
                         ELSE Ext(cnode, f, [node |-> cx.curn, pid |-> cx.curp, segs |-> segs, nodes |-> <<cx.curn>>])
             /\ pc' = "entry"
  /\ UNCHANGED <<w, cc, mcfg, pend, cx, rs, fs, mk, out, xc, snap, anyfail>>

\* top of the per-file loop, mockery.go:309-322 (range over a Go map), then ParseTemplates(nil) on the package config.
\* Abstraction: the code resolves the package configuration IN PLACE, so the second file of a package needs one pass
\* only; the model resolves a copy (the number of passes is not part of any clause).
FileBegin(f) ==
  /\ pc = "files" /\ f \in pend
  /\ Sk([ev |-> "FileBegin", file |-> f, n |-> Len(colls[f].mocks)])
  /\ pend' = pend \ {f}
  /\ LET p == cnode[f].pid
         c == mcfg[p]
         v == ValsOf(c)
     IN rs' = [vals |-> NormVals(v), data |-> BindFile(p, c["template"], ImplCfgDir), sraw |-> v["structname"], i |-> 0, ret |-> "stage"]
  /\ pc' = "resolve"
  /\ UNCHANGED <<w, cc, mcfg, cx, cnode, fs, mk, out, xc, snap, anyfail>>

FailFile == IF StopAtFailure THEN pc' = "die" /\ UNCHANGED anyfail ELSE pc' = "files" /\ anyfail' = TRUE
CurCfg == mcfg[cnode[fl.cur].node]                           \* per-file parameters: the config of the file's first mock
CurTid == CurCfg["template"]
CurFault == FileFault(CurTid, CurCfg["require-template-schema-exists"], CurCfg["formatter"], mcfg[cnode[fl.cur].pid]["template-data"],
                      {mcfg[cnode[fl.cur].nodes[j]]["template-data"] : j \in 1..Len(cnode[fl.cur].nodes)})
CurHasSchema == CurTid \in Builtin \/ CurCfg["require-template-schema-exists"]
NextStage == CHOOSE s \in StageSet : s \notin fl.oks /\ StageBefore(s) \subseteq fl.oks
                                      /\ (s = "exec" => "schema" \in fl.oks)
\* template_generator.go:463-505 (Schema.tla checks validation per level and the remote-template cache)
Stage ==
  /\ pc = "stage"
  /\ LET s == NextStage
         ok == CurFault # s
     IN /\ Sk([ev |-> "Stage", stage |-> s, ok |-> ok, tmpl |-> TemplStr(CurTid), schema |-> colls[fl.cur].schema,
               hasschema |-> CurHasSchema, validated |-> CurHasSchema])
        /\ IF ~ok THEN FailFile
           ELSE pc' = (IF s = "format" THEN "gen" ELSE "stage") /\ UNCHANGED anyfail
  /\ UNCHANGED <<w, cc, mcfg, pend, cx, rs, cnode, fs, mk, out, xc, snap>>

Generated ==
  /\ pc = "gen"
  /\ Sk([ev |-> "Generated", file |-> fl.cur, bytes |-> 1])
  /\ pc' = "mkdir"
  /\ UNCHANGED <<w, cc, mcfg, pend, cx, rs, cnode, fs, mk, out, xc, snap, anyfail>>

FpHere(point) == w.fp.point = point /\ w.fp.key = fl.cur
Failpoint(point, at) ==
  /\ pc = at /\ FpHere(point)
  /\ Sk([ev |-> "Failpoint"])
  /\ FailFile
  /\ UNCHANGED <<w, cc, mcfg, pend, cx, rs, cnode, fs, mk, out, xc, snap>>

\* mockery.go:350
Mkdir ==
  /\ pc = "mkdir" /\ ~FpHere("mkdir")
  /\ mk' = mk \cup {ParentKey(cnode[fl.cur].segs)}
  /\ pc' = "stat"
  /\ SkKeep /\ UNCHANGED <<w, cc, mcfg, pend, cx, rs, cnode, fs, out, xc, snap, anyfail>>

\* mockery.go:358-367: existence check gated by the force-file-write of the file's first mock
Stat ==
  /\ pc = "stat" /\ ~FpHere("stat")
  /\ LET ex == fs[fl.cur].kind # "absent"
         fo == mcfg[cnode[fl.cur].node]["force-file-write"]
     IN /\ Sk([ev |-> "Exists", file |-> fl.cur, exists |-> ex, force |-> fo])
        /\ IF ex /\ ~fo THEN FailFile ELSE pc' = "write" /\ UNCHANGED anyfail
  /\ UNCHANGED <<w, cc, mcfg, pend, cx, rs, cnode, fs, mk, out, xc, snap>>

\* mockery.go:372-375
Write ==
  /\ pc = "write" /\ ~FpHere("write")
  /\ Sk([ev |-> "Write", file |-> fl.cur, nfile |-> fl.cur, bytes |-> 1])
  /\ fs' = Ext(fs, fl.cur, [kind |-> "new", pkgname |-> colls[fl.cur].pkgname,
                             structs |-> {<<colls[fl.cur].mocks[j].iface, colls[fl.cur].mocks[j].struct>> : j \in 1..Len(colls[fl.cur].mocks)}])
  /\ pc' = "files"
  /\ UNCHANGED <<w, cc, mcfg, pend, cx, rs, cnode, mk, out, xc, snap, anyfail>>

\* mockery.go:378-390: listed interfaces that were never seen (range over a Go map)
ImplMissing == UNION {{<<q, L>> : L \in {n \in CListed(w, ById(q)) : n \notin SeqSet(IfSeq[ById(q)])}} : q \in {t \in tbl : ~IsContainer(ById(t))}}
EndFiles ==
  /\ pc = "files" /\ pend = {}
  /\ pc' = "post" /\ pend' = ImplMissing
  /\ SkKeep /\ UNCHANGED <<w, cc, mcfg, cx, rs, cnode, fs, mk, out, xc, snap, anyfail>>
Missing(m) ==
  /\ pc = "post" /\ m \in pend
  /\ Sk([ev |-> "Missing", pkg |-> m[1], iface |-> m[2]])
  /\ pend' = pend \ {m}
  /\ UNCHANGED <<w, cc, pc, mcfg, cx, rs, cnode, fs, mk, out, xc, snap, anyfail>>
Exit ==
  /\ pc = "post" /\ pend = {}
  /\ LET c == IF fin.miss # {} \/ anyfail THEN 1 ELSE 0 IN Sk([ev |-> "Exit", code |-> c]) /\ xc' = c
  /\ pc' = "proc"
  /\ UNCHANGED <<w, cc, mcfg, pend, cx, rs, cnode, fs, mk, out, snap, anyfail>>
\* logFatalErr, mockery.go:63-67
Die ==
  /\ pc = "die"
  /\ Sk([ev |-> "Exit", code |-> 1]) /\ xc' = 1
  /\ pc' = "proc"
  /\ UNCHANGED <<w, cc, mcfg, pend, cx, rs, cnode, fs, mk, out, snap, anyfail>>

RECURSIVE SetToSeq(_)
SetToSeq(S) == IF S = {} THEN << >> ELSE LET x == CHOOSE y \in S : TRUE IN <<x>> \o SetToSeq(S \ {x})
Changed == {k \in DOMAIN fs : k \notin DOMAIN Fs0 \/ fs[k] # Fs0[k]}
ProcExit ==
  /\ pc = "proc"
  /\ Sk([ev |-> "ProcExit", code |-> xc])
  /\ pc' = "tree"
  /\ UNCHANGED <<w, cc, mcfg, pend, cx, rs, cnode, fs, mk, out, xc, snap, anyfail>>
Tree ==
  /\ pc = "tree"
  /\ Sk([ev |-> "Tree", changed |-> SetToSeq(Changed \ cc.cmdout)])      \* (init / migrate emit no Write event)
  /\ pc' = "done"
  /\ UNCHANGED <<w, cc, mcfg, pend, cx, rs, cnode, fs, mk, out, xc, snap, anyfail>>
Done == pc = "done" /\ UNCHANGED vars

Next == \/ Start \/ InitCmd \/ MigrateCmd \/ LoadSources \/ InitBegin \/ (\E p \in Pkgs : InitPkg(p)) \/ SortRecursive \/ Recursive \/ SubStep \/ InitEnd
        \/ ShowConfig \/ RunStart \/ Parse \/ (\E p \in Pkgs : NextPkg(p)) \/ Select \/ Entry \/ RIter \/ RLoop \/ Resolved \/ Collect
        \/ (\E f \in DOMAIN colls : FileBegin(f)) \/ Stage \/ Generated
        \/ Failpoint("mkdir", "mkdir") \/ Failpoint("stat", "stat") \/ Failpoint("write", "write")
        \/ Mkdir \/ Stat \/ Write \/ EndFiles \/ (\E m \in pend : Missing(m)) \/ Exit \/ Die \/ ProcExit \/ Tree \/ Done
Spec == Init /\ [][Next]_vars
\* cc and the expectation inside xb are functions of w: not fingerprinted
view == <<ini, tbl, pass1, sl, colls, fl, fin, xb.used, w, pc, mcfg, pend, cx, rs, cnode, fs, mk, out, xc, snap, anyfail>>
WorldsOnly == Init /\ [][FALSE]_vars

-----------------------------------------------------------------------------
(* END-TO-END INVARIANTS (no family module can state these: each composes several families) *)
Finished == pc = "done"
IsRun == w.argv = "run"
OutcomeOf(f) == IF f \notin DOMAIN fs THEN "other"
                ELSE IF fs[f] = Fs0[f] THEN "old" ELSE IF fs[f] = cc.new[f] THEN "new" ELSE "other"

TypeOK == /\ xc \in {-1, 0, 1} /\ \A k \in DOMAIN fs : fs[k].kind \in {"absent", "user", "keep", "new", "initcfg", "migrated"}
\* selection o configuration o template resolution o pipeline: status 0 means that for every (package, interface,
\* entry) the contract selects, the file at the path the contract's effective dir / filename give holds new content
\* with exactly the contract's (interface, struct name) pairs for that path
ZeroMeansContractDelivered ==
  Finished /\ IsRun /\ xc = 0 =>
    /\ \A i \in cc.infos : i.file \in DOMAIN fs /\ fs[i.file] = cc.new[i.file]
    /\ fl.written = cc.files
\* every path holds its old content or the contract's complete new content -- in every state, whatever failed
OldOrContractNew == IsRun => \A f \in cc.files : OutcomeOf(f) \in {"old", "new"}
\* nothing outside the designated paths ever changes; directories are only created above designated paths
Frame == /\ \A k \in DOMAIN fs : k \notin cc.files \cup cc.cmdout => (k \in DOMAIN Fs0 /\ fs[k] = Fs0[k])
         /\ mk \subseteq {ParentKey(cc.fsegs[f]) : f \in cc.files}
\* a package / interface the contract does not select contributes no mock to any file
UnselectedContributeNothing ==
  \A k \in DOMAIN fs : fs[k].kind = "new" =>
     \A s \in fs[k].structs : \E i \in cc.infos : i.file = k /\ i.iface = s[1] /\ i.struct = s[2]
\* the outcome is the contract's function of the world, whatever order every map range took
OutcomeIsContract ==
  Finished => /\ (xc = 0) <=> (cc.exit = "zero")
              /\ \A f \in cc.files : OutcomeOf(f) \in cc.allowed[f]
MustKeepKept == \A f \in cc.files : cc.mustkeep[f] => OutcomeOf(f) = "old"
\* the two Initialize passes agree (C06), and both agree with the contract's table and effective values (C07 / C08)
TableAsContract(t, m) ==
  /\ t = {cc.table[p].path : p \in DOMAIN cc.table}
  /\ \A p \in DOMAIN cc.table : m[p] = cc.table[p].cfg
  /\ \A n \in DOMAIN cc.nodes : m[n] = cc.nodes[n]
ConfigUsable == w.pkgfault \notin {"nocfg", "unknown-key"} /\ ~EnvBad(w) /\ LY!ImplRoleUsed(w.lay) = "real"
PassesAgree == pc \in {"parse", "selpkg", "seliface", "entry", "files", "post", "done"} /\ IsRun /\ snap.set /\ ini.passes = 2 =>
                  snap.tbl = tbl /\ snap.mcfg = mcfg
InitializeAsContract == snap.set /\ ConfigUsable => TableAsContract(snap.tbl, snap.mcfg)
\* `showconfig` shows exactly what a run uses
ShowconfigShowsWhatRunUses == Finished /\ w.argv = "showconfig" /\ xc = 0 => TableAsContract(out.tbl, out.mcfg)
\* only the default command writes anything
\* ... and init / migrate exactly one designated file
OtherCommandsTouchNothing == ~IsRun => mk = {} /\ \A k \in DOMAIN fs : k \notin cc.cmdout => fs[k] = Fs0[k]
\* init: InitCmdContract!InitAllowed -- an existing target is never modified and failure is reported
InitAsContract ==
  Finished /\ w.argv = "init" =>
     /\ [ok |-> xc = 0, after |-> IF fs["config"] = Fs0["config"] THEN "same" ELSE "created"]
          \in IC!InitAllowed(IF w.pkgfault = "nocfg" THEN "no" ELSE "yes", TRUE)
     /\ fs["config"] # Fs0["config"] => fs["config"] = [kind |-> "initcfg", pkg |-> cc.initload.keys[1]]
\* migrate: MigrateContract!FilesOK -- exactly the requested output appears, never the input
MigrateAsContract ==
  Finished /\ w.argv = "migrate" /\ xc = 0 => MG!FilesOK([out |-> w.mout], Changed)
\* defaults < MOCKERY_* < file < flags: the effective top-level value is the layered one (log level, environment vs
\* flag have no other influence: the contract operators never read them, except that an unknown level is an invalid input)
SourcesLayered == "root" \in DOMAIN mcfg /\ ConfigUsable => mcfg["root"] = cc.top
\* the real config file is the one in use
RealConfigUsed == "root" \in DOMAIN mcfg /\ "real" \in LY!RolesAllowed(w.lay) /\ ~LY!DecoyMayWin(w.lay) => LY!ImplRoleUsed(w.lay) = "real"
Terminates == Finished => xc \in {0, 1} /\ fin.proc = xc

\* vacuity witnesses: each must be VIOLATED (checked by the harness with a separate cfg)
NeverZero == ~(Finished /\ IsRun /\ xc = 0)
NeverSharedFile == ~(\E f \in DOMAIN colls : Len(colls[f].mocks) >= 2)
NeverInjectNew == ini.fresh = {}
NeverExclude == ini.excl = {}
NeverOverwrite == ~(\E f \in fl.written : f \in w.occ)
NeverBlocked == ~(Finished /\ \E f \in fl.failed : f \in w.occ)
NeverConflict == ~(Finished /\ IsRun /\ \E f \in cc.files : ~cc.uniform[f])
NeverLoop == ~sl.reserr
NeverMissing == fin.miss = {}
\* cross-check of the restated effective-value function against ConfigTreeContract!EffScalar (cases cfgs)
EffAgreesWithCT == \A n \in {"flag"} \cup ConfiguredSet(w) \cup DOMAIN cc.nodes :
                      \A p \in Params \ {"template-data"} : CNodeCfg(w, n)[p] = CNodeCfgCT(w, n)[p]

-----------------------------------------------------------------------------
(* Export: one CASE per world with the contract's expectation *)
LayoutRec(l) == [files |-> LY!CfgFiles(l), param |-> LY!ConfigParam(l), envparam |-> LY!EnvParam(l), cwd |-> l.cwd,
                 used |-> LY!ConfigDirUsed(l)]
EmitCase == IF pc = "start" THEN PrintT(<<"CASE", ToJson([world |-> w, expect |-> cc, layout |-> LayoutRec(w.lay)])>>) ELSE TRUE
=============================================================================
