-------------------------- MODULE PipelineConflict --------------------------
(***************************************************************************)
(* C09, fault class "mocks with conflicting requirements for one output     *)
(* file (different source packages, package names or templates)" as a       *)
(* RESOLUTION problem over the four configuration levels.                   *)
(*                                                                         *)
(*   internal/cmd/mockery.go  InterfaceCollection.Append (134-170): every   *)
(*   mock that resolves to an output file is compared with the collection   *)
(*   of that file: output path, pkgname, source package path, template.     *)
(*                                                                         *)
(* A WORLD is two mocks that land in ONE output file:                       *)
(*   rel     how the two mocks are related                                  *)
(*             same-iface  two `configs` entries of one interface           *)
(*             same-pkg    two interfaces of one package                    *)
(*             cross-pkg   interfaces of two source packages                *)
(*   param   the per-file parameter under test (pkgname / template)         *)
(*   a       for each mock and each configuration level the value written   *)
(*           there for param (unset / value a / value b); levels the two    *)
(*           mocks SHARE (rel decides) necessarily hold the same value      *)
(*   loc     the level at which dir + filename (the shared output file)     *)
(*           are written                                                    *)
(*   struct  the two mocks have the same / different struct names           *)
(*                                                                         *)
(* CONTRACT: the effective value of a mock is that of the most specific     *)
(* level which sets it, else the documented default; two mocks of one file  *)
(* whose effective pkgname or template differ, or which come from different *)
(* source packages, make the run fail (non-zero exit + diagnostic).  Equal  *)
(* requirements and distinct struct names: exit 0, both mocks written.      *)
(* Equal requirements and the same struct name (the file would declare the  *)
(* struct twice): the statement is silent -- left open.                     *)
(***************************************************************************)
EXTENDS Integers, Sequences, FiniteSets, TLC, Json, Randomization

CONSTANTS NPerStratum,   \* assignments drawn per stratum (relation x parameter x level pair x conflict?)
          AllLocs,       \* TRUE: dir/filename at every level; FALSE: one level drawn at random per world
          AllStructs     \* TRUE: same and different struct names for every world; FALSE: both only for two entries of one
                         \* interface (which share the default struct name), else one drawn at random

Levels   == <<"root", "pkg", "iface", "entry">>
LevelSet == {"root", "pkg", "iface", "entry"}
Rels     == {"same-iface", "same-pkg", "cross-pkg"}
Params   == {"pkgname", "template"}
Vals     == {"unset", "a", "b"}
Structs  == {"same", "diff"}
Mocks    == {1, 2}

\* configuration levels that are one and the same YAML node for both mocks
Shared(rel) == CASE rel = "same-iface" -> {"root", "pkg", "iface"}
                 [] rel = "same-pkg"   -> {"root", "pkg"}
                 [] rel = "cross-pkg"  -> {"root"}
Assignments(rel) == {a \in [Mocks -> [LevelSet -> Vals]] : \A l \in Shared(rel) : a[1][l] = a[2][l]}

-----------------------------------------------------------------------------
(* CONTRACT *)
RECURSIVE SrcFrom(_, _)
\* the level whose value is in effect ("default": none sets it)
SrcFrom(f, i) == IF i = 0 THEN "default" ELSE IF f[Levels[i]] # "unset" THEN Levels[i] ELSE SrcFrom(f, i - 1)
Src(a, m) == SrcFrom(a[m], Len(Levels))
\* documented defaults: template: testify (that is value a); pkgname: {{.SrcPackageName}} -- one name per source package
Default(rel, param, m) == IF param = "template" THEN "a"
                          ELSE IF rel = "cross-pkg" THEN (IF m = 1 THEN "srcpkg1" ELSE "srcpkg2") ELSE "srcpkg1"
Eff(rel, param, a, m) == IF Src(a, m) = "default" THEN Default(rel, param, m) ELSE a[m][Src(a, m)]

ParamDiffers(rel, param, a) == Eff(rel, param, a, 1) # Eff(rel, param, a, 2)
ConflictKinds(wd) == (IF wd.rel = "cross-pkg" THEN {"srcpkg"} ELSE {}) \cup (IF ParamDiffers(wd.rel, wd.param, wd.a) THEN {wd.param} ELSE {})
Conflict(wd) == ConflictKinds(wd) # {}
ExpectExit(wd) == IF Conflict(wd) THEN "nonzero" ELSE IF wd.struct = "diff" THEN "zero" ELSE "any"
Expectation(wd) == [exit |-> ExpectExit(wd), panic |-> FALSE,
                    written |-> IF ExpectExit(wd) = "zero" THEN Mocks ELSE {},
                    conflict |-> ConflictKinds(wd),
                    eff |-> [m \in Mocks |-> Eff(wd.rel, wd.param, wd.a, m)],
                    src |-> [m \in Mocks |-> Src(wd.a, m)]]

-----------------------------------------------------------------------------
(* CODE SHAPE: Append compares the arriving mock with the collection the first mock of the file created (either
   order: Go map range / configs order); the three comparisons are symmetric. *)
AppendRejects(wd, first, second) ==
  \/ Eff(wd.rel, wd.param, wd.a, first) # Eff(wd.rel, wd.param, wd.a, second)      \* mockery.go:152-156 / 162-166
  \/ wd.rel = "cross-pkg"                                                           \* mockery.go:157-161
CodeExit(wd) == IF AppendRejects(wd, 1, 2) \/ AppendRejects(wd, 2, 1) THEN "nonzero" ELSE "zero-or-later-failure"

-----------------------------------------------------------------------------
(* WORLDS: strata = relation x parameter x (level in effect for mock 1, for mock 2) x parameter differs? *)
Key(rel, param, a) == <<Src(a, 1), Src(a, 2), ParamDiffers(rel, param, a)>>
Strata(rel, param) == {Key(rel, param, a) : a \in Assignments(rel)}
Drawn(rel, param) == IF NPerStratum = 0 THEN Assignments(rel)
                     ELSE UNION {LET S == {a \in Assignments(rel) : Key(rel, param, a) = k}
                                 IN RandomSubset(IF Cardinality(S) < NPerStratum THEN Cardinality(S) ELSE NPerStratum, S) :
                                 k \in Strata(rel, param)}
StructsOf(r) == IF AllStructs \/ r = "same-iface" THEN Structs ELSE {"drawn"}      \* drawn per world, below
Worlds == UNION {UNION {UNION {{[kind |-> "conflict", rel |-> r, param |-> p, struct |-> IF s = "drawn" THEN RandomElement(Structs) ELSE s, loc |-> l, a |-> x] :
                                  l \in IF AllLocs THEN LevelSet ELSE {RandomElement(LevelSet)}} :
                               x \in Drawn(r, p), s \in StructsOf(r)} : p \in Params} : r \in Rels}

VARIABLE w
Init == w \in Worlds
Next == UNCHANGED w
Spec == Init /\ [][Next]_w

TypeOK == w.rel \in Rels /\ w.param \in Params /\ w.a \in Assignments(w.rel)
\* the code-shaped verdict is one the contract accepts
ImplMeetsContract == /\ Conflict(w) => CodeExit(w) = "nonzero"
                     /\ ExpectExit(w) = "zero" => CodeExit(w) # "nonzero"
\* a conflict needs a level the two mocks do not share (or a per-package default)
ConflictNeedsOwnLevel == ParamDiffers(w.rel, w.param, w.a) =>
                           \E m \in Mocks : Src(w.a, m) \notin Shared(w.rel) /\ (Src(w.a, m) = "default" => w.rel = "cross-pkg" /\ w.param = "pkgname")

Emit == PrintT(<<"XCASE", ToJson([world |-> w, expect |-> Expectation(w)])>>)
=============================================================================
