-------------------------- MODULE ConfigTreeWorld --------------------------
(***************************************************************************)
(* C08, case generator: TLC enumerates configuration WORLDS and exports    *)
(* each with the outcome the contract (ConfigTreeContract) demands, so the *)
(* harness only has to concretise, run the real binary, project and        *)
(* compare.                                                                *)
(*                                                                         *)
(* Two kinds of worlds:                                                    *)
(*  "chain"  -- one FOCUS parameter set at a subset S of the levels of the *)
(*              target chain env < root < p1 < p1A < p1A1 (every subset,   *)
(*              pairwise distinct markers; for two/three-valued parameters *)
(*              every assignment of values), optionally also at the        *)
(*              sibling of every level in S, with a fixed background that  *)
(*              keeps every mock observable; `share` makes the two entries *)
(*              of an interface / all mocks of a package share one output  *)
(*              file (per-file parameters "for the mocks sharing a file"). *)
(*  "packed" -- every parameter of a profile set at a pseudo-random subset *)
(*              of ALL levels at once (general trees, interactions between *)
(*              parameters); pseudo-random bits come from a small hash of  *)
(*              (Seed, world number, parameter, level) evaluated by TLC, so *)
(*              the worlds are reproducible from the seed alone.           *)
(* A world is exported only if it is well-formed (mocks that share a file  *)
(* agree on the per-file parameters, built-in templates only see           *)
(* template-data their schema accepts): outside that the property leaves    *)
(* the outcome open.                                                       *)
(***************************************************************************)
EXTENDS ConfigTreeContract, Json

CONSTANTS
  NodeSeq,     \* all node ids in a fixed order (index = pseudo-random stream number)
  Seed,        \* seed of the packed worlds
  NPacked,     \* number of packed worlds per profile
  Tier         \* "quick" | "thorough": how many value assignments of bounded parameters are enumerated

VARIABLE d     \* the case descriptor being exported

S(v) == [t |-> "s", v |-> v]
M(f) == [t |-> "m", kv |-> f]

NodeIdx(n) == CHOOSE i \in 1..Len(NodeSeq) : NodeSeq[i] = n
Depth(n) == Len(Chain(n))
SeqToSet(s) == {s[i] : i \in 1..Len(s)}

-----------------------------------------------------------------------------
(* parameter tables *)
FreeScalars == {"dir", "filename", "pkgname", "structname", "template", "template-schema"}
Bools       == {"force-file-write", "require-template-schema-exists", "all", "recursive"}
Regexes     == {"include-interface-regex", "exclude-interface-regex"}
EnvCapable  == FreeScalars \cup Bools \cup Regexes \cup {"formatter", "log-level", "build-tags"}
AllParams   == PerMock \cup PerFile \cup PerPackage \cup TopOnly
\* template-data seen through a BUILT-IN template: the keys the matryer template documents (with-resets,
\* stub-impl, skip-ensure are per-mock switches) -- a second focus on the parameter template-data
TDMatryer   == "template-data@matryer"
TDTestify   == "template-data@testify"      \* unroll-variadic, a per-mock switch of the testify template
TDBuiltin   == {TDMatryer, TDTestify}
FocusParams == AllParams \cup TDBuiltin
RealParam(p) == IF p \in TDBuiltin THEN "template-data" ELSE p

ParamSeq == <<"dir", "filename", "pkgname", "structname", "template-data", "replace-type", "template", "template-schema",
              "require-template-schema-exists", "formatter", "force-file-write", "all", "include-interface-regex",
              "exclude-interface-regex", "recursive", "exclude-subpkg-regex", "log-level", "build-tags">>
ParamIdx(p) == CHOOSE i \in 1..Len(ParamSeq) : ParamSeq[i] = p

\* may level n carry parameter p at all?
Allowed(p, n) ==
  LET k == KindOf(n) IN
  CASE k = "env"  -> p \in EnvCapable
    [] k = "flag" -> p = "log-level"
    [] p = "log-level" -> k = "root"
    [] p = "build-tags" -> k = "root"
    \* per-package parameters written on an interface or a configs entry are not meaningful there: the contract
    \* (evaluated on the package's chain) ignores them, and so must the code (no leak UPWARDS)
    [] p \in PerPackage -> k \in {"root", "pkg", "iface", "entry"}
    [] OTHER -> TRUE

Formatters == <<"noop", "gofmt", "goimports">>
LogLevels  == <<"debug", "warn", "error">>          \* default info is the fourth, pairwise distinct

\* the catalyst package p1x is configured explicitly although it lies below the (possibly recursive) p1:
\* it exists to give leaks a way out (DESIGN D5); the contract says nothing about its own mocks
Unchecked == {"p1x"}
\* packages listed explicitly below a recursive package, and what is discovered below them: the statement fixes
\* their scalar parameters (own config, then the top level; discovered packages as their nearest configured recursive
\* ancestor) but not whether the outer recursive package's MAP keys are merged in as well
MapUnchecked == {"p1r", "p1rd", "p1re"}

-----------------------------------------------------------------------------
(* pseudo-random bits, all products stay below 2^31 *)
Mix(a, b) == ((a * 8121 + b * 2843 + 28411) % 32749)
Rnd(k, i, j, salt) == Mix(Mix(Mix(Mix(Mix(Seed % 32749, k), i), j), salt), 7)

-----------------------------------------------------------------------------
(* values written by a level: free scalars are MARKERS (the id of the level); the harness expands
   marker (p, n) to a concrete, pairwise distinct string *)
TDRich(n, h) ==
  LET only == "only_" \o n IN
  CASE h = 0  -> M([k |-> S(n), nest |-> M(("x" :> S(n)) @@ (only :> S(n)) @@ ("deep" :> M(("q" :> S(n)) @@ (only :> S(n)))))])
    [] h = 1  -> M((only :> S(n)) @@ ("nest" :> M((only :> S(n)) @@ ("deep" :> M(only :> S(n))))))
    [] h = 2  -> M([nest |-> M([x |-> S(n), deep |-> M(("q" :> S(n)) @@ (only :> S(n)))])])
    [] h = 3  -> M([k |-> S(n), nest |-> M((only :> S(n)) @@ ("deep" :> M(only :> S(n))))])
    [] h = 4  -> M([k |-> S("#false"), nest |-> M(("x" :> S("#false")) @@ (only :> S(n)))])   \* zero-ish leaves
    [] h = 10 -> M([k |-> S("#list:" \o n), nest |-> S("#list:" \o n)])                     \* a list where other levels have a map
    [] h = 11 -> M([k |-> S("#zero"), nest |-> M([x |-> S("#empty"), deep |-> S("#zero")])])  \* 0 and "" are values, not "unset"
    [] h = 5  -> M([nest |-> S(n)])                      \* scalar where other levels have a map
    [] h = 6  -> EmptyMap                                \* explicit {}
    [] h = 7  -> M([k |-> S(n)])
    [] h = 8  -> M([nest |-> EmptyMap])                  \* explicit empty nested map
    [] OTHER  -> M(("nest" :> M([deep |-> EmptyMap, y |-> S(n)])) @@ (only :> S(n)))
NRich == 12
OddShapes == <<5, 2, 10, 11>>      \* by rank in S: scalar / list / zero over map and map over scalar, in both directions

KindKey(n) == CASE KindOf(n) = "root" -> "Ur" [] KindOf(n) = "pkg" -> "Up" [] KindOf(n) = "iface" -> "Ui" [] OTHER -> "Ue"
RTVal(n, h) ==
  CASE h = 0 -> M([ty |-> M([T0 |-> S(n)])])
    [] h = 1 -> M([ty |-> M(("T0" :> S(n)) @@ (KindKey(n) :> S(n)))])
    [] h = 2 -> M([ty2 |-> M([V0 |-> S(n)])])
    [] h = 3 -> M([ty |-> M(KindKey(n) :> S(n)), ty2 |-> M([V0 |-> S(n)])])
    [] h = 4 -> M([ty |-> M(("T0" :> S(n)) @@ (KindKey(n) :> S(n))), ty2 |-> M([V0 |-> S(n)])])
    [] h = 5 -> EmptyMap                                  \* explicit {}: adds nothing, hides nothing
    [] OTHER -> M([ty |-> EmptyMap, ty2 |-> M([V0 |-> S(n)])])
NRT == 7

\* include / exclude "regexes" (sets of letters), exclusion lists (sequences of sub-package tags)
RegexAt(n, h) ==
  CASE n = "env"  -> IF h % 2 = 0 THEN {"A", "D", "E"} ELSE {"A"}
    [] n = "root" -> IF h % 2 = 0 THEN {"D"} ELSE {"D", "E"}
    [] n = "p1"   -> IF h % 2 = 0 THEN {"E"} ELSE {}             \* {} = the explicit empty string: cancels an inherited regex
    [] n = "p2"   -> IF h % 2 = 0 THEN {"A", "D"} ELSE {"D"}
    [] OTHER      -> {"E"}
ExclAt(n, h) ==
  CASE n = "root" -> IF h % 3 = 2 THEN << >> ELSE <<"p1s1", "p2s1">>
    [] n = "p1"   -> IF h % 3 = 1 THEN << >> ELSE <<"p1s2">>
    [] n = "p2"   -> IF h % 3 = 1 THEN <<"p2s1", "p2s2">> ELSE <<"p2s2">>
    [] OTHER      -> <<"p1s1">>

\* value of parameter p at level n; h selects among the values of a bounded domain / the shapes of a map
ValueAt(p, n, h, profile) ==
  CASE p \in Bools -> (h % 2 = 1)
    [] p = "formatter" -> Formatters[(h % 3) + 1]
    [] p = "log-level" -> LogLevels[(h % 3) + 1]
    [] p \in Regexes -> RegexAt(n, h)
    [] p = "exclude-subpkg-regex" -> ExclAt(n, h)
    [] p = "template" -> IF n = "env" THEN "matryer" ELSE n
    [] p = "template-data" ->
         CASE profile = "mock"     -> TDRich(n, h % NRich)
           [] profile = "schema"   -> M([sid |-> S(n)])
           [] profile = "matryer"  -> M(("with-resets" :> S(IF h % 2 = 1 THEN "#true" ELSE "#false"))
                                        @@ ("stub-impl" :> S(IF h % 2 = 1 THEN "#true" ELSE "#false"))
                                        @@ ("skip-ensure" :> S(IF h % 2 = 0 THEN "#true" ELSE "#false")))
           [] profile = "testify"  -> M(("unroll-variadic") :> S(IF h % 2 = 1 THEN "#true" ELSE "#false"))
           [] OTHER                -> M(("mock-build-tags") :> S(n))
    [] p = "replace-type" -> RTVal(n, h % NRT)
    [] OTHER -> n

-----------------------------------------------------------------------------
(* chain worlds *)
ChainOf(p) ==
  CASE p = "log-level" -> <<"env", "root", "flag">>
    [] p = "build-tags" -> <<"env", "root">>
    [] p = "exclude-subpkg-regex" -> <<"root", "p1">>
    [] p \in PerPackage -> <<"env", "root", "p1">>
    [] p \in MapParams \cup TDBuiltin -> <<"root", "p1", "p1A", "p1A1">>
    [] OTHER -> <<"env", "root", "p1", "p1A", "p1A1">>

\* the nested recursive package gets its own marker in every second world that sets the outer one
NestedNodes(dd) == IF "p1" \in dd.S /\ Cardinality(dd.S) % 2 = 0 THEN {"p1r"} ELSE {}
SiblingOf(n) ==
  CASE n = "p1" -> {"p2"} [] n = "p1A" -> {"p1B", "p2A"} [] n = "p1A1" -> {"p1A2", "p1B1"} [] OTHER -> {}
Counterparts(x) == SiblingOf(x) \cup (IF x = "p1" THEN {"p1r"} ELSE {})

\* per-package parameters also written where they mean nothing (an interface `config`, a configs entry)
NoiseNodes(dd) == IF dd.param \in PerPackage /\ Cardinality(dd.S) % 2 = 1 THEN {"p1A", "p1B1", "p2A", "p2C"} ELSE {}

ProfileOf(p) ==
  CASE p \in {"template"} -> "template"
    [] p = TDMatryer -> "matryer"
    [] p = TDTestify -> "testify"
    [] p \in {"template-schema", "require-template-schema-exists"} -> "schema"
    [] p \in PerPackage -> "select"
    [] p = "log-level" -> "sources"
    [] OTHER -> "mock"

Pow(b, e) == IF e = 0 THEN 1 ELSE IF e = 1 THEN b ELSE IF e = 2 THEN b * b ELSE IF e = 3 THEN b * b * b
             ELSE IF e = 4 THEN b * b * b * b ELSE b * b * b * b * b
Digit(v, b, j) == (v \div Pow(b, j)) % b          \* j-th digit (from 0) of v in base b
RankIn(ch, SS, n) == Cardinality({i \in 1..Len(ch) : ch[i] \in SS /\ i < (CHOOSE x \in 1..Len(ch) : ch[x] = n)})

Base(p) == IF p \in Bools \cup TDBuiltin THEN 2 ELSE IF p \in {"formatter", "log-level"} THEN 3 ELSE 1
\* how many value assignments are enumerated for the levels in SS
NVar(p, SS) ==
  LET c == Cardinality(SS) IN
  CASE p \in Bools \/ p \in {"formatter", "log-level"} \cup TDBuiltin ->
         IF Tier = "thorough" THEN (IF Pow(Base(p), c) > 27 THEN 27 ELSE Pow(Base(p), c)) ELSE IF c = 0 \/ c >= 3 THEN 1 ELSE 2
    [] p \in MapParams -> IF Tier = "thorough" THEN 4 ELSE 2
    [] p \in Regexes \/ p = "exclude-subpkg-regex" -> IF Tier = "thorough" THEN 3 ELSE 2
    [] OTHER -> 1

\* the value index h of level n in a chain world
ChainH(dd, n) ==
  LET p == dd.param  ch == ChainOf(p)  b == Base(p) IN
  IF n \in NoiseNodes(dd) THEN 1       \* all / recursive: true, a regex, a list -- anything that would show if it leaked
  ELSE IF n \notin SeqToSet(ch)
  THEN \* a sibling: differs from its counterpart
       LET c == CHOOSE x \in dd.S : n \in Counterparts(x) IN
       IF b > 1 THEN (IF Tier = "thorough" THEN Digit(dd.var, b, RankIn(ch, dd.S, c)) ELSE dd.var + RankIn(ch, dd.S, c)) + 1
       ELSE IF p \in MapParams THEN NodeIdx(n) % 4 ELSE dd.var + NodeIdx(n)
  ELSE IF b > 1
       THEN IF Tier = "thorough" THEN Digit(dd.var, b, RankIn(ch, dd.S, n)) ELSE dd.var + RankIn(ch, dd.S, n)
       ELSE IF p \in MapParams
            THEN IF p = "replace-type" THEN (IF dd.var = 0 THEN RankIn(ch, dd.S, n) % 4
                                             ELSE IF dd.var = 1 THEN <<5, 1, 6, 3>>[(RankIn(ch, dd.S, n) % 4) + 1]     \* explicit {} / inner {} between real mappings
                                             ELSE 4 + ((dd.var + NodeIdx(n)) % 3))
                 ELSE IF dd.var = 0 THEN RankIn(ch, dd.S, n) % 4
                 ELSE IF dd.var = 1 THEN OddShapes[(RankIn(ch, dd.S, n) % 4) + 1]
                 ELSE 4 + ((dd.var + NodeIdx(n)) % 8)
            ELSE dd.var

ShareModes(p) ==
  IF p \in PerFile \cup {"pkgname"} THEN {"none", "entries", "package"}
  ELSE IF p \in {"structname", "template-data", "replace-type"} \cup TDBuiltin THEN {"none", "entries"} ELSE {"none"}

\* levels that may be in S under a share mode (mocks sharing a file must agree on per-file parameters and pkgname)
SAllowed(p, share) ==
  LET ch == SeqToSet(ChainOf(p)) IN
  IF p \in PerFile \cup {"pkgname"}
  THEN CASE share = "entries" -> ch \ {"p1A1"}
         [] share = "package" -> ch \ {"p1A1", "p1A"}
         [] OTHER -> ch
  ELSE ch

\* quick tier: every subset of the tree levels, the env source toggled by parity (thorough: every subset)
QuickBase(p, sh) ==
  IF Len(ChainOf(p)) < 5 THEN SUBSET SAllowed(p, sh)
  ELSE {SS \in SUBSET SAllowed(p, sh) : SS = {} \/ ("env" \in SS) = (Cardinality(SS \ {"env"}) % 2 = 0)}
\* quick tier, file-sharing worlds: nothing, one level, or all tree levels of the chain
SubsetsOf(p, sh) ==
  IF Tier = "thorough" THEN SUBSET SAllowed(p, sh)
  ELSE IF sh = "none" THEN QuickBase(p, sh)
  ELSE {SS \in QuickBase(p, sh) : Cardinality(SS) <= 1 \/ SS \cup {"env"} = SAllowed(p, sh) \cup {"env"}}

SibModes(p) == IF Tier = "thorough" THEN {FALSE, TRUE} ELSE IF p \in MapParams THEN {TRUE} ELSE {FALSE}

ChainDescs ==
  UNION { UNION { UNION { UNION {
      { [fam |-> "chain", param |-> p, S |-> SS, var |-> v, sib |-> sb, share |-> sh] : v \in 0..(NVar(p, SS) - 1) }
        : sb \in IF sh # "none" THEN {FALSE}
                 ELSE {x \in SibModes(p) \cup (IF \E n \in SS : SiblingOf(n) # {} THEN {} ELSE {FALSE}) : (x => \E n \in SS : SiblingOf(n) # {})} }
        : SS \in SubsetsOf(p, sh) }
        : sh \in ShareModes(p) }
        : p \in FocusParams }

ChainOK(dd) == dd.share = "none" \/ Tier = "thorough" \/ dd.var = 0

\* the carrier keeps the output files of all mocks apart (unless the world is about sharing)
Carrier(dd) == IF dd.param = "filename" THEN "dir" ELSE "filename"
Focus(dd) == RealParam(dd.param)
CarrierNodes(dd) ==
  CASE dd.share = "package" -> {}
    [] dd.share = "entries" -> {"root"}
    [] OTHER -> {"root"} \cup {r.id : r \in {x \in NodeRecs : x.kind = "entry"}}

\* background of a profile: [level -> [parameter -> value]]
Bg(profile, focus, rec) ==
  CASE profile = "mock" ->
         [root |-> [template |-> "root", all |-> TRUE] @@ ("require-template-schema-exists" :> FALSE),
          p1 |-> IF rec THEN [recursive |-> TRUE] ELSE << >>, p1r |-> IF rec THEN [recursive |-> TRUE] ELSE << >>]
    [] profile = "template" ->
         [root |-> [all |-> TRUE] @@ ("require-template-schema-exists" :> FALSE), p1 |-> IF rec THEN [recursive |-> TRUE] ELSE << >>, p1r |-> IF rec THEN [recursive |-> TRUE] ELSE << >>]
    [] profile = "schema" ->
         [root |-> [template |-> "root", all |-> TRUE], p1 |-> IF rec THEN [recursive |-> TRUE] ELSE << >>, p1r |-> IF rec THEN [recursive |-> TRUE] ELSE << >>]
    [] profile = "matryer" ->
         [root |-> [template |-> "matryer", all |-> TRUE], p1 |-> IF rec THEN [recursive |-> TRUE] ELSE << >>, p1r |-> IF rec THEN [recursive |-> TRUE] ELSE << >>]
    [] profile = "testify" ->      \* template unset: the default
         [root |-> [all |-> TRUE], p1 |-> IF rec THEN [recursive |-> TRUE] ELSE << >>, p1r |-> IF rec THEN [recursive |-> TRUE] ELSE << >>]
    [] profile = "sources" ->
         [root |-> [template |-> "root", all |-> TRUE] @@ ("require-template-schema-exists" :> FALSE)
                   @@ ("include-interface-regex" :> {"A"})]      \* all + include: the run logs a warning
    [] OTHER -> \* "select"
         [root |-> ([template |-> "root"] @@ ("require-template-schema-exists" :> FALSE))
                   @@ (IF focus \in {"recursive", "exclude-subpkg-regex"} THEN [all |-> TRUE] ELSE << >>)
                   @@ (IF focus = "exclude-subpkg-regex" THEN [recursive |-> TRUE] ELSE << >>)
                   @@ (IF focus = "exclude-interface-regex" THEN ("include-interface-regex" :> {"A", "D", "E"}) ELSE << >>),
          p1 |-> IF focus \in {"all", "include-interface-regex", "exclude-interface-regex"} THEN [recursive |-> TRUE] ELSE << >>,
          p1r |-> IF focus \in {"all", "include-interface-regex", "exclude-interface-regex"} THEN [recursive |-> TRUE] ELSE << >>]

BgSet(bg, n, p) == n \in DOMAIN bg /\ p \in DOMAIN bg[n]

\* in the schema profile every mock-specific level carries its own `sid` (see the harness: each schema
\* accepts exactly the sids of the mocks the contract expects to be validated against it)
SidNodes == {r.id : r \in {x \in NodeRecs : x.kind = "entry" \/ (x.kind = "iface" /\ EntryNodes(x.id) = {} /\ x.pkg \notin Unchecked)}}

ChainFocusNodes(dd) == dd.S \cup (IF dd.sib THEN UNION {SiblingOf(n) : n \in dd.S} ELSE {}) \cup NoiseNodes(dd) \cup NestedNodes(dd)

ChainIsSet(dd, n, p) ==
  LET bg == Bg(ProfileOf(dd.param), dd.param, "p1" \in dd.S) IN
  \/ (p = Focus(dd) /\ n \in ChainFocusNodes(dd))
  \/ (p = Carrier(dd) /\ n \in CarrierNodes(dd) /\ p # Focus(dd))
  \/ (p = "structname" /\ dd.share # "none" /\ KindOf(n) = "entry" /\ p # Focus(dd))    \* tell the mocks of a shared file apart
  \/ (p = "template-data" /\ ProfileOf(dd.param) = "schema" /\ n \in SidNodes)
  \/ BgSet(bg, n, p)

ChainValue(dd, n, p) ==
  LET bg == Bg(ProfileOf(dd.param), dd.param, "p1" \in dd.S) IN
  IF p = Focus(dd) /\ n \in ChainFocusNodes(dd) THEN ValueAt(p, n, ChainH(dd, n), ProfileOf(dd.param))
  ELSE IF BgSet(bg, n, p) THEN bg[n][p]
  ELSE ValueAt(p, n, 0, ProfileOf(dd.param))

-----------------------------------------------------------------------------
(* packed worlds *)
Profiles == {"mock", "template", "schema", "select"}
Vary(profile) ==
  CASE profile = "mock" -> {"dir", "filename", "pkgname", "structname", "template-data", "replace-type", "formatter", "force-file-write"}
    [] profile = "template" -> {"template", "dir", "filename", "pkgname", "structname", "template-data", "replace-type", "force-file-write",
                                "template-schema", "require-template-schema-exists"}
    [] profile = "schema" -> {"template-schema", "require-template-schema-exists", "template", "dir", "filename", "structname"}
    [] OTHER -> PerPackage \cup {"structname", "filename"}

Density(p, n) ==
  CASE KindOf(n) = "env" -> 20
    [] p \in {"dir", "filename"} -> 45
    [] p \in PerPackage -> 50
    [] OTHER -> 35

PackedDescs == [fam : {"packed"}, profile : Profiles, k : 1..NPacked]

PackedIsSet(dd, n, p) ==
  LET bg == Bg(dd.profile, "", Rnd(dd.k, 1, 1, 9) % 2 = 0) IN
  \/ /\ p \in Vary(dd.profile)
     /\ Allowed(p, n)
     /\ ~(dd.profile = "schema" /\ p = "template" /\ n \in {"env", "root"})      \* probes only, root always set (background)
     /\ ~(n \in Unchecked \/ (KindOf(n) \in {"iface", "entry"} /\ Rec(n).pkg \in Unchecked)) \/ p = "template-data"
     /\ Rnd(dd.k, ParamIdx(p), NodeIdx(n), 1) % 100 < Density(p, n)
  \/ (p = "template-data" /\ dd.profile = "schema" /\ n \in SidNodes)
  \/ BgSet(bg, n, p)

PackedValue(dd, n, p) ==
  LET bg == Bg(dd.profile, "", Rnd(dd.k, 1, 1, 9) % 2 = 0) IN
  IF p \in Vary(dd.profile) /\ ~(BgSet(bg, n, p) /\ Rnd(dd.k, ParamIdx(p), NodeIdx(n), 1) % 100 >= Density(p, n))
  THEN ValueAt(p, n, Rnd(dd.k, ParamIdx(p), NodeIdx(n), 2), dd.profile)
  ELSE IF BgSet(bg, n, p) THEN bg[n][p] ELSE ValueAt(p, n, 0, dd.profile)

-----------------------------------------------------------------------------
IsSetIn(dd, n, p) == Allowed(p, n) /\ IF dd.fam = "chain" THEN ChainIsSet(dd, n, p) ELSE PackedIsSet(dd, n, p)
ValueIn(dd, n, p) == IF dd.fam = "chain" THEN ChainValue(dd, n, p) ELSE PackedValue(dd, n, p)

World(dd) == [n \in NodeIds |-> [p \in {x \in AllParams : IsSetIn(dd, n, x)} |-> ValueIn(dd, n, p)]]

-----------------------------------------------------------------------------
(* well-formedness: the part of the input space on which the property fixes the outcome *)
IsProbe(t) == t \notin {"testify", "matryer"}

SameFile(cfg, m1, m2) ==
  LET d1 == EffScalar(cfg, "dir", m1.from)       d2 == EffScalar(cfg, "dir", m2.from)
      f1 == EffScalar(cfg, "filename", m1.from)  f2 == EffScalar(cfg, "filename", m2.from)
  IN /\ m1.pkg = m2.pkg
     /\ d1 = d2 /\ (d1 = DEFAULT \/ m1.letter = m2.letter)
     /\ f1 = f2 /\ (f1 = DEFAULT \/ m1.letter = m2.letter)

BuiltinKeys(t) == IF t = "matryer" THEN {"mock-build-tags", "with-resets", "stub-impl", "skip-ensure"} ELSE {"mock-build-tags", "unroll-variadic"}
BuiltinSafe(v, t) == v.t = "m" /\ DOMAIN v.kv \subseteq BuiltinKeys(t) /\ \A k \in DOMAIN v.kv : v.kv[k].t = "s"

WellFormed(cfg) ==
  LET ms == {m \in Mocks(cfg) : m.pkg \notin Unchecked} IN
  /\ \A m1, m2 \in ms : SameFile(cfg, m1, m2) =>
        \A p \in PerFile \cup {"pkgname"} : EffScalar(cfg, p, m1.from) = EffScalar(cfg, p, m2.from)
  /\ \A m \in Mocks(cfg) : ~IsProbe(EffScalar(cfg, "template", m.from)) =>
        /\ BuiltinSafe(EffMap(cfg, "template-data", m.from), EffScalar(cfg, "template", m.from))
        /\ BuiltinSafe(FileData(cfg, m), EffScalar(cfg, "template", m.from))
  \* the unchecked package never shares a file with a checked one (own package => own directory) and
  \* must itself be runnable: same agreement inside it
  /\ \A m1, m2 \in Mocks(cfg) \ ms : SameFile(cfg, m1, m2) =>
        \A p \in PerFile \cup {"pkgname"} : EffScalar(cfg, p, m1.from) = EffScalar(cfg, p, m2.from)

-----------------------------------------------------------------------------
(* export *)
MockParams == PerMock \cup PerFile
ExpectMock(cfg, m) ==
  [pkg |-> m.pkg, letter |-> m.letter, from |-> m.from, how |-> m.how, check |-> (m.pkg \notin Unchecked),
   mapcheck |-> (m.pkg \notin MapUnchecked),
   eff |-> [p \in MockParams |-> Eff(cfg, p, m.from)],
   src |-> [p \in MockParams \ MapParams |-> SourceOf(cfg, p, m.from)],
   filedata |-> FileData(cfg, m)]

ExpectPkg(cfg, p) ==
  [eff |-> [x \in PerPackage |-> EffScalar(cfg, x, p)],
   src |-> [x \in PerPackage |-> SourceOf(cfg, x, p)],
   discovered |-> {s \in Subs[p] \ Configured : DiscoveredBy(cfg, p, s)}]

Export(dd) ==
  LET cfg == World(dd) IN
  [desc |-> dd, cfg |-> cfg, wellformed |-> WellFormed(cfg),
   mocks |-> {ExpectMock(cfg, m) : m \in Mocks(cfg)},
   pkgs |-> [p \in Configured |-> ExpectPkg(cfg, p)],
   top |-> [p \in TopOnly |-> EffScalar(cfg, p, "flag")]]

Descs == {dd \in ChainDescs : ChainOK(dd)} \cup PackedDescs

Init == d \in Descs
Next == FALSE /\ UNCHANGED d
Spec == Init /\ [][Next]_d

Emit == LET e == Export(d) IN
        IF e.wellformed THEN PrintT(<<"CASE", ToJson(e)>>) ELSE PrintT(<<"SKIP", ToJson(d)>>)

\* the tree itself, exported once
Tree == [mapunchecked |-> MapUnchecked, nodes |-> NodeRecs, decl |-> Decl, tagged |-> Tagged, subs |-> Subs, unchecked |-> Unchecked, nodeseq |-> NodeSeq]
ASSUME PrintT(<<"TREE", ToJson(Tree)>>)
=============================================================================
