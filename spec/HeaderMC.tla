------------------------------ MODULE HeaderMC ------------------------------
(* Model constants for Header.tla *)
EXTENDS Header
MCTags       == {"a", "b"}
MCShapes     == {"none", "empty", "line1", "line3", "groups", "block1", "blockN", "mixed", "lead",
                 "apache", "bsdlist", "numbered", "heading", "indented", "dashlist", "blocklist", "trailsp",
                 "k8sblock", "blockslash", "blockbuild", "blocks2", "dneline", "dneblock", "othermarker", "nearmiss", "crlf", "bom",
                 "manylines", "manyblock", "tmplline", "tmplnote", "tmplblock",
                 "zs", "zlzp", "cf", "ctrl", "uniblock"}
MCFormatters == {"goimports", "gofmt", "noop"}
MCTemplates  == {"testify", "matryer"}
MCPlacements == {"separate", "inpkg", "intest", "xtest"}   \* xtest: external test package (pkgname src_test) in the source directory
MCPathKinds  == {"abs", "rel"}          \* boilerplate-file given absolute / relative to the working directory
MCTdLevels   == {"pkg", "both", "root"}
MCFsStates   == {"bare", "entries"}
MCSpellings  == {"full", "min", "spaced"}
MCSrcConstraints == SrcConsNames
MCSizes      == {"4k", "64k", "1m"}
MCSrcShapes  == {"one", "two", "empty"}         \* expression written fully parenthesised / with minimal parentheses
=============================================================================
