----------------------------- MODULE ReplaceLeak -----------------------------
(***************************************************************************)
(* C13, no-leak family (contract: LAccept / LBase of                       *)
(* ReplaceTypeContract.tla).  Code-shaped layer: the replace-type maps of  *)
(* the top level and of the packages R (recursive), Rin (sub-package of R, *)
(* listed explicitly or only discovered) and S, merged as the code does:   *)
(*   RootConfig.Initialize: root into every LISTED package (config.go      *)
(*   338-360), then for the recursive package its config into every        *)
(*   sub-package -- an existing (listed) entry is merged into, a           *)
(*   discovered one starts empty (config.go 362-405); mergeTypedMaps is    *)
(*   key by key, the destination wins, nested maps are copied, so nothing  *)
(*   is shared between levels.                                             *)
(* TLC enumerates every write set up to MaxWrites x listed/discovered,     *)
(* checks Impl => Contract and exports each case with the contract's       *)
(* expectation per package.                                                *)
(***************************************************************************)
EXTENDS ReplaceTypeContract

CONSTANTS MaxWrites

VARIABLES writes,     \* set of <<level, key>>
          listed,     \* Rin is listed under `packages:` (else only discovered through recursive: true)
          pc, cfg     \* cfg : level -> set of keys its replace-type map holds

lvars == <<writes, listed, pc, cfg>>

Slots == LLevels \X LKeys
LInit ==
  /\ writes \in {w \in SUBSET Slots : Cardinality(w) >= 1 /\ Cardinality(w) <= MaxWrites}
  /\ listed \in BOOLEAN
  /\ (\E k \in LKeys : <<"Rin", k>> \in writes) => listed       \* an entry for Rin can only be written if Rin is listed
  /\ pc = "root"
  /\ cfg = [lv \in LLevels |-> {k \in LKeys : <<lv, k>> \in writes}]

\* root into every listed package
MergeRoot ==
  /\ pc = "root" /\ pc' = "recursive"
  /\ cfg' = [cfg EXCEPT !.R = @ \cup cfg.root, !.S = @ \cup cfg.root,
                        !.Rin = IF listed THEN @ \cup cfg.root ELSE @]
  /\ UNCHANGED <<writes, listed>>
\* the recursive package into its sub-package (listed: merged into the existing entry; discovered: a fresh one)
InjectSub ==
  /\ pc = "recursive" /\ pc' = "done"
  /\ cfg' = [cfg EXCEPT !.Rin = @ \cup cfg.R]
  /\ UNCHANGED <<writes, listed>>

LNext == MergeRoot \/ InjectSub
LSpec == LInit /\ [][LNext]_lvars

ImplOutcome(p) == Outcome(LMock([k \in LKeys |-> k \in cfg[p]]))
LImplConforms == pc = "done" => \A p \in LPkgs : ImplOutcome(p) \in LAccept(writes, p)
\* the contract is not vacuous: somewhere a key must stay, somewhere it must change, somewhere it is open
LNoLeakDemanded == pc = "done" => \A p \in LPkgs : LAccept(writes, p) # {}

LEmit ==
  IF pc = "done"
  THEN PrintT(<<"LCASE", ToJson([writes |-> writes, listed |-> listed,
                                pkgs |-> [p \in LPkgs |-> [base |-> LBase, accept |-> LAccept(writes, p),
                                                           status |-> [k \in LKeys |-> LStatus(writes, p, k)],
                                                           impl |-> ImplOutcome(p)]]])>>)
  ELSE TRUE
=============================================================================
