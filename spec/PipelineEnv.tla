----------------------------- MODULE PipelineEnv -----------------------------
(***************************************************************************)
(* C10, environment dimension of the Frame clause.                         *)
(*                                                                         *)
(* "A run creates or modifies only the designated output files (plus their *)
(* parent directories); every other file in the tree is left               *)
(* byte-identical" holds for every process environment the tool is started *)
(* in and wherever its templates come from.  A world of Pipeline.tla is    *)
(* extended by                                                             *)
(*   env    the process environment class                                  *)
(*            normal          HOME (and so the user cache / config dirs)   *)
(*                            outside the tree                             *)
(*            no-home         neither HOME nor XDG_CACHE_HOME nor          *)
(*                            XDG_CONFIG_HOME defined (env -i style CI job; *)
(*                            GOCACHE / GOMODCACHE / GOPATH given)         *)
(*            home-in-tree    HOME is a directory INSIDE the tree          *)
(*            cache-in-tree   XDG_CACHE_HOME is a directory inside the tree *)
(*            tmpdir-in-tree  TMPDIR is a directory inside the tree        *)
(*   tsrc   where the custom template and its schema come from             *)
(*            file (file://)  |  http (http:// URL of a loopback server)   *)
(* The expectation is the one of the base world, with the frame split:     *)
(* paths below a directory that the environment itself hands to the        *)
(* process as its home / cache / temporary directory are left open         *)
(* ("either": the statement does not say whether a tool may keep per-user  *)
(* state there); EVERYTHING else in the tree stays byte-identical.  With   *)
(* no-home nothing is open.                                                *)
(***************************************************************************)
EXTENDS PipelineMC

EnvClasses == {"normal", "no-home", "home-in-tree", "cache-in-tree", "tmpdir-in-tree"}
TemplateSources == {"file", "http"}

\* the directory of the tree (relative to its root) the environment designates, "-" = none
EnvDir(e) == CASE e = "home-in-tree" -> "envhome"
               [] e = "cache-in-tree" -> "envcache"
               [] e = "tmpdir-in-tree" -> "envtmp"
               [] OTHER -> "-"
\* variables the class removes / points at EnvDir
EnvUnset(e) == IF e = "no-home" THEN {"HOME", "XDG_CACHE_HOME", "XDG_CONFIG_HOME"} ELSE {}
EnvSet(e) == CASE e = "home-in-tree" -> {"HOME"}
               [] e = "cache-in-tree" -> {"XDG_CACHE_HOME"}
               [] e = "tmpdir-in-tree" -> {"TMPDIR"}
               [] OTHER -> {}

\* base worlds: no fault / one failing stage of one file, output paths absent or occupied by user content
EnvBaseWorlds == {[fs0 |-> a, force |-> b, fault |-> c, missing |-> FALSE] :
                    a \in {AllAbsent, [f \in FileSet |-> IF f = "f2" THEN "user" ELSE "absent"]},
                    b \in {NoForce, AllForce},
                    c \in {NoFault} \cup {StageFault("f3", s) : s \in {"exec", "write"}}}

\* (the behaviour spec of the cfg only has to start: the cases are exported by the ASSUME below)
EnvOneWorld == {[fs0 |-> AllAbsent, force |-> NoForce, fault |-> NoFault, missing |-> FALSE]}

EnvWorlds == {[base |-> wd, env |-> e, tsrc |-> t] : wd \in EnvBaseWorlds, e \in EnvClasses, t \in TemplateSources}

EnvExpectation(x) ==
  [Expectation(x.base) EXCEPT !.others = {"same"}] @@
  [open_below |-> IF EnvDir(x.env) = "-" THEN {} ELSE {EnvDir(x.env)},      \* "either": left open by the statement
   unset |-> EnvUnset(x.env), point_at_envdir |-> EnvSet(x.env)]

ASSUME \A x \in EnvWorlds : PrintT(<<"ENVCASE", ToJson([world |-> x.base, env |-> x.env, tsrc |-> x.tsrc, envdir |-> EnvDir(x.env),
                                                       expect |-> EnvExpectation(x)])>>)
\* vacuity: a world without any home, one with an http template, one where nothing is open, one where something is
ASSUME \E x \in EnvWorlds : x.env = "no-home" /\ x.tsrc = "http" /\ EnvExpectation(x).open_below = {}
ASSUME \E x \in EnvWorlds : EnvExpectation(x).open_below # {}
=============================================================================
