---------------------------- MODULE ReplaceType ----------------------------
(***************************************************************************)
(* C13 -- replace-type substitutes exactly the configured types.          *)
(*                                                                         *)
(* A case is one source package with interface I1 (method M1 mentions the  *)
(* replaceable type in some position; Z is an unrelated method), possibly  *)
(* a second interface I2 in the same output file, and ONE replace-type     *)
(* mapping  (orig, KeyName) |-> To  written at one configuration level.    *)
(*                                                                         *)
(* Contract layer:  Accept  = the set of acceptable outcomes (rendered      *)
(*   signatures of every mock in the file + required / forbidden imports). *)
(*   A parameter/result whose type IS the configured named (or alias)      *)
(*   type -- identified by package path + name -- must be the replacement; *)
(*   the same type under another name (its alias / its target / an alias   *)
(*   in a third package) has no entry of its own and stays unchanged;      *)
(*   occurrences nested under a constructor ([]T, *T, map[K]T, chan T,     *)
(*   func(T) T, ...T) are left open by the documentation                   *)
(*   (docs/replace-type.md says "all instances", the property says         *)
(*   "exactly that named type"): every combination is accepted.            *)
(* Code-shaped layer: the replace-type map travels root -> package ->      *)
(*   interface -> configs entry by key-wise merges (config.go:230-300,     *)
(*   338-575), GetReplacement is consulted for top-level *types.Named /    *)
(*   *types.Alias only (template_generator.go:217-272), a replaced Var     *)
(*   imports only the replacement's package (method_scope.go:129-185), an  *)
(*   unreplaced one imports what its type mentions (populateImports).      *)
(* TLC runs the code-shaped layer on every case, reports whether its       *)
(* outcome is in Accept (`predicted`: a predicted violation is replayed by *)
(* the harness first -- only the binary convicts), checks the contract's   *)
(* own sanity as invariants, and exports the cases (world, Base, Accept)   *)
(* that the harness replays through the binary.                            *)
(***************************************************************************)
EXTENDS ReplaceTypeContract

CONSTANTS Positions, Others, SrcKinds, Targets, Levels, Placements,   \* the dimensions the contract speaks about
          Templates, Listings, Formatters, Kinds, Extras, TdOpts, Vis, DstStates,   \* how a case is observed / spelled: no influence on the expected outcome
          Wanted        \* set of dim tuples to export in full; {} = print dims only

VARIABLES pos, other, srckind, target, level, place,
          pc,           \* "root" -> "pkg" -> "iface" -> "render" -> "done"
          cfg,          \* [root, pkg, i1, i2, e0, e1] -> set of <<key, to>> (the replace-type map of that config)
          out           \* Impl outcome (after "render")

dims == <<pos, other, srckind, target, level, place>>
vars == <<pos, other, srckind, target, level, place, pc, cfg, out>>

\* The observation dimensions are defined here, next to the others, and handed to the harness:
\*   Templates  -- testify, matryer (go/parser projection of the output) and a probe template (TypeString, .Imports)
\*   Listings   -- which interfaces are spelled out under `interfaces:` although they carry no setting of their own
\*                 ("min": only where the level needs it; "I1"; "all"): unlisted interfaces get a deep copy of the
\*                 package config (config.go GetInterfaceConfig), listed ones a merge (PackageConfig.Initialize)
\*   Formatters -- goimports removes unused imports, gofmt / noop leave the template's import block alone
\*   Kinds      -- the kind of the replaced and of the replacing type (s struct, b named basic, i interface / s struct,
\*                 i interface, m map, p alias of a pointer).  The contract speaks about names only; what the templates
\*                 derive from the type (nil guards, zero values, ...) is covered by the harness's "native twin" oracle:
\*                 the mock rendered under {T |-> R} must be textually the mock rendered, without the setting, for a
\*                 twin interface written with R directly.
ASSUME PrintT(<<"OBSDIMS", ToJson([templ |-> Templates, listing |-> Listings, fmt |-> Formatters, kinds |-> Kinds,
                                   extra |-> Extras, tdopt |-> TdOpts, vis |-> Vis, dststate |-> DstStates])>>)

-----------------------------------------------------------------------------
(* Code-shaped layer *)

Keys(m) == {e[1] : e \in m}
\* mergeTypedMaps (config.go:252-270): key by key, the destination's value wins
MergeTyped(src, dst) == dst \cup {e \in src : e[1] \notin Keys(dst)}

\* what the config file writes into the replace-type map of each config section
Written(c, lv, key, tg, tw) ==      \* tw: further entries written wherever an entry for the key is written
  LET m1 == {<<key, ToOf(tg)>>} \cup tw
      m2 == {<<key, To2Of(tg)>>} \cup tw
  IN CASE lv = "root"    -> IF c = "root" THEN m1 ELSE {}
       [] lv = "pkg"     -> IF c = "pkg" THEN m1 ELSE {}
       [] lv = "iface"   -> IF c = "i1" THEN m1 ELSE {}
       [] lv = "entry"   -> IF c = "e0" THEN m1 ELSE {}
       [] lv = "entry2"  -> IF c = "e1" THEN m1 ELSE {}
       [] lv = "entry2x" -> IF c = "e0" THEN m1 ELSE IF c = "e1" THEN m2 ELSE {}
       [] lv = "entry2y" -> IF c = "e0" THEN m2 ELSE IF c = "e1" THEN m1 ELSE {}
       [] lv = "iface2x" -> IF c = "i1" THEN m1 ELSE IF c = "i2" THEN m2 ELSE {}
       [] lv = "iface2y" -> IF c = "i1" THEN m2 ELSE IF c = "i2" THEN m1 ELSE {}
       [] lv = "over_pi" -> IF c = "pkg" THEN m2 ELSE IF c = "i1" THEN m1 ELSE {}
       [] lv = "over_re" -> IF c = "root" THEN m2 ELSE IF c = "e0" THEN m1 ELSE {}

Init ==
  /\ pos \in Positions /\ other \in Others /\ srckind \in SrcKinds /\ target \in Targets
  /\ level \in Levels /\ place \in Placements
  /\ (Wanted # {} => dims \in Wanted)
  /\ pc = "root"
  /\ (pos \in GenericPos => srckind = "named")            \* the local configured type has one spelling
  /\ (level \in {"iface2x", "iface2y"} => other \in {"ifaceT", "ifaceU"})     \* a config for I2 needs I2
  /\ cfg = [c \in {"root", "pkg", "i1", "i2", "e0", "e1"} |-> Written(c, level, KeyFor(pos, srckind), target, TwinMaps(other, srckind))]
  /\ out = [mocks |-> << >>, req |-> {}, forb |-> {}]

\* RootConfig.Initialize: mergeConfigs(root, pkg)                      config.go:338-360
MergeRootIntoPkg ==
  /\ pc = "root" /\ pc' = "pkg"
  /\ cfg' = [cfg EXCEPT !.pkg = MergeTyped(cfg.root, cfg.pkg)]
  /\ UNCHANGED <<pos, other, srckind, target, level, place, out>>
\* PackageConfig.Initialize merges the package config into every LISTED interface (config.go:470-485);
\* an unlisted interface gets a deep copy of the package config (GetInterfaceConfig, config.go:487-503).
\* Which path an interface takes depends on the spelling of the config file (Listings), not on the case.
Listed(c)   == MergeTyped(cfg.pkg, cfg[c])
Unlisted(c) == cfg.pkg
MergePkgIntoIfaces ==
  /\ pc = "pkg" /\ pc' = "iface"
  /\ \E p1 \in (IF cfg.i1 = {} /\ level \in {"root", "pkg"} THEN {"listed", "unlisted"} ELSE {"listed"}) :
     \E p2 \in (IF level \in {"iface2x", "iface2y"} THEN {"listed"} ELSE {"listed", "unlisted"}) :
        cfg' = [cfg EXCEPT !.i1 = IF p1 = "listed" THEN Listed("i1") ELSE Unlisted("i1"),
                           !.i2 = IF p2 = "listed" THEN Listed("i2") ELSE Unlisted("i2")]
  /\ UNCHANGED <<pos, other, srckind, target, level, place, out>>
\* InterfaceConfig.Initialize: iface config into every configs entry      config.go:560-570
MergeIfaceIntoEntries ==
  /\ pc = "iface" /\ pc' = "render"
  /\ cfg' = [cfg EXCEPT !.e0 = MergeTyped(cfg.i1, cfg.e0), !.e1 = MergeTyped(cfg.i1, cfg.e1)]
  /\ UNCHANGED <<pos, other, srckind, target, level, place, out>>

\* GetReplacement on the mock's own config, for top-level *types.Named / *types.Alias only
ImplType(t, variadic, m) ==
  IF ~variadic /\ t.k = "named" /\ <<t.p, t.n>> \in Keys(m)
  THEN (CHOOSE e \in m : e[1] = <<t.p, t.n>>)[2] ELSE t

ImplMocks ==
  LET mks == MocksOf(other, level) IN
  [i \in DOMAIN mks |->
     LET ms == MethodsOfIface(pos, other, srckind, mks[i].iface)
         m == cfg[mks[i].entry] IN
     [struct |-> mks[i].struct, iface |-> mks[i].iface,
      methods |-> [j \in DOMAIN ms |->
         [name |-> ms[j].name,
          params |-> [k \in DOMAIN ms[j].params |-> ImplType(ms[j].params[k].t, ms[j].params[k].variadic, m)],
          results |-> [k \in DOMAIN ms[j].results |-> ImplType(ms[j].results[k], FALSE, m)],
          variadic |-> Len(ms[j].params) > 0 /\ ms[j].params[Len(ms[j].params)].variadic]]]]

\* Registry.addImport never imports the file's own package: not for an in-package mock, and (fix 056b15a) not for
\* a type -- such as a replace-type target -- that lives in a separate destination package either (only the source
\* package can share the destination path without being the output package: external _test package).
ImplOutcome == Outcome(ImplMocks)

Render ==
  /\ pc = "render" /\ pc' = "done"
  /\ out' = ImplOutcome
  /\ UNCHANGED <<pos, other, srckind, target, level, place, cfg>>

Next == MergeRootIntoPkg \/ MergePkgIntoIfaces \/ MergeIfaceIntoEntries \/ Render
Spec == Init /\ [][Next]_vars

-----------------------------------------------------------------------------
(* Impl => Contract, and sanity of the contract itself *)
TheAccept == Accept(pos, other, srckind, target, level)
TheBase   == Base(pos, other, srckind, target, level)

\* (no operator of the contract mentions place: one representative suffices)
Rep(S) == CHOOSE x \in S : TRUE
\* Impl => Contract (checked as an invariant; no known deviation is left after fix 056b15a)
ImplConforms == pc = "done" => out \in TheAccept
\* the contract is satisfiable, always demands a change on a covered exact position, never touches uncovered mocks
ContractSane == pc = "done" /\ place = Rep(Placements) =>
  /\ TheAccept # {}
  /\ (pos \in {"param", "result", "both", "unnamed", "qualparam", "mixed", "tparamreal"} => MustChange(pos, other, srckind, target, level))
  /\ \A oc \in TheAccept : \A i \in DOMAIN oc.mocks :
        ~Covered(MocksOf(other, level)[i], level) => oc.mocks[i] = TheBase.mocks[i]
  /\ \A oc \in TheAccept : oc.req \cap oc.forb = {}
\* the level is irrelevant to what a covered mock looks like (same effect at every level)
SameEffectAtEveryLevel == pc = "done" /\ place = Rep(Placements) =>
  \A l2 \in Levels : \A ch \in RelevantChoices(pos) :
     LET a == RenderAll(pos, other, srckind, target, level, ch, TRUE)
         b == RenderAll(pos, other, srckind, target, l2, ch, TRUE)
     IN \A i \in DOMAIN a : \A k \in DOMAIN b :
          (a[i].iface = b[k].iface /\ MockTo(MocksOf(other, level)[i], level, target) # NoTarget
             /\ MockTo(MocksOf(other, level)[i], level, target) = MockTo(MocksOf(other, l2)[k], l2, target))
            => a[i].methods = b[k].methods

-----------------------------------------------------------------------------
(* Export *)
CaseRecord ==
  [pos |-> pos, other |-> other, srckind |-> srckind, target |-> target, level |-> level,
   place |-> place,
   key |-> [p |-> KeyFor(pos, srckind)[1], n |-> KeyFor(pos, srckind)[2]], to |-> ToOf(target), to2 |-> To2Of(target),
   ifaces |-> Ifaces(pos, other, srckind),
   mocks |-> MocksOf(other, level),
   base |-> TheBase, accept |-> TheAccept, impl |-> out,
   predicted |-> (out \notin TheAccept), mustchange |-> MustChange(pos, other, srckind, target, level)]

Emit ==
  IF pc = "done"
  THEN IF Wanted = {}
       THEN LET acc == TheAccept
                bm  == TheBase.mocks
            IN PrintT(<<"DIM", ToJson([d |-> dims, predicted |-> (out \notin acc), must |-> (\A oc \in acc : oc.mocks # bm)])>>)
       ELSE PrintT(<<"CASE", ToJson(CaseRecord)>>)
  ELSE TRUE
=============================================================================
