----------------------------- MODULE HeaderHist -----------------------------
(***************************************************************************)
(* C17 over histories: the same output file is regenerated                 *)
(* (force-file-write: true) while the header configuration changes between *)
(* runs -- mock-build-tags changed / added / removed, boilerplate-file      *)
(* changed / added / removed.  State = the header currently in the file,   *)
(* action = Run(H).  Code-shaped: generation does not look at the existing *)
(* file (cmd/mockery.go: Generate, Exists, force => WriteFile replaces the *)
(* content).  Contract: after EVERY run the file satisfies                 *)
(* HeaderContract!Demands for the configuration of THAT run -- whatever    *)
(* was there before.                                                       *)
(***************************************************************************)
EXTENDS HeaderImpl

CONSTANTS HExprs,       \* build expressions used in histories (incl. NoExpr)
          HBoilers,     \* <<shape, nl>> pairs used in histories (incl. <<"none", FALSE>>)
          Formatters, MaxSteps

VARIABLES fmt, hist, file

hvars == <<fmt, hist, file>>
Configs == [expr : HExprs, shape : {b[1] : b \in HBoilers}, nl : BOOLEAN]
ValidConfigs == {h \in Configs : <<h.shape, h.nl>> \in HBoilers}

HInit == fmt \in Formatters /\ hist = << >> /\ file = << >>
Run(h) ==
  /\ Len(hist) < MaxSteps
  /\ hist' = Append(hist, h)
  /\ file' = Produced(h.expr, h.shape, h.nl, fmt)      \* the old content plays no role
  /\ UNCHANGED fmt
HNext == \E h \in ValidConfigs : Run(h)
HSpec == HInit /\ [][HNext]_hvars

Last == hist[Len(hist)]
AfterEveryRun ==
  Len(hist) > 0 =>
    /\ RuleDecides(file)
    /\ Demands(Last.expr, GeneratedByRule(file), VerbatimByRule(file, BoilerLines(Last.shape)),
               [n \in AsgNames |-> IncludedByRule(file, n)])
\* the histories are not vacuous: some step changes the truth table, some removes the constraint, some the boilerplate
Expect(h) == [gen |-> TRUE, verbatim |-> TRUE, incl |-> Table(h.expr)]

HEmit ==
  IF Len(hist) = MaxSteps
  THEN PrintT(<<"HIST", ToJson([fmt |-> fmt,
                               steps |-> [i \in DOMAIN hist |-> [expr |-> hist[i].expr, shape |-> hist[i].shape, nl |-> hist[i].nl,
                                                                 boiler |-> BoilerLines(hist[i].shape),
                                                                 expect |-> Expect(hist[i]),
                                                                 predicted |-> Produced(hist[i].expr, hist[i].shape, hist[i].nl, fmt)]]])>>)
  ELSE TRUE
=============================================================================
