-------------------------- MODULE MockerySkeleton --------------------------
(***************************************************************************)
(* RUN SKELETON of one `mockery` run -- layer 1 of the root specification  *)
(* (see Mockery.tla).  State: what an observer of the hook events          *)
(* (`grep -rn verifhook.Emit /repo`) can reconstruct.  For every event     *)
(*   Chk(e)    the set of NAMED clauses <<name, holds>> the event must     *)
(*             satisfy in the current state, and                           *)
(*   SkEff(e)  its effect on the skeleton state.                           *)
(* Sk(e) == all clauses hold /\ effect.                                    *)
(*                                                                         *)
(* Used twice, unchanged:                                                  *)
(*   Mockery.tla       every action of the code-shaped closed model is     *)
(*                     <world guard> /\ Sk(<the event it emits>) /\ ...    *)
(*   MockeryTrace.tla  IsEvent(l) /\ e = Trace[l] /\ Sk(e), a failed       *)
(*                     clause is reported by name (REJECT)                 *)
(*                                                                         *)
(* An event is a record with at least `ev`; the other fields per event:    *)
(*   InitBegin {n}  InitPkg {pkg}  Recursive {pkg, psegs}                  *)
(*   Exclude {parent, sub, psegs, ssegs}                                   *)
(*   Inject {parent, sub, psegs, ssegs, existed}   InitEnd {n}             *)
(*   Parsed {n}   Select {pkg, iface, gen}                                 *)
(*   ResolveIter {i}   ResolveLoop {iface}                                 *)
(*   Resolved {iface, dabs, dsegs, fnsegs, pkgname, struct, schema}        *)
(*   Collect {file, fabs, fsegs, pkg, iface, struct, pkgname, tmpl}        *)
(*   FileBegin {file, n}                                                   *)
(*   Stage {stage, ok, tmpl, schema, hasschema, validated}                 *)
(*   Generated {file, bytes}  Failpoint {}  Exists {file, exists, force}   *)
(*   Write {file, nfile, bytes}   Missing {pkg, iface}   Exit {code}       *)
(*     (nfile: the file's absolute, cleaned spelling -- what Tree.changed  *)
(*      is spelled in; equal to file unless `dir` is relative)             *)
(*   ProcExit {code}  (status seen by the operating system)                *)
(*   Tree {changed}   (files of the tree whose content differs afterwards) *)
(* Paths arrive split into segments (psegs: package path, dsegs/fnsegs/    *)
(* fsegs: directory, file name, output file): the projection only changes  *)
(* the representation, every comparison is made here.                      *)
(*                                                                         *)
(* xb carries an optional EXPECTATION of the contract for the run (set by  *)
(* the closed model from Mockery!Expectation, by the trace harness from    *)
(* the exported case): with xb.on the `contract-*` clauses bind the events *)
(* to it; without (runs of other checks) only the world-free clauses       *)
(* apply.                                                                  *)
(***************************************************************************)
EXTENDS Integers, Sequences, FiniteSets, TLC

VARIABLES ini,      \* the current Initialize pass
          tbl,      \* packages known to be in the package table
          pass1,    \* summary of the first Initialize pass
          sl,       \* parse / select / resolve
          colls,    \* output file -> collection
          fl,       \* per-file loop
          fin,      \* missing interfaces, exit
          xb        \* contract expectation of this run (optional) and what of it was consumed

sk == <<ini, tbl, pass1, sl, colls, fl, fin, xb>>

ResolveCap == 20                      \* config.go:723
StageSet   == {"template", "schema", "exec", "format"}
StageBefore(st) == CASE st = "template" -> {}
                     [] st = "schema"   -> {"template"}
                     [] st = "exec"     -> {"template"}
                     [] st = "format"   -> {"template", "exec"}
                     [] OTHER -> {"?"}
Builtin == {"testify", "matryer"}

Ext(f, k, v) == [x \in DOMAIN f \cup {k} |-> IF x = k THEN v ELSE f[x]]
SeqSet(s) == {s[j] : j \in 1..Len(s)}
IsPre(a, b) == Len(a) <= Len(b) /\ SubSeq(b, 1, Len(a)) = a
Holds(C) == \A c \in C : c[2]
Why(C) == {c[1] : c \in {x \in C : ~x[2]}}

\* filepath.Clean on path segments (no empty segments; `abs`: the path starts at the root)
RECURSIVE CleanAcc(_, _, _)
CleanAcc(abs, acc, s) ==
  IF s = << >> THEN acc
  ELSE LET h == Head(s) IN
       IF h = "." \/ h = "" THEN CleanAcc(abs, acc, Tail(s))
       ELSE IF h = ".." THEN
              IF Len(acc) > 0 /\ acc[Len(acc)] # ".." THEN CleanAcc(abs, SubSeq(acc, 1, Len(acc) - 1), Tail(s))
              ELSE IF abs THEN CleanAcc(abs, acc, Tail(s))              \* "/.." is "/"
              ELSE CleanAcc(abs, Append(acc, h), Tail(s))
       ELSE CleanAcc(abs, Append(acc, h), Tail(s))
Clean(abs, s) == CleanAcc(abs, << >>, s)

-----------------------------------------------------------------------------
(* initial skeleton state *)
NoRes == [iface |-> "-", dabs |-> FALSE, dsegs |-> << >>, fnsegs |-> << >>, pkgname |-> "", struct |-> "", schema |-> ""]
Ini0   == [open |-> FALSE, passes |-> 0, loop |-> 0, npkgs |-> 0, seen |-> {}, recs |-> {}, cur |-> "",
           excl |-> {}, inj |-> {}, fresh |-> {}, segs |-> << >>]
Pass10 == [done |-> FALSE, recs |-> {}, excl |-> {}, inj |-> {}, n |-> 0]
Sl0    == [parsed |-> FALSE, sel |-> << >>, curi |-> << >>, riter |-> -1, res |-> NoRes, ncol |-> << >>, reserr |-> FALSE]
Fl0    == [begun |-> {}, cur |-> "", oks |-> {}, bad |-> FALSE, hasschema |-> FALSE, checked |-> FALSE, exists |-> FALSE,
           force |-> FALSE, bytes |-> -1, written |-> {}, nwritten |-> {}, failed |-> {}]
Fin0   == [miss |-> {}, exited |-> FALSE, code |-> -1, proc |-> -1]
NoExp  == [sel |-> {}, known |-> {}, mocks |-> {}, force |-> {}, src |-> {}, exit |-> "any"]
Xb0    == [on |-> FALSE, exp |-> NoExp, used |-> {}]
XbOf(x) == [on |-> TRUE, exp |-> x, used |-> {}]

SkInit(x) == /\ ini = Ini0 /\ tbl = {} /\ pass1 = Pass10 /\ sl = Sl0 /\ colls = << >> /\ fl = Fl0 /\ fin = Fin0
             /\ xb = x
SkReset(x) == /\ ini' = Ini0 /\ tbl' = {} /\ pass1' = Pass10 /\ sl' = Sl0 /\ colls' = << >> /\ fl' = Fl0 /\ fin' = Fin0
              /\ xb' = x

-----------------------------------------------------------------------------
(* derived *)
Alive     == ~fin.exited
InSelect  == sl.curi # << >> /\ fl.begun = {}
InFile    == fl.cur # ""
\* nothing of the select / resolve / collect phase is left half done
OpenDone  == /\ sl.riter = -1 /\ sl.res = NoRes
             /\ sl.curi # << >> => sl.ncol[sl.curi] >= 1
Key(e)    == <<e.pkg, e.iface>>
SelKey(e) == e.pkg \o "|" \o e.iface
Pair(e)   == <<e.parent, e.sub>>
MockRec(e) == [pkg |-> e.pkg, iface |-> e.iface, file |-> e.file, struct |-> e.struct, pkgname |-> e.pkgname, tmpl |-> e.tmpl]
SegOf(p)  == IF p \in DOMAIN ini.segs THEN ini.segs[p] ELSE <<"?", p>>
\* a package r announced Recursive in this pass lies strictly between the injecting package a and the new package k
\* and did not exclude k: then r, not a, is k's nearest recursive ancestor
NearerRecursive(x) == \E r \in ini.recs : /\ r # x[1] /\ r # x[2]
                                           /\ IsPre(SegOf(x[1]), SegOf(r)) /\ IsPre(SegOf(r), SegOf(x[2]))
                                           /\ <<r, x[2]>> \notin ini.excl
ForceOf(f) == LET S == {x \in xb.exp.force : x.file = f} IN IF S = {} THEN {TRUE, FALSE} ELSE {x.force : x \in S}

-----------------------------------------------------------------------------
(* CLAUSES.  Names are stable identifiers: lib/runtrace.py maps each to the property it belongs to. *)
Chk(e) ==
  CASE e.ev = "InitBegin" ->
         {<<"not-after-exit", Alive>>,
          <<"init-not-nested", ~ini.open>>,
          <<"init-before-parse", ~sl.parsed>>,
          <<"init-at-most-twice", ini.passes < 2>>,
          <<"second-init-starts-from-first-result", ini.passes >= 1 => e.n = Cardinality(tbl)>>}
    [] e.ev = "InitPkg" ->
         {<<"not-after-exit", Alive>>,
          <<"inside-init-loop1", ini.open /\ ini.loop = 1>>,
          <<"package-visited-once-per-pass", e.pkg \notin ini.seen>>,
          <<"no-more-packages-than-announced", Cardinality(ini.seen) < ini.npkgs>>,
          <<"second-init-visits-known-package", ini.passes >= 1 => e.pkg \in tbl>>}
    [] e.ev = "Recursive" ->
         {<<"not-after-exit", Alive>>,
          <<"inside-init", ini.open>>,
          <<"all-packages-visited-before-expansion", Cardinality(ini.seen) = ini.npkgs>>,
          <<"recursive-package-was-visited", e.pkg \in ini.seen>>,
          <<"recursive-once-per-pass", e.pkg \notin ini.recs>>}
    [] e.ev = "Exclude" ->
         {<<"not-after-exit", Alive>>,
          <<"inside-expansion-of-parent", ini.open /\ ini.loop = 2 /\ ini.cur = e.parent>>,
          <<"sub-at-or-below-parent", IsPre(e.psegs, e.ssegs)>>,
          <<"decided-once-per-parent", Pair(e) \notin ini.excl \cup ini.inj>>}
    [] e.ev = "Inject" ->
         {<<"not-after-exit", Alive>>,
          <<"inside-expansion-of-parent", ini.open /\ ini.loop = 2 /\ ini.cur = e.parent>>,
          <<"sub-at-or-below-parent", IsPre(e.psegs, e.ssegs)>>,
          <<"decided-once-per-parent", Pair(e) \notin ini.excl \cup ini.inj>>,
          <<"existed-agrees-with-table", e.existed = (e.sub \in tbl)>>,
          <<"second-init-injects-nothing-new", ini.passes >= 1 => e.existed>>,
          <<"contract-settings-source", xb.on /\ ~e.existed => [sub |-> e.sub, parent |-> e.parent] \in xb.exp.src>>}
    [] e.ev = "InitEnd" ->
         {<<"not-after-exit", Alive>>,
          <<"inside-init", ini.open>>,
          <<"all-packages-visited", Cardinality(ini.seen) = ini.npkgs>>,
          <<"table-size-agrees", e.n = Cardinality(tbl)>>,
          <<"nearest-recursive-ancestor-injects", \A x \in ini.fresh : ~NearerRecursive(x)>>,
          \* every expansion and every decision of the first pass is taken again, and the table is the same.  (A decision
          \* may turn from Inject into Exclude: an explicitly configured package below a recursive one picks up the
          \* ancestor's exclude-subpkg-regex only when the ancestor injects it at the end of pass 1; the package it
          \* injected itself stays in the table.)
          <<"second-init-repeats-first", pass1.done => /\ pass1.recs \subseteq ini.recs /\ pass1.inj \subseteq ini.inj \cup ini.excl
                                                       /\ pass1.excl \subseteq ini.excl /\ e.n = pass1.n>>}
    [] e.ev = "Parsed" ->
         {<<"not-after-exit", Alive>>,
          <<"parse-once", ~sl.parsed>>,
          <<"parse-after-initialize", ~ini.open /\ ini.passes >= 1>>}
    [] e.ev = "Select" ->
         {<<"not-after-exit", Alive>>,
          <<"select-after-parse", sl.parsed>>,
          <<"select-before-files", fl.begun = {}>>,
          <<"select-package-in-table", e.pkg \in tbl>>,
          <<"select-once-per-interface", Key(e) \notin DOMAIN sl.sel>>,
          <<"previous-interface-complete", OpenDone>>,
          <<"contract-selection", xb.on /\ SelKey(e) \in xb.exp.known => e.gen = (SelKey(e) \in xb.exp.sel)>>}
    [] e.ev = "ResolveIter" ->
         {<<"not-after-exit", Alive>>,
          <<"resolve-only-for-selected-interface-or-file", InSelect \/ InFile>>,
          <<"iterations-count-up", e.i = (IF sl.riter = -1 THEN 0 ELSE sl.riter)>>,
          <<"iterations-bounded", e.i <= ResolveCap>>,
          <<"previous-mock-collected-first", e.i = 0 => sl.res = NoRes>>}
    [] e.ev = "ResolveLoop" ->
         {<<"not-after-exit", Alive>>,
          <<"loop-only-at-cap", sl.riter = ResolveCap + 1>>}
    [] e.ev = "Resolved" ->
         {<<"not-after-exit", Alive>>,
          <<"resolved-after-a-pass", sl.riter >= 1>>,
          <<"resolved-within-cap", sl.riter <= ResolveCap>>,
          <<"resolved-names-current-interface",
            IF InFile THEN e.iface = "" ELSE (sl.curi # << >> /\ fl.begun = {} /\ e.iface = sl.curi[2])>>}
    [] e.ev = "Collect" ->
         {<<"not-after-exit", Alive>>,
          <<"collect-before-files", fl.begun = {}>>,
          <<"collect-for-selected-interface", sl.curi = Key(e)>>,
          <<"collect-follows-its-resolution", sl.res # NoRes /\ sl.res.iface = e.iface>>,
          <<"file-is-clean-join-of-resolved-dir-and-filename",
            sl.res # NoRes => (e.fabs = sl.res.dabs /\ e.fsegs = Clean(sl.res.dabs, sl.res.dsegs \o sl.res.fnsegs))>>,
          <<"struct-equals-resolved-structname", sl.res # NoRes => e.struct = sl.res.struct>>,
          <<"pkgname-equals-resolved-pkgname", sl.res # NoRes => e.pkgname = sl.res.pkgname>>,
          <<"one-source-package-per-file", e.file \in DOMAIN colls => colls[e.file].pkg = e.pkg>>,
          <<"one-pkgname-per-file", e.file \in DOMAIN colls => colls[e.file].pkgname = e.pkgname>>,
          <<"one-template-per-file", e.file \in DOMAIN colls => colls[e.file].tmpl = e.tmpl>>,
          <<"contract-mock", xb.on => (MockRec(e) \in xb.exp.mocks /\ MockRec(e) \notin xb.used)>>}
    [] e.ev = "FileBegin" ->
         {<<"not-after-exit", Alive>>,
          <<"file-was-collected", e.file \in DOMAIN colls>>,
          <<"file-produced-once", e.file \notin fl.begun>>,
          <<"n-equals-mocks-collected-into-file", e.file \in DOMAIN colls => e.n = Len(colls[e.file].mocks)>>,
          <<"collection-complete-before-files", OpenDone>>}
    [] e.ev = "Stage" ->
         {<<"not-after-exit", Alive>>,
          <<"inside-a-file", InFile>>,
          <<"known-stage", e.stage \in StageSet>>,
          <<"stage-once", e.stage \notin fl.oks>>,
          <<"stages-in-order", StageBefore(e.stage) \subseteq fl.oks>>,
          <<"no-stage-after-failure", ~fl.bad>>,
          <<"no-stage-after-write", fl.cur \notin fl.written>>,
          <<"stage-template-is-collected-template",
            e.stage = "template" /\ e.ok /\ fl.cur \in DOMAIN colls => e.tmpl = colls[fl.cur].tmpl>>,
          <<"stage-schema-is-first-mocks-resolved-schema",
            e.stage = "template" /\ e.ok /\ fl.cur \in DOMAIN colls => e.schema = colls[fl.cur].schema>>,
          <<"builtin-template-has-schema", e.stage = "template" /\ e.ok /\ e.tmpl \in Builtin => e.hasschema>>,
          <<"schema-in-hand-is-applied", e.stage = "schema" /\ e.ok => e.validated = fl.hasschema>>,
          <<"schema-failure-needs-schema", e.stage = "schema" /\ ~e.ok => fl.hasschema>>}
    [] e.ev = "Generated" ->
         {<<"not-after-exit", Alive>>,
          <<"is-current-file", e.file = fl.cur>>,
          <<"all-four-stages-ok", fl.oks = StageSet /\ ~fl.bad>>}
    [] e.ev = "Failpoint" ->
         {<<"inside-a-file", InFile>>}
    [] e.ev = "Exists" ->
         {<<"not-after-exit", Alive>>,
          <<"is-current-file", e.file = fl.cur>>,
          <<"contract-force-file-write", xb.on => e.force \in ForceOf(e.file)>>}
    [] e.ev = "Write" ->
         {<<"not-after-exit", Alive>>,
          <<"is-current-file", e.file = fl.cur>>,
          <<"all-four-stages-ok", fl.oks = StageSet>>,
          <<"no-failed-step", ~fl.bad>>,
          <<"existence-checked", fl.checked>>,
          <<"absent-or-forced", fl.checked => (~fl.exists \/ fl.force)>>,
          <<"written-once", e.file \notin fl.written>>,
          <<"bytes-equal-generated", fl.bytes >= 0 => e.bytes = fl.bytes>>}
    [] e.ev = "Missing" ->
         {<<"not-after-exit", Alive>>,
          <<"missing-only-after-parse", sl.parsed>>,
          <<"missing-interface-was-never-discovered", Key(e) \notin DOMAIN sl.sel>>,
          <<"missing-reported-once", Key(e) \notin fin.miss>>}
    [] e.ev = "Exit" ->
         {<<"exit-once", Alive>>,
          <<"zero-only-after-parse", e.code = 0 => sl.parsed>>,
          <<"zero-only-if-nothing-open", e.code = 0 => (~ini.open /\ OpenDone /\ ~sl.reserr)>>,
          <<"zero-only-if-every-selected-interface-collected",
            e.code = 0 => \A k \in DOMAIN sl.sel : sl.sel[k] => sl.ncol[k] >= 1>>,
          <<"zero-only-if-all-collected-written", e.code = 0 => DOMAIN colls \subseteq fl.written>>,
          <<"zero-only-if-nothing-failed", e.code = 0 => fl.failed = {}>>,
          <<"zero-only-if-no-missing-interface", e.code = 0 => fin.miss = {}>>,
          <<"contract-exit-status", xb.on /\ xb.exp.exit # "any" => ((e.code = 0) <=> (xb.exp.exit = "zero"))>>,
          <<"contract-all-mocks-collected", xb.on /\ e.code = 0 => xb.used = xb.exp.mocks>>}
    [] e.ev = "ProcExit" ->
         {<<"status-agrees-with-exit-event", fin.exited => ((e.code = 0) <=> (fin.code = 0))>>,
          <<"zero-status-needs-exit-event-once-parsed", (sl.parsed /\ ~fin.exited) => e.code # 0>>,
          <<"process-exits-once", fin.proc = -1>>}
    [] e.ev = "Tree" ->
         {<<"only-written-files-changed", SeqSet(e.changed) \subseteq fl.nwritten>>}
    [] OTHER -> {<<"known-event", FALSE>>}

-----------------------------------------------------------------------------
(* EFFECTS *)
IniEff(e) ==
  CASE e.ev = "InitBegin" -> [Ini0 EXCEPT !.open = TRUE, !.passes = ini.passes, !.loop = 1, !.npkgs = e.n, !.segs = ini.segs]
    [] e.ev = "InitPkg"   -> [ini EXCEPT !.seen = @ \cup {e.pkg}]
    [] e.ev = "Recursive" -> [ini EXCEPT !.loop = 2, !.cur = e.pkg, !.recs = @ \cup {e.pkg}, !.segs = Ext(@, e.pkg, e.psegs)]
    [] e.ev = "Exclude"   -> [ini EXCEPT !.excl = @ \cup {Pair(e)}, !.segs = Ext(Ext(@, e.parent, e.psegs), e.sub, e.ssegs)]
    [] e.ev = "Inject"    -> [ini EXCEPT !.inj = @ \cup {Pair(e)}, !.fresh = IF e.existed THEN @ ELSE @ \cup {Pair(e)},
                                         !.segs = Ext(Ext(@, e.parent, e.psegs), e.sub, e.ssegs)]
    [] e.ev = "InitEnd"   -> [ini EXCEPT !.open = FALSE, !.passes = @ + 1, !.loop = 0, !.cur = ""]
    [] OTHER -> ini
TblEff(e) ==
  CASE e.ev = "InitPkg" -> IF ini.passes = 0 THEN tbl \cup {e.pkg} ELSE tbl
    [] e.ev = "Inject"  -> tbl \cup {e.sub}
    [] OTHER -> tbl
Pass1Eff(e) ==
  IF e.ev = "InitEnd" /\ ~pass1.done
  THEN [done |-> TRUE, recs |-> ini.recs, excl |-> ini.excl, inj |-> ini.inj, n |-> e.n]
  ELSE pass1
SlEff(e) ==
  CASE e.ev = "Parsed"      -> [sl EXCEPT !.parsed = TRUE]
    [] e.ev = "Select"      -> [sl EXCEPT !.sel = Ext(@, Key(e), e.gen),
                                          !.curi = IF e.gen THEN Key(e) ELSE << >>,
                                          !.ncol = IF e.gen THEN Ext(@, Key(e), 0) ELSE @]
    [] e.ev = "ResolveIter" -> [sl EXCEPT !.riter = e.i + 1]
    [] e.ev = "ResolveLoop" -> [sl EXCEPT !.riter = -1, !.reserr = TRUE]
    [] e.ev = "Resolved"    -> IF InFile THEN [sl EXCEPT !.riter = -1]
                               ELSE [sl EXCEPT !.riter = -1,
                                               !.res = [iface |-> e.iface, dabs |-> e.dabs, dsegs |-> e.dsegs, fnsegs |-> e.fnsegs,
                                                        pkgname |-> e.pkgname, struct |-> e.struct, schema |-> e.schema]]
    [] e.ev = "Collect"     -> [sl EXCEPT !.res = NoRes, !.ncol = Ext(@, Key(e), (IF Key(e) \in DOMAIN @ THEN @[Key(e)] ELSE 0) + 1)]
    [] OTHER -> sl
CollsEff(e) ==
  IF e.ev # "Collect" THEN colls
  ELSE IF e.file \in DOMAIN colls
       THEN [colls EXCEPT ![e.file].mocks = Append(@, [iface |-> e.iface, struct |-> e.struct])]
       ELSE Ext(colls, e.file, [pkg |-> e.pkg, pkgname |-> e.pkgname, tmpl |-> e.tmpl, schema |-> sl.res.schema,
                                fabs |-> e.fabs, fsegs |-> e.fsegs,
                                mocks |-> <<[iface |-> e.iface, struct |-> e.struct]>>])
FlEff(e) ==
  CASE e.ev = "FileBegin" -> [fl EXCEPT !.begun = @ \cup {e.file}, !.cur = e.file, !.oks = {}, !.bad = FALSE, !.hasschema = FALSE,
                                        !.checked = FALSE, !.exists = FALSE, !.force = FALSE, !.bytes = -1]
    [] e.ev = "Stage"     -> IF e.ok THEN [fl EXCEPT !.oks = @ \cup {e.stage},
                                                     !.hasschema = IF e.stage = "template" THEN e.hasschema ELSE @]
                             ELSE [fl EXCEPT !.bad = TRUE, !.failed = @ \cup {fl.cur}]
    [] e.ev = "Generated" -> [fl EXCEPT !.bytes = e.bytes]
    [] e.ev = "Failpoint" -> [fl EXCEPT !.bad = TRUE, !.failed = @ \cup {fl.cur}]
    [] e.ev = "Exists"    -> [fl EXCEPT !.checked = TRUE, !.exists = e.exists, !.force = e.force,
                                        !.failed = IF e.exists /\ ~e.force THEN @ \cup {fl.cur} ELSE @]
    [] e.ev = "Write"     -> [fl EXCEPT !.written = @ \cup {e.file}, !.nwritten = @ \cup {e.nfile}]
    [] OTHER -> fl
FinEff(e) ==
  CASE e.ev = "Missing"  -> [fin EXCEPT !.miss = @ \cup {Key(e)}]
    [] e.ev = "Exit"     -> [fin EXCEPT !.exited = TRUE, !.code = e.code]
    [] e.ev = "ProcExit" -> [fin EXCEPT !.proc = e.code]
    [] OTHER -> fin
XbEff(e) == IF e.ev = "Collect" /\ xb.on THEN [xb EXCEPT !.used = @ \cup {MockRec(e)}] ELSE xb

SkEff(e) == /\ ini' = IniEff(e) /\ tbl' = TblEff(e) /\ pass1' = Pass1Eff(e) /\ sl' = SlEff(e)
            /\ colls' = CollsEff(e) /\ fl' = FlEff(e) /\ fin' = FinEff(e) /\ xb' = XbEff(e)

Sk(e) == Holds(Chk(e)) /\ SkEff(e)

\* what the code as it is additionally does; a disagreement is DRIFT (a note), never a verdict
Drift(e) ==
  (IF e.ev \in {"FileBegin", "Stage", "Generated", "Exists", "Write", "Missing", "Collect", "Select"} /\ fl.failed # {}
   THEN {"continues-after-a-failed-file"} ELSE {})
  \cup (IF e.ev = "Stage" /\ e.stage = "exec" /\ "schema" \notin fl.oks THEN {"exec-before-schema"} ELSE {})
  \cup (IF e.ev = "Exists" /\ fl.oks # StageSet THEN {"stat-before-format"} ELSE {})
  \cup (IF e.ev = "FileBegin" /\ fl.cur # "" /\ fl.cur \notin fl.written THEN {"next-file-before-write"} ELSE {})
  \cup (IF e.ev = "Parsed" /\ ini.passes # 2 THEN {"initialize-not-run-twice"} ELSE {})
  \* config.go:380-385 orders by the LENGTH of the import path (a string)
  \cup (IF e.ev = "Recursive" /\ \E r \in ini.recs : Len(r) < Len(e.pkg) THEN {"recursive-not-longest-path-first"} ELSE {})

\* safety restated over the skeleton state (redundant with the clauses; cheap cross-check in both uses)
WrittenWereCollected == fl.written \subseteq DOMAIN colls
WrittenNeverFailed   == fl.written \cap fl.failed = {}
ZeroExitMeansAllWritten == fin.exited /\ fin.code = 0 => (DOMAIN colls \subseteq fl.written /\ fin.miss = {})
UnselectedNeverCollected == \A k \in DOMAIN sl.ncol : k \in DOMAIN sl.sel /\ sl.sel[k]
=============================================================================
