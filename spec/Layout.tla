------------------------------- MODULE Layout -------------------------------
(***************************************************************************)
(* C11, second half: where things are on disk and what the documented      *)
(* template variables mean for a given layout.                             *)
(*                                                                         *)
(* A world is a small directory tree below a scratch root R:               *)
(*     R            (not a Go module; may hold a config file)              *)
(*     R/w          module root, package "wroot"                           *)
(*     R/w/a        package "apk"                                          *)
(*     R/w/a/b      package "bpk"                                          *)
(*     R/w/k        package "kpk"                                          *)
(* Directories are sequences of segments relative to R.  The absolute      *)
(* prefix of R is only known when the world is materialised, so strings    *)
(* carry the placeholder RootStr which the harness substitutes (in the     *)
(* config it writes and in the expectation alike).                         *)
(*                                                                         *)
(* Contract layer: the *documented* bindings (config.TemplateData doc      *)
(*   comments, docs/configuration.md): ConfigDir = directory of the config *)
(*   file actually used, InterfaceDirRelative = InterfaceDir relative to   *)
(*   ConfigDir, ...                                                        *)
(* Code-shaped layer: config/config.go:152-175 (which file is used: flag,  *)
(*   then MOCKERY_CONFIG, then search), internal/config/config.go:12-31    *)
(*   (upward search), config.go:224-230 and 678-693 (ConfigDir and         *)
(*   InterfaceDirRelative from the absolute path of the file in use --     *)
(*   defect D14 of DESIGN section 8 was repaired by commit 77bca2b).       *)
(***************************************************************************)
EXTENDS Naturals, Sequences, FiniteSets, TLC

RootStr == "%R%"
UNSPEC  == "%UNSPEC%"        \* the documentation does not say (no verdict from such a binding)

Dirs    == {<< >>, <<"w">>, <<"w", "a">>, <<"w", "a", "b">>, <<"w", "k">>}
ModDirs == Dirs \ {<< >>}    \* directories inside the Go module (possible cwd / package dirs)

IsPrefix(p, d) == Len(p) <= Len(d) /\ SubSeq(d, 1, Len(p)) = p
Ancestors(d)   == {p \in Dirs : IsPrefix(p, d)}                 \* including d itself

RECURSIVE JoinSegs(_)
JoinSegs(s) == IF Len(s) = 0 THEN ""
               ELSE IF Len(s) = 1 THEN s[1]
               ELSE s[1] \o "/" \o JoinSegs(Tail(s))

Abs(d) == IF Len(d) = 0 THEN RootStr ELSE RootStr \o "/" \o JoinSegs(d)

\* length of the longest common prefix
RECURSIVE CommonLen(_, _)
CommonLen(a, b) == IF Len(a) = 0 \/ Len(b) = 0 \/ a[1] # b[1] THEN 0
                   ELSE 1 + CommonLen(Tail(a), Tail(b))

Ups(n) == [i \in 1..n |-> ".."]

\* filepath.Rel(from, to) for two directories of the tree
RelSegs(from, to) == LET c == CommonLen(from, to) IN Ups(Len(from) - c) \o SubSeq(to, c + 1, Len(to))
RelStr(from, to)  == IF RelSegs(from, to) = << >> THEN "." ELSE JoinSegs(RelSegs(from, to))

Last(s)   == s[Len(s)]
Parent(d) == SubSeq(d, 1, Len(d) - 1)

-----------------------------------------------------------------------------
(* Packages of the world *)
PkgName(d) == CASE d = <<"w">> -> "wroot"
                [] d = <<"w", "a">> -> "apk"
                [] d = <<"w", "a", "b">> -> "bpk"
                [] d = <<"w", "k">> -> "kpk"
ModulePath == "example.com/w"
PkgPath(d) == IF Len(d) = 1 THEN ModulePath ELSE ModulePath \o "/" \o JoinSegs(Tail(d))
\* Source-file kinds: the file the interfaces are declared in, per package.  The bindings InterfaceFile /
\* InterfaceDir / InterfaceDirRelative must denote the REAL file, whatever the file says about itself:
\*   w      svc.go       starts with  //line /nonexistent/abs/gen.go:1      (absolute target, before the package clause)
\*   w/a    sv c%o%.go   a space and a non-ASCII letter in the name (%o% = small omega)
\*   w/a/b  gogo.go      //line tmpl/mid.qtpl:7 between package clause and declarations (relative target)
\*   w/k    go_log.go    starts with  //line tmpl/gen.qtpl:1                (relative target, before the package clause)
\* (gogo / go_log: names whose letters also occur in the suffix ".go": trimSuffix is not trimRight)
\* Every package also has a file a0.go that sorts first and declares no configured interface: the interfaces are
\* never in the first file of their package.
FirstFile == "a0.go"
SrcFile(d) == CASE d = <<"w">> -> "svc.go"
                [] d = <<"w", "a">> -> "sv c%o%.go"
                [] d = <<"w", "a", "b">> -> "gogo.go"
                [] d = <<"w", "k">> -> "go_log.go"
SrcStem(d) == CASE d = <<"w">> -> "svc"
                [] d = <<"w", "a">> -> "sv c%o%"
                [] d = <<"w", "a", "b">> -> "gogo"
                [] d = <<"w", "k">> -> "go_log"

-----------------------------------------------------------------------------
(* Layouts.  mode: how mockery learns about the config file.               *)
(*   search_yml / search_yaml : no flag, no env; a file .mockery.yml /      *)
(*        .mockery.yaml lies in cfgdir, an ancestor-or-self of cwd          *)
(*   search_both              : .mockery.yaml AND .mockery.yml in cfgdir    *)
(*   flag_rel / flag_abs      : --config <path>, relative to cwd / absolute *)
(*   env_rel / env_abs        : MOCKERY_CONFIG=<path>                       *)
(*   flagenv_rel / flagenv_abs: --config <path> AND MOCKERY_CONFIG=<other>  *)
(* decoy: a second, different config file that must NOT be used:           *)
(*   search: .mockery.yml or .mockery.yaml in a strict ancestor of cfgdir   *)
(*        (the nearest directory holding ANY recognised name wins);         *)
(*   search_both: the .mockery.yml next to the .mockery.yaml (the code      *)
(*        looks for .yaml first; the documentation is silent, so the        *)
(*        contract accepts either file, used consistently);                 *)
(*   flag / env: .mockery.yml in cwd (explicit wins over search);           *)
(*   flagenv: the file MOCKERY_CONFIG names (command line wins, docs        *)
(*        "Config sources").                                                *)
SearchModes   == {"search_yml", "search_yaml", "search_both"}
FlagEnvModes  == {"flagenv_rel", "flagenv_abs"}
ExplicitModes == {"flag_rel", "flag_abs", "env_rel", "env_abs"} \cup FlagEnvModes
RelModes      == {"flag_rel", "env_rel", "flagenv_rel"}
Modes         == SearchModes \cup ExplicitModes

CfgFileName(m) == CASE m = "search_yml" -> ".mockery.yml"
                    [] m \in {"search_yaml", "search_both"} -> ".mockery.yaml"
                    [] OTHER -> "cfg.yml"
\* the decoy of a search layout carries either recognised name (dname): a differently named file further up must
\* not beat the nearer one

NoDecoy == <<"-">>

DecoyNames == {".mockery.yml", ".mockery.yaml", "envcfg.yml"}
\* via: how the working directory is reached.  "phys": as it is; "symroot": through R/lnw, a symlink to the module
\* root R/w; "symsub": through R/w/la, a symlink to the package directory R/w/a.  mockery is started with the LOGICAL
\* path as cwd and $PWD; explicit config parameters are spelled through the same link.
Vias == {"phys", "symroot", "symsub"}
Layouts ==
  {[cwd |-> c, mode |-> m, cfgdir |-> g, decoy |-> y, dname |-> n, via |-> v] :
      c \in ModDirs, m \in Modes, g \in Dirs, y \in Dirs \cup {NoDecoy}, n \in DecoyNames, v \in Vias}
DecoyName(l) == l.dname

WellFormed(l) ==
  /\ (l.via = "symsub" => IsPrefix(<<"w", "a">>, l.cwd))
  /\ (l.via # "phys" => (l.decoy = NoDecoy /\ l.mode \in {"search_yml", "search_yaml", "flag_abs", "env_rel"}))
  /\ (l.via # "phys" /\ l.mode \in ExplicitModes => l.cfgdir \in {l.cwd, <<"w">>})
  /\ l.mode \in FlagEnvModes <=> l.dname = "envcfg.yml"
  /\ l.decoy = NoDecoy \/ l.mode \notin {"search_yml", "search_yaml"} => l.dname # ".mockery.yaml"
  /\ l.mode \in SearchModes => l.cfgdir \in Ancestors(l.cwd)
  /\ l.mode \in {"search_yml", "search_yaml"} =>
        l.decoy = NoDecoy \/ (l.decoy \in Ancestors(l.cfgdir) /\ l.decoy # l.cfgdir)
  /\ l.mode = "search_both" => l.decoy = l.cfgdir
  /\ l.mode \in ExplicitModes \ FlagEnvModes => l.decoy \in {NoDecoy, l.cwd}
  /\ l.mode \in FlagEnvModes => l.decoy \in {l.cwd, l.cfgdir, << >>}

AllLayouts == {l \in Layouts : WellFormed(l)}

\* the config files that exist in the world: <<directory, file name, role>>
CfgFiles(l) == {<<l.cfgdir, CfgFileName(l.mode), "real">>}
               \cup (IF l.decoy = NoDecoy THEN {} ELSE {<<l.decoy, DecoyName(l), "decoy">>})

\* what is passed on the command line or, in the env modes, in MOCKERY_CONFIG ("" = nothing)
\* how a directory is spelled when it is reached from the (logical) working directory, or named on the command line
LogSegs(l, d) ==
  CASE l.via = "symroot" /\ Len(d) >= 1 -> <<"lnw">> \o Tail(d)
    [] l.via = "symsub" /\ IsPrefix(<<"w", "a">>, d) -> <<"w", "la">> \o SubSeq(d, 3, Len(d))
    [] OTHER -> d
\* how go/packages spells a package directory: module root as found from the working directory + import path
IfSegs(l, d) == IF l.via = "symroot" THEN LogSegs(l, d) ELSE d
LogAbs(l, d) == Abs(LogSegs(l, d))

ConfigParam(l) ==
  CASE l.mode \in SearchModes -> ""
    [] l.mode \in RelModes ->
         IF RelStr(LogSegs(l, l.cwd), LogSegs(l, l.cfgdir)) = "." THEN CfgFileName(l.mode)
         ELSE RelStr(LogSegs(l, l.cwd), LogSegs(l, l.cfgdir)) \o "/" \o CfgFileName(l.mode)
    [] OTHER -> LogAbs(l, l.cfgdir) \o "/" \o CfgFileName(l.mode)
\* flagenv modes: what MOCKERY_CONFIG holds next to the --config flag
EnvParam(l) == IF l.mode \in FlagEnvModes THEN Abs(l.decoy) \o "/" \o DecoyName(l) ELSE ""

-----------------------------------------------------------------------------
(* Contract: which file is the configuration, and the documented bindings *)

SearchNames == {".mockery.yml", ".mockery.yaml"}
\* upward search: the nearest ancestor-or-self of cwd that holds a config file
SearchHit(l) ==
  LET holders == {d \in Ancestors(l.cwd) : \E f \in CfgFiles(l) : f[1] = d /\ f[2] \in SearchNames}
  IN  CHOOSE d \in holders : \A e \in holders : Len(e) <= Len(d)

\* command line before environment before search (docs/configuration.md, Config sources)
ConfigDirUsed(l) == IF l.mode \in ExplicitModes THEN l.cfgdir ELSE SearchHit(l)
\* the files the contract allows to be THE configuration (roles)
RolesAllowed(l) == IF l.mode \in ExplicitModes THEN {"real"}
                   ELSE {f[3] : f \in {g \in CfgFiles(l) : g[1] = SearchHit(l) /\ g[2] \in SearchNames}}
DecoyMayWin(l)  == "decoy" \in RolesAllowed(l)

DocConfigDir(l)       == Abs(ConfigDirUsed(l))
DocIfaceDir(d)        == Abs(d)
\* (with the symlinked module root BETWEEN the config directory and the interface the relative path may name either
\*  the link or its target: not specified)
DocIfaceDirRel(l, d)  == IF l.via = "symroot" /\ ConfigDirUsed(l) = << >> THEN UNSPEC
                         ELSE IF IsPrefix(ConfigDirUsed(l), d) THEN RelStr(ConfigDirUsed(l), d) ELSE UNSPEC
DocIfaceFile(d)       == Abs(d) \o "/" \o SrcFile(d)

-----------------------------------------------------------------------------
(* Code-shaped (after fix 77bca2b and df637ce):
   config.go:152-175  the file in use = --config, else MOCKERY_CONFIG, else the upward search of
                      internal/config/config.go:12-31, which tries .mockery.yaml before .mockery.yml in each directory;
   config.go:224-230  the root config's `config` parameter is overwritten with the ABSOLUTE path of that file,
   config.go:693      ConfigDir = filepath.Dir of it,
   config.go:678-686  InterfaceDirRelative = InterfaceDir relative to that directory, "." when not below it. *)
ImplRoleUsed(l) ==
  IF l.mode \in ExplicitModes THEN "real"
  ELSE LET fs == {g \in CfgFiles(l) : g[1] = SearchHit(l) /\ g[2] \in SearchNames} IN
       IF \E g \in fs : g[2] = ".mockery.yaml" THEN (CHOOSE g \in fs : g[2] = ".mockery.yaml")[3]
       ELSE (CHOOSE g \in fs : TRUE)[3]

ImplConfigDirDenotes(l) == ConfigDirUsed(l)
\* ... spelled the way the file was found: os.Getwd() honours $PWD, so the upward search and filepath.Abs of a relative
\* parameter walk the LOGICAL parents; go/packages names the interface files by IfSegs.  The relative path is computed
\* on the spellings (pathlib RelativeTo), so it degrades to "." when the two spell one directory differently -- which
\* is the case for a config file inside a symlinked package directory (via = "symsub"): DevIfaceDirRel there.
ImplConfigDir(l)        == LogAbs(l, ImplConfigDirDenotes(l))
ImplIfaceDir(l, d)      == Abs(IfSegs(l, d))
ImplIfaceDirRel(l, d)   == IF IsPrefix(LogSegs(l, ImplConfigDirDenotes(l)), IfSegs(l, d))
                           THEN RelStr(LogSegs(l, ImplConfigDirDenotes(l)), IfSegs(l, d)) ELSE "."

\* where the code-shaped binding does not denote the documented one (none since 77bca2b; kept so that the
\* exported cases say so and a regression shows up as an unexpected, not as a predicted, deviation)
DevConfigDir(l)      == ImplConfigDirDenotes(l) # ConfigDirUsed(l)
DevIfaceDirRel(l, d) == DocIfaceDirRel(l, d) # UNSPEC /\ ImplIfaceDirRel(l, d) # DocIfaceDirRel(l, d)

\* what TLC checks about this module (ASSUMEs of TemplateResolveMC over AllLayouts)
NoKnownDeviation(l) == /\ ~DevConfigDir(l)
                       /\ \A d \in ModDirs : DevIfaceDirRel(l, d) =>
                             l.via = "symsub" /\ IsPrefix(<<"w", "a">>, ConfigDirUsed(l))
RealConfigIsUsed(l) == ImplRoleUsed(l) = "real" /\ "real" \in RolesAllowed(l)
=============================================================================
