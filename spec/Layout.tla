------------------------------- MODULE Layout -------------------------------
(***************************************************************************)
(* C11, second half: where things are on disk and what the documented      *)
(* template variables mean for a given layout.                             *)
(*                                                                         *)
(* A world is a small directory tree below a scratch root R:               *)
(*     R            (not a Go module; may hold a config file)              *)
(*     R/w          module root, package "wroot"                           *)
(*     R/w/a        package "apk"                                          *)
(*     R/w/a/b      package "bpk"                                          *)
(*     R/w/k        package "kpk"                                          *)
(* Directories are sequences of segments relative to R.  The absolute      *)
(* prefix of R is only known when the world is materialised, so strings    *)
(* carry the placeholder RootStr which the harness substitutes (in the     *)
(* config it writes and in the expectation alike).                         *)
(*                                                                         *)
(* Contract layer: the *documented* bindings (config.TemplateData doc      *)
(*   comments, docs/configuration.md): ConfigDir = directory of the config *)
(*   file actually used, InterfaceDirRelative = InterfaceDir relative to   *)
(*   ConfigDir, ...                                                        *)
(* Code-shaped layer: config/config.go:152-173 (which file is used),       *)
(*   internal/config/config.go:12-31 (upward search), config.go:670-696    *)
(*   (ConfigDir = filepath.Dir of the `config` PARAMETER,                  *)
(*   InterfaceDirRelative relative to the WORKING DIRECTORY) -- the two    *)
(*   deviations of DESIGN section 8 / D14 are the operators ImplConfigDir  *)
(*   and ImplIfaceDirRel.                                                  *)
(***************************************************************************)
EXTENDS Naturals, Sequences, FiniteSets, TLC

RootStr == "%R%"
UNSPEC  == "%UNSPEC%"        \* the documentation does not say (no verdict from such a binding)

Dirs    == {<< >>, <<"w">>, <<"w", "a">>, <<"w", "a", "b">>, <<"w", "k">>}
ModDirs == Dirs \ {<< >>}    \* directories inside the Go module (possible cwd / package dirs)

IsPrefix(p, d) == Len(p) <= Len(d) /\ SubSeq(d, 1, Len(p)) = p
Ancestors(d)   == {p \in Dirs : IsPrefix(p, d)}                 \* including d itself

RECURSIVE JoinSegs(_)
JoinSegs(s) == IF Len(s) = 0 THEN ""
               ELSE IF Len(s) = 1 THEN s[1]
               ELSE s[1] \o "/" \o JoinSegs(Tail(s))

Abs(d) == IF Len(d) = 0 THEN RootStr ELSE RootStr \o "/" \o JoinSegs(d)

\* length of the longest common prefix
RECURSIVE CommonLen(_, _)
CommonLen(a, b) == IF Len(a) = 0 \/ Len(b) = 0 \/ a[1] # b[1] THEN 0
                   ELSE 1 + CommonLen(Tail(a), Tail(b))

Ups(n) == [i \in 1..n |-> ".."]

\* filepath.Rel(from, to) for two directories of the tree
RelSegs(from, to) == LET c == CommonLen(from, to) IN Ups(Len(from) - c) \o SubSeq(to, c + 1, Len(to))
RelStr(from, to)  == IF RelSegs(from, to) = << >> THEN "." ELSE JoinSegs(RelSegs(from, to))

Last(s)   == s[Len(s)]
Parent(d) == SubSeq(d, 1, Len(d) - 1)

-----------------------------------------------------------------------------
(* Packages of the world *)
PkgName(d) == CASE d = <<"w">> -> "wroot"
                [] d = <<"w", "a">> -> "apk"
                [] d = <<"w", "a", "b">> -> "bpk"
                [] d = <<"w", "k">> -> "kpk"
ModulePath == "example.com/w"
PkgPath(d) == IF Len(d) = 1 THEN ModulePath ELSE ModulePath \o "/" \o JoinSegs(Tail(d))
SrcFile    == "svc.go"                                   \* every package declares its interfaces in svc.go

-----------------------------------------------------------------------------
(* Layouts.  mode: how mockery learns about the config file.               *)
(*   search_yml / search_yaml : no flag, no env; a file .mockery.yml /      *)
(*        .mockery.yaml lies in cfgdir, an ancestor-or-self of cwd          *)
(*   flag_rel / flag_abs      : --config <path>, relative to cwd / absolute *)
(*   env_rel / env_abs        : MOCKERY_CONFIG=<path>                       *)
(* decoy: a second, different config file that must NOT be used:           *)
(*   search: .mockery.yml in a strict ancestor of cfgdir (nearest wins);    *)
(*   explicit: .mockery.yml in cwd (explicit wins over search).             *)
SearchModes   == {"search_yml", "search_yaml"}
ExplicitModes == {"flag_rel", "flag_abs", "env_rel", "env_abs"}
Modes         == SearchModes \cup ExplicitModes

CfgFileName(m) == CASE m = "search_yml" -> ".mockery.yml"
                    [] m = "search_yaml" -> ".mockery.yaml"
                    [] OTHER -> "cfg.yml"

NoDecoy == <<"-">>

Layouts ==
  {[cwd |-> c, mode |-> m, cfgdir |-> g, decoy |-> y] :
      c \in ModDirs, m \in Modes, g \in Dirs, y \in Dirs \cup {NoDecoy}}

WellFormed(l) ==
  /\ l.mode \in SearchModes => /\ l.cfgdir \in Ancestors(l.cwd)
                               /\ l.decoy = NoDecoy \/ (l.decoy \in Ancestors(l.cfgdir) /\ l.decoy # l.cfgdir)
  /\ l.mode \in ExplicitModes => l.decoy \in {NoDecoy, l.cwd}

AllLayouts == {l \in Layouts : WellFormed(l)}

\* the config files that exist in the world: <<directory, file name, role>>
CfgFiles(l) == {<<l.cfgdir, CfgFileName(l.mode), "real">>}
               \cup (IF l.decoy = NoDecoy THEN {} ELSE {<<l.decoy, ".mockery.yml", "decoy">>})

\* what is passed on the command line / in the environment ("" = nothing)
ConfigParam(l) ==
  CASE l.mode \in SearchModes -> ""
    [] l.mode \in {"flag_rel", "env_rel"} ->
         IF RelStr(l.cwd, l.cfgdir) = "." THEN CfgFileName(l.mode)
         ELSE RelStr(l.cwd, l.cfgdir) \o "/" \o CfgFileName(l.mode)
    [] OTHER -> Abs(l.cfgdir) \o "/" \o CfgFileName(l.mode)

-----------------------------------------------------------------------------
(* Contract: which file is the configuration, and the documented bindings *)

\* upward search: the nearest ancestor-or-self of cwd that holds a config file
SearchHit(l) ==
  LET holders == {d \in Ancestors(l.cwd) : \E f \in CfgFiles(l) : f[1] = d /\ f[2] \in {".mockery.yml", ".mockery.yaml"}}
  IN  CHOOSE d \in holders : \A e \in holders : Len(e) <= Len(d)

ConfigDirUsed(l) == IF l.mode \in ExplicitModes THEN l.cfgdir ELSE SearchHit(l)
RoleUsed(l) == LET d == ConfigDirUsed(l) IN
               IF l.mode \in ExplicitModes THEN "real"
               ELSE (CHOOSE f \in CfgFiles(l) : f[1] = d)[3]

DocConfigDir(l)       == Abs(ConfigDirUsed(l))
DocIfaceDir(d)        == Abs(d)
DocIfaceDirRel(l, d)  == IF IsPrefix(ConfigDirUsed(l), d) THEN RelStr(ConfigDirUsed(l), d) ELSE UNSPEC
DocIfaceFile(d)       == Abs(d) \o "/" \o SrcFile

-----------------------------------------------------------------------------
(* Code-shaped: config.go:686 ConfigDir = filepath.Dir of c.ConfigFile -- the `config` parameter, which is
   empty when the file was found by searching; config.go:670-682 InterfaceDirRelative is computed against
   os.Getwd() and falls back to "." when the interface is not below it. *)
GoDirOfParam(l) ==
  CASE l.mode \in SearchModes -> "."                                          \* filepath.Dir("") = "."
    [] l.mode \in {"flag_rel", "env_rel"} -> RelStr(l.cwd, l.cfgdir)           \* Dir("x/cfg.yml") = "x", Dir("cfg.yml") = "."
    [] OTHER -> Abs(l.cfgdir)

ImplConfigDir(l)      == GoDirOfParam(l)
ImplIfaceDirRel(l, d) == IF IsPrefix(l.cwd, d) THEN RelStr(l.cwd, d) ELSE "."

\* directory a ConfigDir string denotes: relative strings are relative to the working directory
ImplConfigDirDenotes(l) ==
  CASE l.mode \in SearchModes -> l.cwd
    [] OTHER -> l.cfgdir

\* D14 classes: where the code-shaped binding does not denote the documented one
DevConfigDir(l)      == ImplConfigDirDenotes(l) # ConfigDirUsed(l)
DevIfaceDirRel(l, d) == DocIfaceDirRel(l, d) # UNSPEC /\ ImplIfaceDirRel(l, d) # DocIfaceDirRel(l, d)

\* what TLC checks about this module (cfg: INVARIANT on the MC state that ranges over AllLayouts)
ConfigDirDeviatesOnlyWhenFoundAbove(l) ==
  DevConfigDir(l) <=> (l.mode \in SearchModes /\ l.cfgdir # l.cwd)
IfaceDirRelDeviatesOnlyWhenCwdIsNotConfigDir(l, d) ==
  DevIfaceDirRel(l, d) => ConfigDirUsed(l) # l.cwd
RealConfigIsUsed(l) == RoleUsed(l) = "real"
=============================================================================
