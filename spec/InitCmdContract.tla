-------------------------- MODULE InitCmdContract --------------------------
(***************************************************************************)
(* C18, contract layer: what `mockery init <package>` promises, as pure    *)
(* operators.  They are the single source of truth used three times:       *)
(*   1. InitCmd.tla checks its code-shaped actions against them (TLC),     *)
(*   2. InitCmd.tla exports them with every case (`allow`/`expect`) so the *)
(*      replay harness only has to compare,                                *)
(*   3. InitCmdTrace.tla evaluates them on the op log recorded from the    *)
(*      real binary.                                                       *)
(*                                                                         *)
(* Property text (properties.jsonl C18):                                   *)
(*  a. a configuration file is written only if none exists at the target   *)
(*     path; an existing file is never modified and failure is reported;   *)
(*  b. the file written is accepted by mockery itself,                     *)
(*  c. states the documented defaults,                                     *)
(*  d. lists exactly the named package with `all: true` -- the package     *)
(*     path loads back unchanged whatever characters it contains,          *)
(*  e. a subsequent plain `mockery` run mocks all interfaces of it.        *)
(***************************************************************************)
EXTENDS Naturals, Sequences, FiniteSets

CONSTANTS DocInit,      \* key -> JSON text of the value, from the `mockery init` example of docs/configuration.md
          DocTable      \* key -> JSON text of the default, from the parameter table of docs/configuration.md

None == "-"

(* ------------------------------------------------------------------ a. *)
\* presence of the target path: "yes" when lstat finds anything there -- a file, a directory, a symbolic link
\* even when it dangles: something exists at the path, so it is never modified and failure is reported --
\* "no" when nothing is there.
\* parentOK: the directory the target path lies in exists.  When it does not, the statement does not
\* demand that init creates it: failing without creating anything and succeeding are both acceptable.
InitAllowed(presence, parentOK) ==
  IF presence = "yes" THEN {[ok |-> FALSE, after |-> "same"]}
  ELSE IF parentOK THEN {[ok |-> TRUE, after |-> "created"]}
  ELSE {[ok |-> TRUE, after |-> "created"], [ok |-> FALSE, after |-> "same"]}

\* `mockery init` with no package argument, or with several: the statement is about `init <package>`; whatever
\* the command does with another argument shape it does not touch an existing file, and it either fails leaving
\* nothing behind or succeeds with a file (never a failure that leaves a file).
InitAllowedOtherArgs(presence) ==
  IF presence = "yes" THEN {[ok |-> FALSE, after |-> "same"]}
  ELSE {[ok |-> TRUE, after |-> "created"], [ok |-> FALSE, after |-> "same"]}

\* Concurrent inits on one target path are a history too: whichever comes second finds the file existing.
\* oks: how many of the concurrent commands reported success.  On an absent target (parent present) exactly
\* one does, and the file that survives is the one that command wrote (checked by the load that follows).
RaceAllowed(presence, oks) == IF presence = "yes" THEN oks = 0 ELSE oks = 1

(* ------------------------------------------------------------- b, c, d. *)
\* What loading the file written by `init by` must yield (by = None: the content was not written by init,
\* nothing is claimed).  `keys`: the package keys, compared by string equality after YAML load (by
\* mockery's own loader and by an independent YAML reader); `all`: JSON text of packages[by].config.all.
LoadExpect(by) ==
  IF by = None THEN [judged |-> FALSE, ok |-> FALSE, keys |-> << >>, all |-> None]
  ELSE [judged |-> TRUE, ok |-> TRUE, keys |-> <<by>>, all |-> "true"]

\* c. top: key -> JSON text, the top-level entries of the written file other than `packages`.
\* Every value of the documented init example is there; nothing but documented defaults is there.
DefaultsStated(top) ==
  /\ \A k \in DOMAIN DocInit : k \in DOMAIN top /\ top[k] = DocInit[k]
  /\ \A k \in DOMAIN top : k \notin DOMAIN DocInit => k \in DOMAIN DocTable /\ top[k] = DocTable[k]

\* c'. eff: key -> JSON text, the top-level values mockery reports after loading the file (showconfig).
DefaultsInEffect(eff) ==
  \A k \in DOMAIN DocInit : k \in DOMAIN eff /\ eff[k] = DocInit[k]

(* ------------------------------------------------------------------ e. *)
\* isPkg: the string names a Go package of the world, ifaces: the interfaces it declares.  Judged only
\* for the first run after init (a second run meets the mock file of the first one; what happens then is
\* force-file-write's business, not init's).
\* ifaces: the interfaces that must be mocked (declared with an interface literal whose type set is a method
\* set: plain, empty, generic, embedding-only, methods + embedding); may: interfaces the statement leaves open
\* (aliases, defined types over a named interface, constraint interfaces).  Nothing else may be mocked.
\* Source-file classes of a Go package.  "all interfaces of the named package" are the interfaces declared in
\* the files the toolchain compiles into the package on this host -- whoever wrote the file (a person or a code
\* generator), whatever it is called, however many there are.  status:
\*   "in"      compiled into the package: hand-written, carrying a `// Code generated ... DO NOT EDIT.` header
\*             (before or after the package clause), a satisfied //go:build line or GOOS file-name suffix,
\*             further files, a file with non-interface types only, a doc.go
\*   "either"  left open by the statement: a _test.go file of the package itself, a file of the external
\*             <pkg>_test package in the same directory, a file excluded on this host (unsatisfied //go:build tag,
\*             foreign GOOS suffix, `//go:build ignore` with another package clause)
\* ifaces: the method-set interfaces the file declares; other: the non-interface types it declares.  The names
\* are disjoint between classes, so a package made of any subset of them compiles.
FC(st, ifs, oth) == [status |-> st, ifaces |-> ifs, other |-> oth]
FileClass == [f \in {"plain", "gen", "genmid", "intest", "exttest", "tagon", "tagoff", "suffixon", "suffixoff",
                     "ignore", "types", "doc", "more1", "more2"} |->
  CASE f = "plain"     -> FC("in", {"P", "pu"}, {"PS"})
    [] f = "gen"       -> FC("in", {"GenClient", "GenServer", "genUnsafe"}, {"GenReq"})
    [] f = "genmid"    -> FC("in", {"GenMid"}, {})
    [] f = "intest"    -> FC("either", {"InTest"}, {})
    [] f = "exttest"   -> FC("either", {"ExtTest"}, {})
    [] f = "tagon"     -> FC("in", {"TagOn"}, {})
    [] f = "tagoff"    -> FC("either", {"TagOff"}, {})
    [] f = "suffixon"  -> FC("in", {"SuffixOn"}, {})
    [] f = "suffixoff" -> FC("either", {"SuffixOff"}, {})
    [] f = "ignore"    -> FC("either", {"Ignored"}, {})
    [] f = "types"     -> FC("in", {}, {"TS", "TF", "TI"})
    [] f = "doc"       -> FC("in", {}, {})
    [] f = "more1"     -> FC("in", {"M1", "M1b"}, {})
    [] f = "more2"     -> FC("in", {"M2"}, {"M2S"})]
FileClasses == DOMAIN FileClass
\* a set of files is a Go package when the toolchain compiles at least one of them
FilesArePkg(files) == \E f \in files : FileClass[f].status = "in"
FilesIfaces(files) == UNION {FileClass[f].ifaces : f \in {g \in files : FileClass[g].status = "in"}}
FilesMay(files) == UNION {FileClass[f].ifaces : f \in {g \in files : FileClass[g].status = "either"}}

RunExpect(by, isPkg, ifaces, may, alreadyMocked) ==
  IF by = None \/ ~isPkg \/ alreadyMocked THEN [judged |-> FALSE, ok |-> FALSE, mocked |-> {}, may |-> {}]
  ELSE [judged |-> TRUE, ok |-> TRUE, mocked |-> ifaces, may |-> may]
MockedOK(e, got) == e.mocked \subseteq got /\ got \subseteq e.mocked \cup e.may
\* ... each of them once: mocks -- the sequence of interface names, one entry per mock written
MockedOnce(mocks) == \A i, j \in 1..Len(mocks) : mocks[i] = mocks[j] => i = j
=============================================================================
