-------------------------- MODULE InitCmdContract --------------------------
(***************************************************************************)
(* C18, contract layer: what `mockery init <package>` promises, as pure    *)
(* operators.  They are the single source of truth used three times:       *)
(*   1. InitCmd.tla checks its code-shaped actions against them (TLC),     *)
(*   2. InitCmd.tla exports them with every case (`allow`/`expect`) so the *)
(*      replay harness only has to compare,                                *)
(*   3. InitCmdTrace.tla evaluates them on the op log recorded from the    *)
(*      real binary.                                                       *)
(*                                                                         *)
(* Property text (properties.jsonl C18):                                   *)
(*  a. a configuration file is written only if none exists at the target   *)
(*     path; an existing file is never modified and failure is reported;   *)
(*  b. the file written is accepted by mockery itself,                     *)
(*  c. states the documented defaults,                                     *)
(*  d. lists exactly the named package with `all: true` -- the package     *)
(*     path loads back unchanged whatever characters it contains,          *)
(*  e. a subsequent plain `mockery` run mocks all interfaces of it.        *)
(***************************************************************************)
EXTENDS Naturals, Sequences, FiniteSets

CONSTANTS DocInit,      \* key -> JSON text of the value, from the `mockery init` example of docs/configuration.md
          DocTable      \* key -> JSON text of the default, from the parameter table of docs/configuration.md

None == "-"

(* ------------------------------------------------------------------ a. *)
\* presence of the target path: "yes" when lstat finds anything there -- a file, a directory, a symbolic link
\* even when it dangles: something exists at the path, so it is never modified and failure is reported --
\* "no" when nothing is there.
\* parentOK: the directory the target path lies in exists.  When it does not, the statement does not
\* demand that init creates it: failing without creating anything and succeeding are both acceptable.
InitAllowed(presence, parentOK) ==
  IF presence = "yes" THEN {[ok |-> FALSE, after |-> "same"]}
  ELSE IF parentOK THEN {[ok |-> TRUE, after |-> "created"]}
  ELSE {[ok |-> TRUE, after |-> "created"], [ok |-> FALSE, after |-> "same"]}

\* `mockery init` with no package argument, or with several: the statement is about `init <package>`; whatever
\* the command does with another argument shape it does not touch an existing file, and it either fails leaving
\* nothing behind or succeeds with a file (never a failure that leaves a file).
InitAllowedOtherArgs(presence) ==
  IF presence = "yes" THEN {[ok |-> FALSE, after |-> "same"]}
  ELSE {[ok |-> TRUE, after |-> "created"], [ok |-> FALSE, after |-> "same"]}

\* Concurrent inits on one target path are a history too: whichever comes second finds the file existing.
\* oks: how many of the concurrent commands reported success.  On an absent target (parent present) exactly
\* one does, and the file that survives is the one that command wrote (checked by the load that follows).
RaceAllowed(presence, oks) == IF presence = "yes" THEN oks = 0 ELSE oks = 1

(* ------------------------------------------------------------- b, c, d. *)
\* What loading the file written by `init by` must yield (by = None: the content was not written by init,
\* nothing is claimed).  `keys`: the package keys, compared by string equality after YAML load (by
\* mockery's own loader and by an independent YAML reader); `all`: JSON text of packages[by].config.all.
LoadExpect(by) ==
  IF by = None THEN [judged |-> FALSE, ok |-> FALSE, keys |-> << >>, all |-> None]
  ELSE [judged |-> TRUE, ok |-> TRUE, keys |-> <<by>>, all |-> "true"]

\* c. top: key -> JSON text, the top-level entries of the written file other than `packages`.
\* Every value of the documented init example is there; nothing but documented defaults is there.
DefaultsStated(top) ==
  /\ \A k \in DOMAIN DocInit : k \in DOMAIN top /\ top[k] = DocInit[k]
  /\ \A k \in DOMAIN top : k \notin DOMAIN DocInit => k \in DOMAIN DocTable /\ top[k] = DocTable[k]

\* c'. eff: key -> JSON text, the top-level values mockery reports after loading the file (showconfig).
DefaultsInEffect(eff) ==
  \A k \in DOMAIN DocInit : k \in DOMAIN eff /\ eff[k] = DocInit[k]

(* ------------------------------------------------------------------ e. *)
\* isPkg: the string names a Go package of the world, ifaces: the interfaces it declares.  Judged only
\* for the first run after init (a second run meets the mock file of the first one; what happens then is
\* force-file-write's business, not init's).
\* ifaces: the interfaces that must be mocked (declared with an interface literal whose type set is a method
\* set: plain, empty, generic, embedding-only, methods + embedding); may: interfaces the statement leaves open
\* (aliases, defined types over a named interface, constraint interfaces).  Nothing else may be mocked.
RunExpect(by, isPkg, ifaces, may, alreadyMocked) ==
  IF by = None \/ ~isPkg \/ alreadyMocked THEN [judged |-> FALSE, ok |-> FALSE, mocked |-> {}, may |-> {}]
  ELSE [judged |-> TRUE, ok |-> TRUE, mocked |-> ifaces, may |-> may]
MockedOK(e, got) == e.mocked \subseteq got /\ got \subseteq e.mocked \cup e.may
=============================================================================
