----------------------------- MODULE TestifyConc -----------------------------
(***************************************************************************)
(* C05, testify half -- "the generated code adds no unsynchronised shared  *)
(* state on top of testify's".                                             *)
(*                                                                         *)
(* The shared state of a testify mock is the embedded mock.Mock and the    *)
(* *mock.Call values hanging off it.  testify guards ALL of it with ONE    *)
(* mutex (Mock.mutex; Call.lock() takes the parent's).  A generated method *)
(* is a PROGRAM (extracted by drivers/concdrv/extract from the code the    *)
(* real binary has just generated; checks/c05.py splices the programs in   *)
(* as module TestifyConcRun) of two kinds of instructions:                 *)
(*   tcall M   call of testify method M: lock; the accesses of Api[M];     *)
(*             unlock  (testify's own locking is trusted: the table below  *)
(*             is testify v1.10.0 mock.go read by hand)                    *)
(*   read f / write f   DIRECT access of an exported field of mock.Mock or *)
(*             mock.Call from generated code: no mutex can be held (the    *)
(*             mutex is unexported)                                        *)
(* Goroutines run K operations each from Alphabet (generated methods and   *)
(* the user's own testify calls "env:*").  A data race is a reachable      *)
(* state in which two goroutines are both about to access the same field,  *)
(* at least one of them writing, and not both inside testify's critical    *)
(* section.                                                                *)
(***************************************************************************)
EXTENDS Naturals, Sequences, FiniteSets, TLC

CONSTANTS Progs,      \* operation name -> sequence of paths, each a sequence of [op |-> "tcall"|"read"|"write", f |-> name]
          Alphabet,   \* operation names the goroutines choose from
          Gs, K

None == "none"

\* testify v1.10.0, what each method touches between Lock and Unlock of Mock.mutex
A(r, w) == [r |-> r, w |-> w]
ExpFields == {"ExpectedCalls", "Call.Method", "Call.Arguments", "Call.Repeatability", "Call.totalCalls", "Call.optional"}
Api == [ Called |-> A(ExpFields \cup {"Call.ReturnArguments", "Call.RunFn", "Call.WaitFor", "Call.waitTime", "Call.PanicValue", "Call.requires", "Calls", "test"},
                      {"Call.Repeatability", "Call.totalCalls", "Calls"}),
         MethodCalled |-> A(ExpFields \cup {"Call.ReturnArguments", "Call.RunFn", "Calls", "test"}, {"Call.Repeatability", "Call.totalCalls", "Calls"}),
         On |-> A({"ExpectedCalls"}, {"ExpectedCalls"}),
         Unset |-> A({"ExpectedCalls", "Call.Method", "Call.Arguments"}, {"ExpectedCalls"}),
         Return |-> A({}, {"Call.ReturnArguments"}),
         Panic |-> A({}, {"Call.PanicValue"}),
         Run |-> A({}, {"Call.RunFn"}),
         Once |-> A({}, {"Call.Repeatability"}),
         Twice |-> A({}, {"Call.Repeatability"}),
         Times |-> A({}, {"Call.Repeatability"}),
         Maybe |-> A({}, {"Call.optional"}),
         WaitUntil |-> A({}, {"Call.WaitFor"}),
         After |-> A({}, {"Call.waitTime"}),
         NotBefore |-> A({}, {"Call.requires"}),
         Test |-> A({}, {"test"}),
         TestData |-> A({"testData"}, {"testData"}),
         AssertExpectations |-> A(ExpFields, {}),
         AssertNumberOfCalls |-> A({"Calls"}, {}),
         AssertCalled |-> A({"Calls"}, {}),
         AssertNotCalled |-> A({"Calls"}, {}),
         IsMethodCallable |-> A(ExpFields, {}) ]
Effect(m) == IF m \in DOMAIN Api THEN Api[m] ELSE A({}, {})     \* methods of mock.Arguments etc.: goroutine-local

VARIABLES pc,      \* g -> [op, p, i, ph]  ph: "at" (before instruction i) | "in" (inside the critical section of tcall i)
          left,    \* g -> operations still to start
          mutex    \* holder of Mock.mutex or None
vars == <<pc, left, mutex>>

Idle == [op |-> "idle", p |-> 0, i |-> 0, ph |-> "at"]
Init == pc = [g \in Gs |-> Idle] /\ left = [g \in Gs |-> K] /\ mutex = None

Cur(g) == Progs[pc[g].op][pc[g].p]
AtEnd(g) == pc[g].op # "idle" /\ pc[g].i > Len(Cur(g))
Ins(g) == Cur(g)[pc[g].i]

Start(g) == /\ pc[g].op = "idle" /\ left[g] > 0
            /\ \E o \in Alphabet : \E p \in 1..Len(Progs[o]) : pc' = [pc EXCEPT ![g] = [op |-> o, p |-> p, i |-> 1, ph |-> "at"]]
            /\ left' = [left EXCEPT ![g] = @ - 1]
            /\ UNCHANGED mutex
Finish(g) == AtEnd(g) /\ pc' = [pc EXCEPT ![g] = Idle] /\ UNCHANGED <<left, mutex>>
\* testify method: Lock (blocks while another goroutine is inside), body, Unlock
Enter(g) == /\ pc[g].op # "idle" /\ ~AtEnd(g) /\ Ins(g).op = "tcall" /\ pc[g].ph = "at"
            /\ mutex = None /\ mutex' = g
            /\ pc' = [pc EXCEPT ![g].ph = "in"] /\ UNCHANGED left
Leave(g) == /\ pc[g].op # "idle" /\ ~AtEnd(g) /\ pc[g].ph = "in"
            /\ mutex' = None
            /\ pc' = [pc EXCEPT ![g].ph = "at", ![g].i = @ + 1] /\ UNCHANGED left
\* direct field access by generated code
Direct(g) == /\ pc[g].op # "idle" /\ ~AtEnd(g) /\ Ins(g).op \in {"read", "write"}
             /\ pc' = [pc EXCEPT ![g].i = @ + 1] /\ UNCHANGED <<left, mutex>>

AllDone == \A g \in Gs : pc[g].op = "idle" /\ left[g] = 0
Next == (\E g \in Gs : Start(g) \/ Finish(g) \/ Enter(g) \/ Leave(g) \/ Direct(g)) \/ (AllDone /\ UNCHANGED vars)
Spec == Init /\ [][Next]_vars

---------------------------------------------------------------------------
\* the accesses g performs in its next step: [f, w (is a store), held (inside testify's critical section)]
Pending(g) ==
  IF pc[g].op = "idle" \/ AtEnd(g) THEN {}
  ELSE IF Ins(g).op \in {"read", "write"} THEN {[f |-> Ins(g).f, w |-> Ins(g).op = "write", held |-> FALSE]}
  ELSE IF pc[g].ph = "in"
       THEN {[f |-> x, w |-> FALSE, held |-> TRUE] : x \in Effect(Ins(g).f).r} \cup {[f |-> x, w |-> TRUE, held |-> TRUE] : x \in Effect(Ins(g).f).w}
       ELSE {}
Conflict(a, b) == a.f = b.f /\ (a.w \/ b.w) /\ ~(a.held /\ b.held)
\* C05 (testify half): no two goroutines are ever simultaneously about to make conflicting accesses
NoDataRace == \A g1, g2 \in Gs : g1 # g2 => \A a \in Pending(g1), b \in Pending(g2) : ~Conflict(a, b)
Symm == Permutations(Gs)
=============================================================================
