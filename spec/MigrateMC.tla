----------------------------- MODULE MigrateMC -----------------------------
(* Model constants for Migrate.tla *)
EXTENDS Migrate

MCCore == {"top", "pkgA", "ifaceI", "e1", "e2"}
MCNameIds == {"n_true", "n_null", "n_int", "n_float", "n_colonsp", "n_hash", "n_brace", "n_brack", "n_star", "n_amp",
              "n_bang", "n_pipe", "n_gt", "n_pct", "n_at", "n_bt", "n_squote", "n_dquote", "n_dash", "n_q", "n_lead",
              "n_trail", "n_empty", "n_uni", "n_nl", "n_tab", "n_dots", "n_bar", "n_tilde", "n_yes", "n_merge",
              "n_long", "n_tpl", "n_date", "n_comma"}
MCPairQuick == {"all", "mockname", "exclude", "unroll-variadic"}
MCLevelKeysQuick == {"all", "dir", "mockname", "exclude", "_anchors", "unroll-variadic", "boilerplate-file"}
MCPairLevels == {"pkgA", "e2"}
MCAliasKeysQuick == {"all", "mockname", "exclude", "boilerplate-file", "unroll-variadic"}
MCFamQuick == {"single", "style", "alias", "null", "pair", "levels", "shape", "layout", "names", "bad", "docsyn", "doc", "doctree"}
MCDocLevelsQuick == {"top", "pkgA", "ifaceI", "e1"}      \* one of each kind: top, package config, interface config, configs entry
MCStyleLevels == {"top", "ifaceI", "e2"}
MCFamSim == {"random"}
=============================================================================
