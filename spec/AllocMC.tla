------------------------------ MODULE AllocMC ------------------------------
(* Model constants for Alloc.tla (cfg files cannot spell records). *)
EXTENDS Alloc

\* two paths with the same package name, one package literally named like the first alias,
\* and the destination path itself (ignored when in-package)
MCPkgs3 == {[name |-> "io", path |-> "x/io"], [name |-> "io", path |-> "y/io"], [name |-> "io0", path |-> "z/io0"]}
MCPkgs4 == MCPkgs3 \cup {[name |-> "io", path |-> "w/io"]}
\* prefixes where a suffix of one is another ("a" -> "a1"), and one equal to a package name
\* ... plus a Go keyword and a predeclared identifier (a name allocator may be tempted to special-case them)
MCPrefixes == {"a", "a1", "io", "type"}
MCPrefixesX == {"a", "a1", "io", "type", "string"}
MCAddNames == {"a", "a2", "io", "typeParam"}
MCAddNames4 == {"a", "a1", "a2", "io0", "type1", "typeParam"}
\* package-focused alphabet: a path that is a "/"-suffix of another one ("io" vs "x/io"), a package named like
\* the source package, and the source package itself (= destination path: external test package unless in-package)
MCPkgsP == {[name |-> "io", path |-> "io"], [name |-> "io", path |-> "x/io"],
            [name |-> "src", path |-> "q/src"], [name |-> "src", path |-> "s/src"]}
\* probe-template route: the real source package ("src") and a foreign package of the same name
MCPkgsT == MCPkgs4 \cup {[name |-> "src", path |-> "q/src"], [name |-> "src", path |-> "src"],
                       [name |-> "c", path |-> "x/io-b/c"], [name |-> "c", path |-> "x/io/c"]}
MCPrefixesP == {"io", "src"}
MCAddNamesP == {"io0", "src"}
\* deep alphabet: ONE prefix allocated many times (suffix >= 10) and a dozen same-named packages (alias index >= 10)
MCPkgsDeep == {[name |-> "io", path |-> "d/" \o ToString(i)] : i \in 10..22}
MCPrefixesDeep == {"a"}
MCAddNamesDeep == {"a3", "a11"}
\* non-ASCII identifiers: TLC sees the ASCII token QxxQ (xx = hex code point), the harness maps it to the rune
\* before the real objects are called and back before validation ("gQf6Q" is g + o-umlaut, "Q43aQ" is Cyrillic ka)
MCPrefixesU == {"gQf6Q", "Q43aQ"}
MCAddNamesU == {"gQf6Q", "gQf6Q1", "Q43aQ"}
MCPkgsU == {[name |-> "io", path |-> "x/io"], [name |-> "io", path |-> "y/io"]}
\* import paths whose byte-wise order differs from their element-wise ("/"-split) order: '-' and '.' sort below '/'
MCPkgsPath == {[name |-> "io", path |-> "x/io"], [name |-> "c", path |-> "x/io-b/c"], [name |-> "c", path |-> "x/io/c"],
               [name |-> "v3", path |-> "x/io.v3"]}
MCPrefixesPath == {"c"}
MCAddNamesPath == {"c0"}
\* probe-template route (simulation): the ASCII alphabets plus one non-ASCII prefix / name and the path-order package name
MCPrefixesS == MCPrefixes \cup {"gQf6Q", "c", "rp"}
MCAddNamesS == MCAddNames4 \cup {"gQf6Q1", "Q43aQ"}
\* variable alphabet (AddVar / ResolveVariableNameCollisions histories): a variable named like a package that a
\* LATER variable's type imports (name first, colliding qualifier later), like a name registered afterwards by
\* AddName (r0 / type parameter), like the in-package type "T" of a later variable; two same-named packages
MCVarNamesV == {"io", "T"}
MCPkgsV == {[name |-> "io", path |-> "x/io"], [name |-> "io", path |-> "y/io"]}
MCVarPkgsV == MCPkgsV \cup {NoPkg}
\* (the vars world offers no registry-only operations: AddImport / PkgQualifier histories are the other alphabets';
\* here packages enter the file through the types of the variables)
MCPkgsNone == {}
MCPrefixesV == {"io"}
MCAddNamesV == {"io", "T"}
\* import-path look-alikes: a vendored form of another path, a path that is a "/"-suffix / prefix of another, an
\* internal/ path, a trailing major-version element, dotted / hyphenated last elements (the package name differs
\* from the last path element) -- all with coinciding package names
MCPkgsLook == {[name |-> "errors", path |-> "a/vendor/p/errors"], [name |-> "errors", path |-> "p/errors"],
               [name |-> "errors", path |-> "errors"], [name |-> "errors", path |-> "p/errors/v2"],
               [name |-> "errors", path |-> "a/internal/errors"],
               [name |-> "foo", path |-> "x/go-foo"], [name |-> "foo", path |-> "x/foo.v1"]}
MCPrefixesLook == {"errors"}
MCAddNamesLook == {"foo0"}
====
