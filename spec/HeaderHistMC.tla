---------------------------- MODULE HeaderHistMC ----------------------------
EXTENDS HeaderHist
MCHExprs   == {NoExpr, Tg("a"), And(Not(Tg("a")), Tg("b")), Or(Tg("a"), Tg("b"))}
MCHBoilers == {<<"none", FALSE>>, <<"line1", TRUE>>, <<"line3", FALSE>>, <<"blockN", TRUE>>}
MCFormatters == {"goimports", "gofmt", "noop"}
=============================================================================
