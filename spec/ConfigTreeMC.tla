---------------------------- MODULE ConfigTreeMC ----------------------------
(* Model constants of the code-shaped merge model: two sibling packages, an explicitly configured
   sub-package px of the recursive package p1, a discovered sub-package p1s, two sibling interfaces
   (one with two configs entries, one with `config` only), unlisted interfaces everywhere. *)
EXTENDS ConfigTree

N(id, parent, kd, pkg, letter) == [id |-> id, parent |-> parent, kind |-> kd, pkg |-> pkg, letter |-> letter]

MCNodeRecs ==
  { N("root", "", "root", "", ""),
    N("p1", "root", "pkg", "p1", ""), N("p2", "root", "pkg", "p2", ""), N("px", "root", "pkg", "px", ""),
    N("p1A", "p1", "iface", "p1", "A"), N("p1B", "p1", "iface", "p1", "B"),
    N("p1A1", "p1A", "entry", "p1", "A"), N("p1A2", "p1A", "entry", "p1", "A") }

MCDecl == [p1 |-> {"A", "B", "D", "E"}, p2 |-> {"D", "E"}, px |-> {"D"}, p1s |-> {"D", "E"}]
MCTagged == [p1 |-> << >>, p2 |-> << >>, px |-> << >>, p1s |-> << >>]
MCSubs == [p1 |-> {"p1s", "px"}, p2 |-> {}, px |-> {}]
MCRecursive == {"p1"}
MCSubSeq == [p1 |-> <<"p1", "p1s", "px">>]           \* `go list p1/...` lists p1 itself, too
MCPtrNodesQuick == {"root", "p1", "p2", "p1A", "p1A1"}
MCPtrNodes == {"root", "p1", "p2", "px", "p1A", "p1B", "p1A1", "p1A2"}
MCMapNodesQuick == {"root", "p1", "px", "p1A"}
MCMapNodes == {"root", "p1", "p2", "px", "p1A", "p1A1"}
=============================================================================
