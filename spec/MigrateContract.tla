-------------------------- MODULE MigrateContract --------------------------
(***************************************************************************)
(* C19, contract layer: what `mockery migrate` promises about the v3 file  *)
(* it writes for a v2 configuration tree.  Pure operators, used three      *)
(* times: Migrate.tla checks its code-shaped model against them, exports   *)
(* them with every case, and MigrateTrace.tla evaluates them on what the   *)
(* real binary wrote.                                                      *)
(*                                                                         *)
(* A configuration level (top / package config / interface config /        *)
(* configs entry) is a function  key -> JSON text of the value.  v3 levels *)
(* are flattened: `template-data.<k>` is a path of its own.                *)
(*                                                                         *)
(* Property text (properties.jsonl C19): every v2 setting with a v3        *)
(* counterpart appears with the same value at the same level under its v3  *)
(* name or template-data key; no value appears that the v2 file did not    *)
(* contain apart from the template choice; names are preserved exactly;    *)
(* the input is left unmodified; never a crash on a decodable v2 file; the *)
(* strict loader accepts the output.                                       *)
(***************************************************************************)
EXTENDS Naturals, Sequences, FiniteSets

\* the 14 settings with a v3 counterpart (property statement; docs/v3.md; migrate.go comments)
Mapped == {"all", "dir", "mockname", "outpkg", "include-regex", "exclude-regex", "exclude", "recursive",
           "log-level", "config", "_anchors", "boilerplate-file", "mock-build-tags", "unroll-variadic"}

V3Name(k) ==
  CASE k = "all" -> "all"
    [] k = "dir" -> "dir"
    [] k = "mockname" -> "structname"
    [] k = "outpkg" -> "pkgname"
    [] k = "include-regex" -> "include-interface-regex"
    [] k = "exclude-regex" -> "exclude-interface-regex"
    [] k = "exclude" -> "exclude-subpkg-regex"
    [] k = "recursive" -> "recursive"
    [] k = "log-level" -> "log-level"
    [] k = "config" -> "config"
    [] k = "_anchors" -> "_anchors"
    [] k = "boilerplate-file" -> "template-data.boilerplate-file"
    [] k = "mock-build-tags" -> "template-data.mock-build-tags"
    [] k = "unroll-variadic" -> "template-data.unroll-variadic"

\* a v2 value that sets nothing: explicit null, an empty list, an empty map
Blank(txt) == txt \in {"null", "[]", "{}"}

Set(v2L) == {k \in DOMAIN v2L : ~Blank(v2L[k])}

\* what must be at the same level of the v3 file
Required(v2L) ==
  LET ks == Set(v2L) \cap Mapped IN
  [p \in {V3Name(k) : k \in ks} |-> v2L[CHOOSE k \in ks : V3Name(k) = p]]

\* values that may additionally show up at that level: the v2 file contained them there (e.g. with-expecter
\* carried into template-data); empty containers say nothing
MayAppear(v2L) == {v2L[k] : k \in DOMAIN v2L \ Mapped} \cup {"{}", "[]", "null"}

LevelOK(isTop, v2L, v3L) ==
  LET req == Required(v2L) IN
  /\ \A p \in DOMAIN req : p \in DOMAIN v3L /\ v3L[p] = req[p]
  /\ \A p \in DOMAIN v3L : p \notin DOMAIN req => (isTop /\ p = "template") \/ v3L[p] \in MayAppear(v2L)

\* the template choice is made at the top
TemplateChosen(v3top) == "template" \in DOMAIN v3top

\* the whole tree: same levels (so same package names, interface names, number and order of configs
\* entries -- level ids encode the position), every level OK
TreeOK(v2, v3) ==
  /\ DOMAIN v3 = DOMAIN v2
  /\ \A L \in DOMAIN v2 : LevelOK(L = "top", v2[L], v3[L])
  /\ TemplateChosen(v3["top"])

\* where the v3 file must be: at the path --outfile denotes (default ".mockery_v3.yml"), a relative one taken
\* relative to the working directory -- wherever the v2 file was found.  Location ids are concretised by the
\* harness ("cwd:<relative path>", "abs:<file in a directory outside>").
OutLocId(lay) ==
  CASE lay.out = "default"  -> "cwd:.mockery_v3.yml"
    [] lay.out = "rel"      -> "cwd:out/v3.yml"
    [] lay.out = "samebase" -> "cwd:<input base name>"
    [] lay.out = "abs"      -> "abs:abs-out.yml"
    [] lay.out = "input"    -> "input"

\* changed: the location ids of every file created, modified or removed by the command ("input" = the v2
\* file).  Exactly the requested output, nothing else -- in particular never the input.
\* When --outfile names the v2 file itself the two promises collide; the input must survive (refusing, or
\* writing nothing, is fine), nothing else is demanded then.
FilesOK(lay, changed) == IF lay.out = "input" THEN "input" \notin changed ELSE changed = {OutLocId(lay)}

\* what mockery's own loader reports for the file (after merging the hierarchy): a value set at a level is
\* the value in effect at that level.  (`_anchors` maps are merged key-wise down the hierarchy by the loader
\* and unused otherwise, so the loaded map is not compared; the written file is, by TreeOK.)
LoadedOK(v2, eff) ==
  /\ DOMAIN eff = DOMAIN v2
  /\ \A L \in DOMAIN v2 : LET req == Required(v2[L]) IN
       \A p \in DOMAIN req : p # "_anchors" /\ ~(L = "top" /\ p = "config") => p \in DOMAIN eff[L] /\ eff[L][p] = req[p]
=============================================================================
