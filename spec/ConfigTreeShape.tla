-------------------------- MODULE ConfigTreeShape --------------------------
(* The tree of the replay worlds (shared by the generator and the trace specification): two sibling packages with two sibling interfaces with two
   `configs` entries each, an interface with `config` only (C), one listed with nothing (N), two
   unlisted ones (D, E), discovered sub-packages, and the explicitly configured sub-package p1x. *)

N(id, parent, kind, pkg, letter) == [id |-> id, parent |-> parent, kind |-> kind, pkg |-> pkg, letter |-> letter]

MCNodeRecs ==
  { N("env", "", "env", "", ""), N("root", "env", "root", "", ""), N("flag", "root", "flag", "", ""),
    N("p1", "flag", "pkg", "p1", ""), N("p2", "flag", "pkg", "p2", ""), N("p1x", "flag", "pkg", "p1x", ""),
    \* second recursion level: p1r is listed (and, in most worlds, recursive) INSIDE the recursive p1; below it the
    \* unlisted p1rd and the explicitly listed p1re
    N("p1r", "flag", "pkg", "p1r", ""), N("p1re", "flag", "pkg", "p1re", ""), N("p1rA", "p1r", "iface", "p1r", "A"),
    N("p1A", "p1", "iface", "p1", "A"), N("p1B", "p1", "iface", "p1", "B"), N("p1C", "p1", "iface", "p1", "C"),
    N("p1N", "p1", "iface", "p1", "N"),
    N("p2A", "p2", "iface", "p2", "A"), N("p2B", "p2", "iface", "p2", "B"), N("p2C", "p2", "iface", "p2", "C"),
    N("p1xA", "p1x", "iface", "p1x", "A"),
    N("p1A1", "p1A", "entry", "p1", "A"), N("p1A2", "p1A", "entry", "p1", "A"),
    N("p1B1", "p1B", "entry", "p1", "B"), N("p1B2", "p1B", "entry", "p1", "B"),
    N("p2A1", "p2A", "entry", "p2", "A"), N("p2A2", "p2A", "entry", "p2", "A"),
    N("p2B1", "p2B", "entry", "p2", "B"), N("p2B2", "p2B", "entry", "p2", "B") }

MCNodeSeq == <<"p1r", "p1re", "p1rA", "env", "root", "flag", "p1", "p2", "p1x", "p1A", "p1B", "p1C", "p1N", "p2A", "p2B", "p2C", "p1xA",
               "p1A1", "p1A2", "p1B1", "p1B2", "p2A1", "p2A2", "p2B1", "p2B2">>

MCDecl == [p1 |-> {"A", "B", "C", "N", "D", "E"}, p2 |-> {"A", "B", "C", "D", "E", "X", "Y"}, p1x |-> {"A", "D"},
           p1r |-> {"A", "D"}, p1rd |-> {"D", "E"}, p1re |-> {"D"},
           p1s1 |-> {"A", "D", "E"}, p1s2 |-> {"A", "D"}, p2s1 |-> {"A", "D"}, p2s2 |-> {"D", "E"}]

\* p2 declares X only under //go:build tag_env and Y only under //go:build tag_root (build-tags is a top-level parameter)
MCTagged == [p1r |-> << >>, p1rd |-> << >>, p1re |-> << >>, p1 |-> << >>, p2 |-> [X |-> "env", Y |-> "root"], p1x |-> << >>, p1s1 |-> << >>, p1s2 |-> << >>, p2s1 |-> << >>, p2s2 |-> << >>]

MCSubs == [p1 |-> {"p1s1", "p1s2", "p1x", "p1r", "p1rd", "p1re"}, p2 |-> {"p2s1", "p2s2"}, p1x |-> {},
           p1r |-> {"p1rd", "p1re"}, p1re |-> {}]
=============================================================================
