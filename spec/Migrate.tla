------------------------------ MODULE Migrate ------------------------------
(***************************************************************************)
(* C19 -- `mockery migrate` (internal/cmd/migrate.go).                     *)
(*                                                                         *)
(* A case is a v2 configuration tree: which of the v2 keys are set at      *)
(* which level (top, package config, interface config, configs entries, a  *)
(* second interface, a second package), with marker values unique per      *)
(* (key, level), in one of several tree shapes.  Init enumerates the       *)
(* families the property quantifies over (every key x level, every pair of *)
(* keys at one level, every level subset per key, every shape, everything  *)
(* at once, odd names, undecodable inputs; random subsets under -simulate).*)
(*                                                                         *)
(* Code-shaped layer: one action per critical section of migrate.go        *)
(*   Decode        migrate.go:149-159  strict YAML decoding (KnownFields)  *)
(*   MigrateTop    migrate.go:161-169  top level + template choice         *)
(*   MigrateLevel  migrate.go:171-200  packages / interfaces / configs, in *)
(*                                     turn; migrateConfig is ImplLevel    *)
(*   Encode        migrate.go:202-216  O_TRUNC open + yaml encoder         *)
(* Contract layer: MigrateContract.tla (TreeOK), checked when the model    *)
(* run is done and exported with every case.                               *)
(***************************************************************************)
EXTENDS MigrateContract, TLC, Json, Randomization, SequencesExt

CONSTANTS Families,    \* which case families Init enumerates
          CoreLevels,  \* levels used by the "levels" family (subset of AllLevels)
          PairKeys,    \* keys used by the "pair" family
          PairLevels,  \* levels used by the "pair" family
          AliasKeys,   \* first keys of the "alias" family
          StyleLevels, \* levels used by the single-key cases of the "style" family
          LevelKeys,   \* keys used by the "levels" family
          NameIds,     \* odd package / interface names (ids; concretised by checks/c19.py)
          DocLevels,   \* levels used by the single-key cases of the "doc" / "docsyn" families
          SimMax       \* bound on the keys per level in the "random" family (simulation)

(* ------------------------------------------------------------ v2 key set *)
BoolKeys == {"all", "recursive", "unroll-variadic", "with-expecter", "disable-config-search",
             "disable-deprecation-warnings", "disable-func-mocks", "disable-version-string", "dry-run", "exported",
             "fail-on-missing", "inpackage", "inpackage-suffix", "include-auto-generated", "issue-845-fix",
             "keeptree", "print", "quiet", "resolve-type-alias", "testonly", "version"}
StrKeys == {"dir", "mockname", "outpkg", "include-regex", "exclude-regex", "log-level", "config",
            "boilerplate-file", "mock-build-tags", "tags", "case", "cpuprofile", "filename", "name", "note",
            "output", "packageprefix", "profile", "srcpkg", "structname"}
ListKeys == {"exclude", "disabled-deprecation-warnings", "replace-type"}
MapKeys == {"_anchors"}
Keys == BoolKeys \cup StrKeys \cup ListKeys \cup MapKeys      \* V2Config, migrate.go:427-473

ASSUME Mapped \subseteq Keys
KeySeq == SetToSeq(Keys)
Kn(k) == CHOOSE i \in 1..Len(KeySeq) : KeySeq[i] = k      \* a number per key (spreads the layouts)

(* ---------------------------------------------------------------- levels *)
\* level ids encode the position in the tree: package A has interface I (config + entries e1, e2) and J,
\* package B has only a config
AllLevels == {"top", "pkgA", "ifaceI", "e1", "e2", "ifaceJ", "pkgB"}
Order == <<"top", "pkgA", "ifaceI", "e1", "e2", "ifaceJ", "pkgB">>
Odd(L) == L \in {"top", "ifaceI", "e2", "pkgB"}

\* tree shapes.  Positions(sh): the places of the tree that exist (a package / interface / configs entry is
\* there by name or index); Configurable(sh): those whose configuration map is not null, so keys can be set.
Shapes == {"full", "noentries", "oneentry", "onepkg", "nullconfigs", "nullcfg", "nulliface", "nullpkg",
           "emptypkgs", "nopkgs", "emptyifaces"}
Positions(sh) ==
  CASE sh = "full"        -> AllLevels
    [] sh = "noentries"   -> AllLevels \ {"e1", "e2"}                     \* no `configs` key
    [] sh = "nullconfigs" -> AllLevels \ {"e1", "e2"}                     \* `configs: null`
    [] sh = "oneentry"    -> AllLevels \ {"e2"}
    [] sh = "onepkg"      -> AllLevels \ {"pkgB"}
    [] sh = "nullcfg"     -> AllLevels                                    \* every `config:` is null, entries exist
    [] sh = "nulliface"   -> AllLevels \ {"e1", "e2"}                     \* `I:` and `J:` have null values
    [] sh = "emptyifaces" -> {"top", "pkgA", "pkgB"}                      \* `interfaces: {}`
    [] sh = "nullpkg"     -> {"top", "pkgA", "pkgB"}                      \* `pkgA:` and `pkgB:` have null values
    [] sh = "emptypkgs"   -> {"top"}                                      \* `packages: {}`
    [] sh = "nopkgs"      -> {"top"}                                      \* no `packages` key
Configurable(sh) ==
  CASE sh = "nullcfg"   -> {"top", "e1", "e2"}
    [] sh = "nulliface" -> {"top", "pkgA", "pkgB"}
    [] sh = "nullpkg"   -> {"top"}
    [] OTHER -> Positions(sh)
LevelsOf(sh) == Configurable(sh)

(* ---------------------------------------------------------------- values *)
\* JSON text of the marker value of key k at level L in value style vi.  "Same value" means byte-identical,
\* so the string styles are the shapes a plausible normaliser (path cleaning, trimming, case folding, type
\* guessing, unicode normalisation, truncation) would alter:
\*   0 explicit null          1 plain marker                2 YAML-significant text, padded with spaces
\*   3 non-clean path         4 template with inner quotes, mixed case
\*   5 looks like a bool / null / number / date / hex      6 unicode, NFC next to NFD
\*   7 very long              8 the empty string            9 trailing slash, blank and tab
\*  10 the SAME value at every level (so equal maps exist: the harness writes them with YAML anchors, aliases
\*     and merge keys -- the values must arrive where the alias puts them)
\*  11 bare scalars: strings that look like numbers / booleans / dates written unquoted in the v2 file, booleans
\*     written yes / no / on / off (YAML 1.1 spellings the typed v2 fields accept)
\*  12.. documented value forms: style 11 + n is the n-th form of DocForms(k) (see below), the same at every level
\* Booleans alternate polarity with the style, maps and lists follow the string styles.
Styles == 1..9
Q(s) == "\"" \o s \o "\""
Idx(L) == CHOOSE j \in 1..7 : Order[j] = L
\* log-level values stay valid zerolog level names (a loader may validate them), distinct per level;
\* styles >= 3 spell them in upper case (zerolog parses levels case-insensitively)
LogName(L, vi) ==
  LET lower == <<"debug", "info", "warn", "error", "trace", "fatal", "panic">>
      upper == <<"DEBUG", "INFO", "WARN", "ERROR", "TRACE", "FATAL", "PANIC">>
  IN IF vi = 10 THEN "warn" ELSE IF vi = 1 THEN lower[Idx(L)] ELSE IF vi = 2 THEN lower[((Idx(L) + 2) % 7) + 1] ELSE upper[((Idx(L) + vi) % 7) + 1]
LooksLike == <<"true", "null", "0123", "1.50", "2001-01-01", "0x1F", "~">>
BareLike == <<"true", "0123", "1.50", "2001-01-01", "0x1F", "no", "1e3">>     \* not null / ~: bare, those unset the key
Long40 == "abcdefghijklmnopqrstuvwxyz0123456789ABCD"
Long == Long40 \o "/" \o Long40 \o "/" \o Long40 \o "/" \o Long40 \o "/" \o Long40 \o "/" \o Long40 \o "/" \o Long40
\* the text between the JSON quotes
StrBody(k, L, vi) ==
  CASE vi = 1 -> k \o "@" \o L
    [] vi = 2 -> IF k = "mockname" THEN "{{.InterfaceNameCamel}}: " \o L \o " #x"
                 ELSE " " \o k \o ": {" \o L \o "} #x *&!|>'%@`, [y] "
    [] vi = 3 -> "./" \o k \o "//" \o L \o "/../{{.InterfaceDir}}/./x/"
    [] vi = 4 -> "{{ .InterfaceDir | replace \\\"a\\\" \\\"B\\\" }}/../Mocks_" \o k \o "_" \o L \o "/UPPER/lower"
    [] vi = 5 -> LooksLike[((Idx(L) + (IF k \in Mapped THEN 0 ELSE 3)) % 7) + 1]
    [] vi = 6 -> "caf\\u00e9-cafe\\u0301-\\u212b-\\u00c5-" \o k \o "@" \o L
    [] vi = 7 -> Long \o "/" \o k \o "@" \o L
    [] vi = 8 -> ""
    [] vi = 9 -> k \o "@" \o L \o "/ \\t"
    [] vi = 10 -> k \o "@any"
    [] vi = 11 -> BareLike[((Idx(L) + (IF k \in Mapped THEN 0 ELSE 3)) % 7) + 1]
(* ------------------------------------------------- documented value forms *)
\* The v2 settings WITHOUT a v3 counterpart are part of "every valid v2 configuration" too: migrate reads every
\* one of them (migrate.go:284-416 consults each field of V2Config, migrate.go:433-479, for its deprecation
\* table) and must neither crash on nor carry over any value a v2 user may have written there.  DocForms(k):
\* the value shapes the v2 documentation gives for key k (configuration table, "replace-type" and "layouts"
\* feature pages), plus the degenerate members of each shape class (empty string, empty list, blank-padded,
\* several entries).  JSON texts; level-independent (these are values people copy from the docs).
\*
\* replace-type entries are a parsed micro-syntax in v2:  SRC=DST  with  SRC, DST ::= [alias:]path/to/pkg[.Type]
\* or a predeclared type, Type optionally followed by a type-parameter selector [T] / [-T].
RTForms == <<
  "[\"example.com/w/a/internal/wire.Conn=example.com/w/a/wire.Conn\"]",                 \* pkg.T=pkg.T
  "[\"example.com/w/a/old.Thing=newthing:example.com/w/a/new.Thing\"]",                 \* aliased import on the right
  "[\"example.com/w/a/internal=example.com/w/a/pub\"]",                                 \* whole package
  "[\"database/sql/driver=example.com/w/fakedriver\"]",                                 \* whole standard-library package (no dot left)
  "[\"example.com/w/a/drv=database/sql/driver\"]",                                      \* ... on the right
  "[\"io=bufio\"]",                                                                     \* no dot, no slash on either side
  "[\"example.com/w/ids.ID=string\"]",                                                  \* predeclared type on the right
  "[\"error=example.com/w/errs.E\"]",                                                   \* predeclared type on the left
  "[\"time.Duration=int64\"]",                                                          \* single-element path
  "[\"example.com/w/a.Generic[-T]=example.com/w/a/types.Fixed\"]",                      \* type parameter removed
  "[\"example.com/w/a.Generic[T]=int\"]",                                               \* type parameter replaced by a predeclared type
  "[\"example.com/w/a.G[T1]=alias2:example.com/w/b.H[-T2]\"]",                          \* selector on both sides, aliased
  "[\"gopkg.in/yaml.v3.Node=example.com/w/y/v2.Node\"]",                                \* dots inside the path, major-version suffix
  "[\"example.com/w/a/internal=pub:example.com/w/a/pub\"]",                             \* aliased whole package
  "[\" example.com/w/a.T = example.com/w/b.U \"]",                                      \* blanks around the parts
  "[\"example.com/w/a.T\"]",                                                            \* no '=' (decodable, rejected only at generation time)
  "[\"=\",\"example.com/w/a.T=\",\"=example.com/w/b.U\",\"a=b=c\",\":=:\",\".=.\"]",    \* empty / degenerate sides
  "[\"\"]",                                                                             \* the empty string as an entry
  "[]",                                                                                 \* the empty list
  "[\"example.com/w/a/internal/wire.Conn=example.com/w/a/wire.Conn\",\"database/sql/driver=example.com/w/fakedriver\",\"example.com/w/ids.ID=string\",\"example.com/w/a.Generic[-T]=example.com/w/a/types.Fixed\",\"\"]" >>   \* several entries
TemplForms(pre, post) == << Q(pre \o "{{.InterfaceName}}" \o post), Q(pre \o "{{.InterfaceNameSnake}}" \o post),
                            Q("{{.Mock}}{{.InterfaceName | firstUpper}}" \o post), Q(pre \o "{{ .PackageName }}/{{.InterfaceDirRelative}}" \o post),
                            Q(""), Q(" ") >>
DocForms(k) ==
  CASE k = "replace-type" -> RTForms
    [] k = "disabled-deprecation-warnings" -> << "[\"issue-845-fix\"]", "[\"issue-845-fix\",\"resolve-type-alias\",\"packages\"]", "[\"\"]", "[]", "[\"not-a-warning\",\" \"]" >>
    [] k = "filename" -> TemplForms("mock_", ".go") \o << Q("{{.InterfaceName}}_test.go"), Q("sub/dir/x.go") >>
    [] k = "structname" -> TemplForms("Mock", "") \o << Q("lowerCase") >>
    [] k = "packageprefix" -> << Q("mock_"), Q("mocks/x."), Q(""), Q("{{.PackageName}}_") >>
    [] k = "case" -> << Q("camel"), Q("snake"), Q("underscore"), Q("CAMEL"), Q("") >>
    [] k = "tags" -> << Q("integration"), Q("a,b"), Q("!windows && (linux || darwin)"), Q("") >>
    [] k = "note" -> << Q("generated, do not edit"), Q("line one\\nline two\\n"), Q("// +build x"), Q("") >>
    [] k = "name" -> << Q("Requester"), Q("Requester|Sender"), Q(".*"), Q("(?i)^foo$"), Q("") >>
    [] k = "output" -> << Q("./mocks"), Q("/abs/mocks/"), Q("."), Q("") >>
    [] k = "srcpkg" -> << Q("github.com/x/y/v2"), Q("io"), Q("."), Q("./..."), Q("") >>
    [] k \in {"profile", "cpuprofile"} -> << Q("cpu.prof"), Q("/tmp/p/"), Q("") >>
    [] k \in BoolKeys -> << "true", "false" >>
    [] OTHER -> << >>
DocKeys == {k \in Keys \ Mapped : DocForms(k) # << >>}
\* keys whose documented values are a parsed micro-syntax (entry lists, templates): their single-key cases are
\* the "docsyn" family, those of enumerations / plain strings / booleans the "doc" family
SynKeys == {"replace-type", "disabled-deprecation-warnings", "filename", "structname", "packageprefix"}
ASSUME SynKeys \subseteq DocKeys /\ (Keys \ Mapped) \ DocKeys = {}
MaxDoc == Len(RTForms)
ASSUME \A k \in DocKeys : Len(DocForms(k)) <= MaxDoc
DocStyles == 12..(11 + MaxDoc)
AllStyles == 0..(11 + MaxDoc)
\* form n of key k, cyclically (so a tree in doc style n gives every key a documented form)
DocVal(k, n) == LET f == DocForms(k) IN f[((n - 1) % Len(f)) + 1]
Val(k, L, vi0) ==
  \* documented forms exist for the settings without a v3 counterpart; the mapped ones keep their markers
  IF vi0 >= 12 /\ k \in DocKeys THEN DocVal(k, vi0 - 11) ELSE
  LET vi == IF vi0 >= 12 THEN 1 ELSE vi0 IN
  IF vi = 0 THEN "null"
  ELSE IF k \in BoolKeys THEN (IF vi = 10 THEN "false" ELSE IF (vi % 2 = 1) = Odd(L) THEN "true" ELSE "false")
  ELSE IF k \in StrKeys THEN (IF k = "log-level" THEN Q(LogName(L, vi)) ELSE Q(StrBody(k, L, vi)))
  ELSE IF k \in ListKeys THEN
       (IF vi = 1 THEN "[" \o Q(k \o "@" \o L \o "/1") \o "," \o Q(k \o "@" \o L \o "/2") \o "]"
        ELSE IF vi = 2 THEN "[" \o Q("- " \o k \o ": " \o L \o " #c") \o "," \o Q("") \o "," \o Q("null") \o "]"
        ELSE "[" \o Q(StrBody(k \o "/1", L, vi)) \o "," \o Q(StrBody(k \o "/2", L, vi)) \o "]")
  ELSE (IF vi = 10 THEN "{" \o Q("s") \o ":" \o Q(k \o "@any") \o "}"
        ELSE IF vi % 2 = 1 THEN "{" \o Q("a@" \o L) \o ":{\"all\":true,\"l\":[1,\"two\"]}," \o Q("s") \o ":" \o Q(k \o "@" \o L) \o "}"
        ELSE "{" \o Q("k: " \o L \o " #") \o ":" \o Q(" v: {x} ") \o "}")

(* --------------------------------------------------------------- layouts *)
\* where the command runs and how the files are named:
\*   cwd   "same"    the working directory holds the v2 file
\*         "child"   the working directory is two levels below the directory of the v2 file
\*         "sibling" the v2 file lives in another directory (legacy/) next to the working directory
\*   cfg   "rel" | "abs" --config path,  "discover": no --config, found by searching upwards
\*   out   "default": no --outfile;  "rel": a relative path;  "samebase": relative, same base name as the input;
\*         "abs": an absolute path
\*   stale the output path already holds a longer file
CwdS == <<"same", "child", "sibling">>
CfgS == <<"rel", "abs", "discover">>
OutS == <<"default", "rel", "samebase", "abs", "input">>      \* "input": --outfile names the v2 file itself
LayN(n) == [cwd |-> CwdS[((n - 1) \div 15) + 1], cfg |-> CfgS[(((n - 1) \div 5) % 3) + 1], out |-> OutS[((n - 1) % 5) + 1],
            stale |-> FALSE]
ValidLay(y) == /\ y.cfg = "discover" => y.cwd # "sibling"       \* the search only walks upwards
               /\ y.out = "samebase" => y.cwd # "same"           \* that spelling is the "input" class
               /\ y.out = "input" => y.cfg # "discover"          \* the same string for --config and --outfile
LaySeq == SelectSeq([n \in 1..45 |-> LayN(n)], ValidLay)
Layouts == {LaySeq[i] : i \in 1..Len(LaySeq)}
\* deterministic spread of the layouts over the cases of the other families
\* a stale output named like the input in the working directory would itself be found by the search
StaleOK(y) == ~(y.cfg = "discover" /\ y.out = "samebase") /\ y.out # "input"
LayRot(n) == LET y == LaySeq[(n % Len(LaySeq)) + 1] IN [y EXCEPT !.stale = StaleOK(y) /\ ((n \div Len(LaySeq)) % 2 = 1)]

VARIABLES fam,        \* case family
          shape,      \* tree shape
          sets,       \* level -> set of v2 keys set there
          vi,         \* value style
          nm,         \* [id |-> odd name id or "-", pos |-> "pkg" | "iface"]: which name is odd
          bad,        \* "none" or the way the input is NOT a decodable v2 file
          lay,        \* layout: working directory, --config, --outfile (see Layouts)
          wrote,      \* where Encode wrote the v3 file (location id), "-" before
          pc, todo,   \* migrate.go program counter, levels still to migrate
          out,        \* the v3 tree built so far: level -> (path -> JSON text)
          res         \* "run" | "ok" | "fail"

vars == <<fam, shape, sets, vi, nm, bad, lay, wrote, pc, todo, out, res>>

Lv == Positions(shape)
V2 == [L \in Lv |-> [k \in sets[L] |-> Val(k, L, vi)]]
NoKeys == [L \in AllLevels |-> {}]
Only(L, ks) == [M \in AllLevels |-> IF M = L THEN ks ELSE {}]
NoName == [id |-> "-", pos |-> "pkg"]

Base == /\ pc = "decode" /\ todo = << >> /\ out = << >> /\ res = "run" /\ wrote = "-"

StyleKeys == (StrKeys \cup ListKeys) \cap Mapped     \* string-valued settings with a v3 counterpart
InitSingle == /\ "single" \in Families /\ fam = "single" /\ shape = "full" /\ bad = "none" /\ nm = NoName
              /\ vi \in {1, 2}
              /\ \E k \in Keys, L \in AllLevels : sets = Only(L, {k}) /\ lay = LayRot(Kn(k) * 7 + Idx(L) * 9 + vi)
\* every string-valued mapped setting in every style a normaliser would alter
TypedScalarKeys == StyleKeys \cup (BoolKeys \cap (Mapped \cup {"with-expecter"}))
InitStyle ==  /\ "style" \in Families /\ fam = "style" /\ shape = "full" /\ bad = "none" /\ nm = NoName
              /\ vi \in (Styles \ {1, 2}) \cup {11}
              /\ \/ \E k \in (IF vi = 11 THEN TypedScalarKeys ELSE StyleKeys), L \in StyleLevels : sets = Only(L, {k}) /\ lay = LayRot(Kn(k) * 11 + Idx(L) * 9 + vi + 5)
                 \/ sets = [M \in AllLevels |-> StyleKeys] /\ lay = LayRot(vi)
                 \/ sets = [M \in AllLevels |-> StrKeys \cup ListKeys] /\ lay = LayRot(vi + 11)
\* equal and nested maps across levels, written with anchors / aliases / merge keys (style 10)
InitAlias ==  /\ "alias" \in Families /\ fam = "alias" /\ shape = "full" /\ bad = "none" /\ nm = NoName /\ vi = 10
              /\ \/ \E k1 \in AliasKeys, k2 \in Mapped \cup {"with-expecter", "filename"} : k1 # k2 /\ lay = LayRot(Kn(k1) * 3 + Kn(k2)) /\
                      sets = [M \in AllLevels |-> CASE M \in {"top", "ifaceI", "e2", "pkgB"} -> {k1, k2} [] M = "ifaceJ" -> {k2} [] OTHER -> {k1}]
                 \/ sets = [M \in AllLevels |-> Mapped \cup {"with-expecter"}] /\ lay = LayRot(8)
                 \/ sets = [M \in AllLevels |-> IF Odd(M) THEN Mapped ELSE Mapped \ {"_anchors", "exclude", "all"}] /\ lay = LayRot(21)
InitNull ==   /\ "null" \in Families /\ fam = "null" /\ shape = "full" /\ bad = "none" /\ nm = NoName
              /\ \E k \in Mapped \cup {"with-expecter", "filename"}, L \in AllLevels : sets = Only(L, {k}) /\ lay = LayRot(Kn(k) * 3 + Idx(L) + 2)
              /\ vi = 0
InitPair ==   /\ "pair" \in Families /\ fam = "pair" /\ shape = "full" /\ bad = "none" /\ nm = NoName
              /\ \E k1 \in PairKeys, k2 \in Keys, L \in PairLevels : k1 # k2 /\ sets = Only(L, {k1, k2}) /\ lay = LayRot(Kn(k1) * 13 + Kn(k2) + Idx(L) * 5 + 3)
              /\ vi = 1
InitLevels == /\ "levels" \in Families /\ fam = "levels" /\ shape = "full" /\ bad = "none" /\ nm = NoName
              /\ \E k \in LevelKeys, S \in (SUBSET CoreLevels) \ {{}} :
                    /\ sets = [M \in AllLevels |-> IF M \in S THEN {k} ELSE {}]
                    /\ lay = LayRot(Kn(k) * 5 + Cardinality(S) * 6 + (IF "top" \in S THEN 1 ELSE 0) + (IF "e2" \in S THEN 2 ELSE 0))
              /\ vi = 1
InitShape ==  /\ "shape" \in Families /\ fam = "shape" /\ shape \in Shapes /\ bad = "none" /\ nm = NoName
              /\ \/ sets = [M \in AllLevels |-> IF M \in LevelsOf(shape) THEN Mapped \cup {"with-expecter"} ELSE {}]
                 \/ sets = NoKeys
                 \/ sets = [M \in AllLevels |-> IF M \in LevelsOf(shape) THEN Keys ELSE {}]
              /\ vi \in {1, 2}
              /\ lay = LayRot(Cardinality(Positions(shape)) * 3 + vi + Cardinality(sets["top"]))
\* every layout (working directory x --config x --outfile x stale output), on a tree with every mapped setting
InitLayout == /\ "layout" \in Families /\ fam = "layout" /\ shape = "full" /\ bad = "none" /\ nm = NoName
              /\ sets = [M \in AllLevels |-> Mapped \cup {"with-expecter"}] /\ vi = 1
              /\ \E y \in Layouts, st \in BOOLEAN : (st => StaleOK(y)) /\ lay = [y EXCEPT !.stale = st]
InitNames ==  /\ "names" \in Families /\ fam = "names" /\ shape = "full" /\ bad = "none"
              /\ \E id \in NameIds, pos \in {"pkg", "iface"} : nm = [id |-> id, pos |-> pos] /\ lay = LayRot(IF pos = "pkg" THEN 4 ELSE 17)
              /\ sets = [M \in AllLevels |-> {"all", "mockname", "unroll-variadic", "quiet"} \ {"recursive"}]
              /\ vi = 1
InitBad ==    /\ "bad" \in Families /\ fam = "bad" /\ shape = "full" /\ nm = NoName
              /\ bad \in {"unknown-key-top", "unknown-key-pkg", "unknown-key-entry", "wrong-type", "not-yaml", "v3-file", "list-top",
                         "dup-key", "absent-input", "input-is-dir"}
              /\ sets = [M \in AllLevels |-> {"all", "dir"}]
              /\ vi = 1
              /\ \E n \in {0, 7, 13, 22} : lay = LayRot(n)
\* every documented value form of every setting WITHOUT a v3 counterpart, at every level; whole trees in which
\* every key carries its n-th documented form (next to the marker values of the mapped ones) in every shape
InitDocOne(f, ks) == /\ f \in Families /\ fam = f /\ shape = "full" /\ bad = "none" /\ nm = NoName
                     /\ \E k \in ks, L \in DocLevels, n \in 1..MaxDoc :
                           /\ n <= Len(DocForms(k)) /\ vi = 11 + n /\ sets = Only(L, {k})
                           /\ lay = LayRot(Kn(k) * 7 + Idx(L) * 9 + n * 4)
InitDocSyn == InitDocOne("docsyn", SynKeys)
InitDoc ==    InitDocOne("doc", DocKeys \ SynKeys)
InitDocTree == /\ "doctree" \in Families /\ fam = "doctree" /\ bad = "none" /\ nm = NoName
               /\ vi \in DocStyles
               /\ \/ shape = "full" /\ sets = [M \in AllLevels |-> Keys]
                  \/ shape = "full" /\ sets = [M \in AllLevels |-> DocKeys]
                  \/ shape \in Shapes \ {"full"} /\ vi <= 14 /\ sets = [M \in AllLevels |-> IF M \in LevelsOf(shape) THEN Keys ELSE {}]
               /\ lay = LayRot(vi * 3 + Cardinality(Positions(shape)) + Cardinality(sets["top"]))
\* random subsets of the full key set at every level, random style and layout: drawn by the Choose action under -simulate
InitRandom == /\ "random" \in Families /\ fam = "random" /\ shape \in {"full", "oneentry", "onepkg", "noentries"} /\ bad = "none"
              /\ nm = NoName /\ sets = NoKeys /\ vi = 1 /\ lay = LayRot(0) /\ wrote = "-"
              /\ pc = "choose" /\ todo = << >> /\ out = << >> /\ res = "run"

Init == InitRandom \/ (Base /\ (InitSingle \/ InitStyle \/ InitAlias \/ InitNull \/ InitPair \/ InitLevels \/ InitShape \/ InitLayout \/ InitNames \/ InitBad
                                \/ InitDocSyn \/ InitDoc \/ InitDocTree))

(* ------------------------------------------------------------ migrate.go *)
\* migrateConfig, migrate.go:278-410, line by line: where each v2 field goes.  "-" = not carried over.
ImplPath(k) ==
  CASE k = "all" -> "all"                                           \* :296
    [] k = "_anchors" -> "_anchors"                                 \* :297
    [] k = "boilerplate-file" -> "template-data.boilerplate-file"   \* :298-303
    [] k = "config" -> "config"                                     \* :311
    [] k = "dir" -> "dir"                                           \* :315
    [] k = "exclude" -> "exclude-subpkg-regex"                      \* :330
    [] k = "exclude-regex" -> "exclude-interface-regex"             \* :331
    [] k = "include-regex" -> "include-interface-regex"             \* :345
    [] k = "log-level" -> "log-level"                               \* :352
    [] k = "mock-build-tags" -> "template-data.mock-build-tags"     \* :353-358
    [] k = "mockname" -> "structname"                               \* :359
    [] k = "outpkg" -> "pkgname"                                    \* :366
    [] k = "recursive" -> "recursive"                               \* :382
    [] k = "unroll-variadic" -> "template-data.unroll-variadic"     \* :398-403
    [] k = "with-expecter" -> "template-data.with-expecter"         \* :404-409
    [] OTHER -> "-"

\* nil pointers / nil slices / nil maps are not written (omitempty); empty ones neither
ImplLevel(L) ==
  LET ks == {k \in sets[L] : ImplPath(k) # "-" /\ ~Blank(Val(k, L, vi))} IN
  [p \in {ImplPath(k) : k \in ks} |-> Val(CHOOSE k \in ks : ImplPath(k) = p, L, vi)]

Ext(f, p, v) == [x \in DOMAIN f \cup {p} |-> IF x = p THEN v ELSE f[x]]
Put(L, m) == [x \in DOMAIN out \cup {L} |-> IF x = L THEN m ELSE out[x]]

Choose ==
  /\ pc = "choose"
  /\ sets' = [M \in AllLevels |-> IF M \in Configurable(shape) THEN RandomSubset(RandomElement(0..SimMax), Keys) ELSE {}]
  /\ vi' = IF RandomElement(1..3) = 1 THEN RandomElement(DocStyles) ELSE RandomElement(Styles \cup {10, 11})
  /\ lay' = LayRot(RandomElement(0..(2 * Len(LaySeq) - 1)))
  /\ pc' = "decode"
  /\ UNCHANGED <<fam, shape, nm, bad, wrote, todo, out, res>>

\* migrate.go:149-159
Decode ==
  /\ pc = "decode"
  /\ IF bad # "none" THEN pc' = "done" /\ res' = "fail" ELSE pc' = "top" /\ UNCHANGED res
  /\ UNCHANGED <<fam, shape, sets, vi, nm, bad, lay, wrote, todo, out>>

\* migrate.go:161-169: v3Config.Template = "testify" after migrating the top level
MigrateTop ==
  /\ pc = "top"
  /\ out' = Put("top", Ext(ImplLevel("top"), "template", Q("testify")))
  /\ todo' = SelectSeq(Order, LAMBDA L : L \in Lv /\ L # "top")
  /\ pc' = "levels"
  /\ UNCHANGED <<fam, shape, sets, vi, nm, bad, lay, wrote, res>>

\* migrate.go:171-200: each package, each interface, each configs entry
MigrateLevel ==
  /\ pc = "levels" /\ todo # << >>
  /\ out' = Put(Head(todo), ImplLevel(Head(todo)))
  /\ todo' = Tail(todo)
  /\ UNCHANGED <<fam, shape, sets, vi, nm, bad, lay, wrote, pc, res>>

\* migrate.go:202-216
\* pathlib.NewPath(v3ConfPath).OpenFile(O_CREATE|O_RDWR|O_TRUNC): --outfile (default ".mockery_v3.yml",
\* migrate.go:66) is taken as given, so a relative one is relative to the working directory
ImplOutLoc ==
  CASE lay.out = "default"  -> "cwd:.mockery_v3.yml"
    [] lay.out = "rel"      -> "cwd:out/v3.yml"
    [] lay.out = "samebase" -> "cwd:<input base name>"
    [] lay.out = "abs"      -> "abs:abs-out.yml"
    [] lay.out = "input"    -> "-"           \* os.SameFile(input, output): refused, nothing written (fix 48b9394)
Encode ==
  /\ pc = "levels" /\ todo = << >>
  /\ pc' = "done" /\ res' = IF lay.out = "input" THEN "fail" ELSE "ok"
  /\ wrote' = ImplOutLoc
  /\ UNCHANGED <<fam, shape, sets, vi, nm, bad, lay, todo, out>>

Next == Choose \/ Decode \/ MigrateTop \/ MigrateLevel \/ Encode
Spec == Init /\ [][Next]_vars

-----------------------------------------------------------------------------
(* Impl => Contract *)
ImplConforms == pc = "done" /\ bad = "none" => IF lay.out = "input" THEN wrote # "input"
                                               ELSE res = "ok" /\ TreeOK(V2, out) /\ wrote = OutLocId(lay)

TypeOK == /\ shape \in Shapes /\ vi \in AllStyles /\ pc \in {"choose", "decode", "top", "levels", "done"}
          /\ \A L \in AllLevels : sets[L] \subseteq Keys

\* vacuity witnesses (must be violated)
NeverTemplateData == ~(pc = "done" /\ res = "ok" /\ \E L \in DOMAIN out : "template-data.unroll-variadic" \in DOMAIN out[L])
NeverFail == ~(pc = "done" /\ res = "fail")

-----------------------------------------------------------------------------
(* Export: one case per completed model run, with the contract's expectation per level *)
Expect == [L \in Lv |-> [req |-> Required(V2[L]), may |-> MayAppear(V2[L])]]
Case == [fam |-> fam, shape |-> shape, vi |-> vi, nm |-> nm, bad |-> bad, lay |-> lay,
         v2 |-> V2, expect |-> Expect, outloc |-> OutLocId(lay), model |-> out, ok |-> (bad = "none")]
Emit == IF pc = "done" THEN PrintT(<<"CASE", ToJson(Case)>>) ELSE TRUE
=============================================================================
