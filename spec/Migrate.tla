------------------------------ MODULE Migrate ------------------------------
(***************************************************************************)
(* C19 -- `mockery migrate` (internal/cmd/migrate.go).                     *)
(*                                                                         *)
(* A case is a v2 configuration tree: which of the v2 keys are set at      *)
(* which level (top, package config, interface config, configs entries, a  *)
(* second interface, a second package), with marker values unique per      *)
(* (key, level), in one of several tree shapes.  Init enumerates the       *)
(* families the property quantifies over (every key x level, every pair of *)
(* keys at one level, every level subset per key, every shape, everything  *)
(* at once, odd names, undecodable inputs; random subsets under -simulate).*)
(*                                                                         *)
(* Code-shaped layer: one action per critical section of migrate.go        *)
(*   Decode        migrate.go:149-159  strict YAML decoding (KnownFields)  *)
(*   MigrateTop    migrate.go:161-169  top level + template choice         *)
(*   MigrateLevel  migrate.go:171-200  packages / interfaces / configs, in *)
(*                                     turn; migrateConfig is ImplLevel    *)
(*   Encode        migrate.go:202-216  O_TRUNC open + yaml encoder         *)
(* Contract layer: MigrateContract.tla (TreeOK), checked when the model    *)
(* run is done and exported with every case.                               *)
(***************************************************************************)
EXTENDS MigrateContract, TLC, Json, Randomization

CONSTANTS Families,    \* which case families Init enumerates
          CoreLevels,  \* levels used by the "levels" family (subset of AllLevels)
          PairKeys,    \* keys used by the "pair" family
          PairLevels,  \* levels used by the "pair" family
          LevelKeys,   \* keys used by the "levels" family
          NameIds,     \* odd package / interface names (ids; concretised by checks/c19.py)
          SimMax       \* bound on the keys per level in the "random" family (simulation)

(* ------------------------------------------------------------ v2 key set *)
BoolKeys == {"all", "recursive", "unroll-variadic", "with-expecter", "disable-config-search",
             "disable-deprecation-warnings", "disable-func-mocks", "disable-version-string", "dry-run", "exported",
             "fail-on-missing", "inpackage", "inpackage-suffix", "include-auto-generated", "issue-845-fix",
             "keeptree", "print", "quiet", "resolve-type-alias", "testonly", "version"}
StrKeys == {"dir", "mockname", "outpkg", "include-regex", "exclude-regex", "log-level", "config",
            "boilerplate-file", "mock-build-tags", "tags", "case", "cpuprofile", "filename", "name", "note",
            "output", "packageprefix", "profile", "srcpkg", "structname"}
ListKeys == {"exclude", "disabled-deprecation-warnings", "replace-type"}
MapKeys == {"_anchors"}
Keys == BoolKeys \cup StrKeys \cup ListKeys \cup MapKeys      \* V2Config, migrate.go:427-473

ASSUME Mapped \subseteq Keys

(* ---------------------------------------------------------------- levels *)
\* level ids encode the position in the tree: package A has interface I (config + entries e1, e2) and J,
\* package B has only a config
AllLevels == {"top", "pkgA", "ifaceI", "e1", "e2", "ifaceJ", "pkgB"}
Order == <<"top", "pkgA", "ifaceI", "e1", "e2", "ifaceJ", "pkgB">>
Odd(L) == L \in {"top", "ifaceI", "e2", "pkgB"}

\* tree shapes.  Positions(sh): the places of the tree that exist (a package / interface / configs entry is
\* there by name or index); Configurable(sh): those whose configuration map is not null, so keys can be set.
Shapes == {"full", "noentries", "oneentry", "onepkg", "nullconfigs", "nullcfg", "nulliface", "nullpkg",
           "emptypkgs", "nopkgs", "emptyifaces"}
Positions(sh) ==
  CASE sh = "full"        -> AllLevels
    [] sh = "noentries"   -> AllLevels \ {"e1", "e2"}                     \* no `configs` key
    [] sh = "nullconfigs" -> AllLevels \ {"e1", "e2"}                     \* `configs: null`
    [] sh = "oneentry"    -> AllLevels \ {"e2"}
    [] sh = "onepkg"      -> AllLevels \ {"pkgB"}
    [] sh = "nullcfg"     -> AllLevels                                    \* every `config:` is null, entries exist
    [] sh = "nulliface"   -> AllLevels \ {"e1", "e2"}                     \* `I:` and `J:` have null values
    [] sh = "emptyifaces" -> {"top", "pkgA", "pkgB"}                      \* `interfaces: {}`
    [] sh = "nullpkg"     -> {"top", "pkgA", "pkgB"}                      \* `pkgA:` and `pkgB:` have null values
    [] sh = "emptypkgs"   -> {"top"}                                      \* `packages: {}`
    [] sh = "nopkgs"      -> {"top"}                                      \* no `packages` key
Configurable(sh) ==
  CASE sh = "nullcfg"   -> {"top", "e1", "e2"}
    [] sh = "nulliface" -> {"top", "pkgA", "pkgB"}
    [] sh = "nullpkg"   -> {"top"}
    [] OTHER -> Positions(sh)
LevelsOf(sh) == Configurable(sh)

(* ---------------------------------------------------------------- values *)
\* JSON text of the marker value of key k at level L in value style vi:
\*   1 plain, 2 the other polarity / YAML-significant text, 0 explicit null
Q(s) == "\"" \o s \o "\""
\* log-level values stay valid zerolog level names (a loader may validate them), distinct per level
LogName(L, vi) ==
  LET i == CHOOSE j \in 1..7 : Order[j] = L
      names == <<"debug", "info", "warn", "error", "trace", "fatal", "panic">>
  IN names[IF vi = 1 THEN i ELSE ((i + 2) % 7) + 1]
Val(k, L, vi) ==
  IF vi = 0 THEN "null"
  ELSE IF k \in BoolKeys THEN (IF (vi = 1) = Odd(L) THEN "true" ELSE "false")
  ELSE IF k \in StrKeys THEN
       (IF k = "log-level" THEN Q(LogName(L, vi))
        ELSE IF vi = 1 THEN Q(k \o "@" \o L)
        ELSE IF k = "mockname" THEN Q("{{.InterfaceNameCamel}}: " \o L \o " #x")
        ELSE Q(" " \o k \o ": {" \o L \o "} #x *&!|>'%@`, [y] "))
  ELSE IF k \in ListKeys THEN
       (IF vi = 1 THEN "[" \o Q(k \o "@" \o L \o "/1") \o "," \o Q(k \o "@" \o L \o "/2") \o "]"
        ELSE "[" \o Q("- " \o k \o ": " \o L \o " #c") \o "," \o Q("") \o "," \o Q("null") \o "]")
  ELSE (IF vi = 1 THEN "{" \o Q("a@" \o L) \o ":{\"all\":true,\"l\":[1,\"two\"]}," \o Q("s") \o ":" \o Q(k \o "@" \o L) \o "}"
        ELSE "{" \o Q("k: " \o L \o " #") \o ":" \o Q(" v: {x} ") \o "}")

VARIABLES fam,        \* case family
          shape,      \* tree shape
          sets,       \* level -> set of v2 keys set there
          vi,         \* value style
          nm,         \* [id |-> odd name id or "-", pos |-> "pkg" | "iface"]: which name is odd
          bad,        \* "none" or the way the input is NOT a decodable v2 file
          pc, todo,   \* migrate.go program counter, levels still to migrate
          out,        \* the v3 tree built so far: level -> (path -> JSON text)
          res         \* "run" | "ok" | "fail"

vars == <<fam, shape, sets, vi, nm, bad, pc, todo, out, res>>

Lv == Positions(shape)
V2 == [L \in Lv |-> [k \in sets[L] |-> Val(k, L, vi)]]
NoKeys == [L \in AllLevels |-> {}]
Only(L, ks) == [M \in AllLevels |-> IF M = L THEN ks ELSE {}]
NoName == [id |-> "-", pos |-> "pkg"]

Base == /\ pc = "decode" /\ todo = << >> /\ out = << >> /\ res = "run"

InitSingle == /\ "single" \in Families /\ fam = "single" /\ shape = "full" /\ bad = "none" /\ nm = NoName
              /\ \E k \in Keys, L \in AllLevels : sets = Only(L, {k})
              /\ vi \in {1, 2}
InitNull ==   /\ "null" \in Families /\ fam = "null" /\ shape = "full" /\ bad = "none" /\ nm = NoName
              /\ \E k \in Mapped \cup {"with-expecter", "filename"}, L \in AllLevels : sets = Only(L, {k})
              /\ vi = 0
InitPair ==   /\ "pair" \in Families /\ fam = "pair" /\ shape = "full" /\ bad = "none" /\ nm = NoName
              /\ \E k1 \in PairKeys, k2 \in Keys, L \in PairLevels : k1 # k2 /\ sets = Only(L, {k1, k2})
              /\ vi = 1
InitLevels == /\ "levels" \in Families /\ fam = "levels" /\ shape = "full" /\ bad = "none" /\ nm = NoName
              /\ \E k \in LevelKeys, S \in (SUBSET CoreLevels) \ {{}} : sets = [M \in AllLevels |-> IF M \in S THEN {k} ELSE {}]
              /\ vi = 1
InitShape ==  /\ "shape" \in Families /\ fam = "shape" /\ shape \in Shapes /\ bad = "none" /\ nm = NoName
              /\ \/ sets = [M \in AllLevels |-> IF M \in LevelsOf(shape) THEN Mapped \cup {"with-expecter"} ELSE {}]
                 \/ sets = NoKeys
                 \/ sets = [M \in AllLevels |-> IF M \in LevelsOf(shape) THEN Keys ELSE {}]
              /\ vi \in {1, 2}
InitNames ==  /\ "names" \in Families /\ fam = "names" /\ shape = "full" /\ bad = "none"
              /\ \E id \in NameIds, pos \in {"pkg", "iface"} : nm = [id |-> id, pos |-> pos]
              /\ sets = [M \in AllLevels |-> {"all", "mockname", "unroll-variadic", "quiet"} \ {"recursive"}]
              /\ vi = 1
InitBad ==    /\ "bad" \in Families /\ fam = "bad" /\ shape = "full" /\ nm = NoName
              /\ bad \in {"unknown-key-top", "unknown-key-pkg", "unknown-key-entry", "wrong-type", "not-yaml", "v3-file", "list-top"}
              /\ sets = [M \in AllLevels |-> {"all", "dir"}]
              /\ vi = 1
\* random subsets of the full key set at every level: drawn by the Choose action under -simulate
InitRandom == /\ "random" \in Families /\ fam = "random" /\ shape \in {"full", "oneentry", "onepkg", "noentries"} /\ bad = "none"
              /\ nm = NoName /\ sets = NoKeys /\ vi \in {1, 2}
              /\ pc = "choose" /\ todo = << >> /\ out = << >> /\ res = "run"

Init == InitRandom \/ (Base /\ (InitSingle \/ InitNull \/ InitPair \/ InitLevels \/ InitShape \/ InitNames \/ InitBad))

(* ------------------------------------------------------------ migrate.go *)
\* migrateConfig, migrate.go:278-410, line by line: where each v2 field goes.  "-" = not carried over.
ImplPath(k) ==
  CASE k = "all" -> "all"                                           \* :296
    [] k = "_anchors" -> "_anchors"                                 \* :297
    [] k = "boilerplate-file" -> "template-data.boilerplate-file"   \* :298-303
    [] k = "config" -> "config"                                     \* :311
    [] k = "dir" -> "dir"                                           \* :315
    [] k = "exclude" -> "exclude-subpkg-regex"                      \* :330
    [] k = "exclude-regex" -> "exclude-interface-regex"             \* :331
    [] k = "include-regex" -> "include-interface-regex"             \* :345
    [] k = "log-level" -> "log-level"                               \* :352
    [] k = "mock-build-tags" -> "template-data.mock-build-tags"     \* :353-358
    [] k = "mockname" -> "structname"                               \* :359
    [] k = "outpkg" -> "pkgname"                                    \* :366
    [] k = "recursive" -> "recursive"                               \* :382
    [] k = "unroll-variadic" -> "template-data.unroll-variadic"     \* :398-403
    [] k = "with-expecter" -> "template-data.with-expecter"         \* :404-409
    [] OTHER -> "-"

\* nil pointers / nil slices / nil maps are not written (omitempty); empty ones neither
ImplLevel(L) ==
  LET ks == {k \in sets[L] : ImplPath(k) # "-" /\ ~Blank(Val(k, L, vi))} IN
  [p \in {ImplPath(k) : k \in ks} |-> Val(CHOOSE k \in ks : ImplPath(k) = p, L, vi)]

Ext(f, p, v) == [x \in DOMAIN f \cup {p} |-> IF x = p THEN v ELSE f[x]]
Put(L, m) == [x \in DOMAIN out \cup {L} |-> IF x = L THEN m ELSE out[x]]

Choose ==
  /\ pc = "choose"
  /\ sets' = [M \in AllLevels |-> IF M \in Configurable(shape) THEN RandomSubset(RandomElement(0..SimMax), Keys) ELSE {}]
  /\ pc' = "decode"
  /\ UNCHANGED <<fam, shape, vi, nm, bad, todo, out, res>>

\* migrate.go:149-159
Decode ==
  /\ pc = "decode"
  /\ IF bad # "none" THEN pc' = "done" /\ res' = "fail" ELSE pc' = "top" /\ UNCHANGED res
  /\ UNCHANGED <<fam, shape, sets, vi, nm, bad, todo, out>>

\* migrate.go:161-169: v3Config.Template = "testify" after migrating the top level
MigrateTop ==
  /\ pc = "top"
  /\ out' = Put("top", Ext(ImplLevel("top"), "template", Q("testify")))
  /\ todo' = SelectSeq(Order, LAMBDA L : L \in Lv /\ L # "top")
  /\ pc' = "levels"
  /\ UNCHANGED <<fam, shape, sets, vi, nm, bad, res>>

\* migrate.go:171-200: each package, each interface, each configs entry
MigrateLevel ==
  /\ pc = "levels" /\ todo # << >>
  /\ out' = Put(Head(todo), ImplLevel(Head(todo)))
  /\ todo' = Tail(todo)
  /\ UNCHANGED <<fam, shape, sets, vi, nm, bad, pc, res>>

\* migrate.go:202-216
Encode ==
  /\ pc = "levels" /\ todo = << >>
  /\ pc' = "done" /\ res' = "ok"
  /\ UNCHANGED <<fam, shape, sets, vi, nm, bad, todo, out>>

Next == Choose \/ Decode \/ MigrateTop \/ MigrateLevel \/ Encode
Spec == Init /\ [][Next]_vars

-----------------------------------------------------------------------------
(* Impl => Contract *)
ImplConforms == pc = "done" /\ bad = "none" => res = "ok" /\ TreeOK(V2, out)

TypeOK == /\ shape \in Shapes /\ vi \in 0..2 /\ pc \in {"choose", "decode", "top", "levels", "done"}
          /\ \A L \in AllLevels : sets[L] \subseteq Keys

\* vacuity witnesses (must be violated)
NeverTemplateData == ~(pc = "done" /\ res = "ok" /\ \E L \in DOMAIN out : "template-data.unroll-variadic" \in DOMAIN out[L])
NeverFail == ~(pc = "done" /\ res = "fail")

-----------------------------------------------------------------------------
(* Export: one case per completed model run, with the contract's expectation per level *)
Expect == [L \in Lv |-> [req |-> Required(V2[L]), may |-> MayAppear(V2[L])]]
Case == [fam |-> fam, shape |-> shape, vi |-> vi, nm |-> nm, bad |-> bad,
         v2 |-> V2, expect |-> Expect, model |-> out, ok |-> (bad = "none")]
Emit == IF pc = "done" THEN PrintT(<<"CASE", ToJson(Case)>>) ELSE TRUE
=============================================================================
