------------------------------ MODULE InitCmd ------------------------------
(***************************************************************************)
(* C18 -- `mockery init <package>` (internal/cmd/init.go) followed by      *)
(* `mockery showconfig` (the strict loader, config.NewRootConfig) and a    *)
(* plain `mockery` run on the file it wrote.                               *)
(*                                                                         *)
(* Code-shaped layer: one action per critical section of init.go           *)
(*   InitOpen    init.go:41-79   --config or ".mockery.yml"; OpenFile with *)
(*                               O_RDWR|O_CREATE|O_EXCL                    *)
(*   InitEncode  init.go:54-71,81-88  defaults from NewDefaultKoanf, the   *)
(*                               packages map, yaml encoder                *)
(*   Load        showconfig.go / config.go:119-227                         *)
(*   Run         cmd/mockery.go:172-398 with the loaded file               *)
(* over an abstract file system holding ONE designated target path.        *)
(* Contract layer: InitCmdContract.tla; this module checks every outcome   *)
(* of the code-shaped actions against it (ImplConforms) and exports every  *)
(* generated transition, with a representative history leading to it and   *)
(* the contract's verdict on each step, as one implementation test.        *)
(***************************************************************************)
EXTENDS InitCmdContract, TLC, Json

CONSTANTS Worlds,      \* set of [id, pkgs, gopkgs, cfgs, inits, envs, ancs, mixes] records (scratch module + alphabets)
          IfacesOf,    \* package id -> names of the interfaces that must be mocked (Go packages of the world)
          MayOf,       \* package id -> names of the interfaces the statement leaves open
          ImplExtraOf, \* package id -> those of MayOf the code mocks today (every interface literal: constraints too)
          RejectedPkgs,\* package ids whose written file mockery's loader rejects   } known findings: yaml.v3 writes the key
          MangledPkgs, \* package ids that load back as a different string          } `<<` unquoted and mis-writes some block literals
          MaxHist,     \* bound on the number of operations in a history
          MixHist,     \* the same bound for the worlds whose package is given by its source files (what is explored
                       \* there is the package, not the history)
          TrackLoad    \* TRUE: a successful load is part of the state, so histories continue after it

VARIABLES world,       \* the world record chosen for this behaviour
          start,       \* kind of content at the target path before the first operation
          decoy,       \* what is at the place lexical cleaning of --config would name: "none" (same place) | "absent" | "valid"
          mix,         \* the source files (set of file classes, InitCmdContract!FileClass) the Go package "mix" of
                       \* the world is made of; {} = the world has no such package
          anc,         \* a configuration file some ancestor directory of the working directory already holds
          env,         \* class of MOCKERY_* variables set while `init` runs (load and run use a clean environment)
          cfg,         \* class of the --config argument (see CfgClasses)
          content,     \* what is at the target path: [k |-> kind, p |-> package id or None]
          mocks,       \* Go packages whose mocks_test.go exists (written by Run)
          loaded,      \* a Load succeeded on the current content (only when TrackLoad)
          pc, pending, \* init.go between OpenFile and Encode
          last,        \* the last completed operation with its outcome and the contract's verdict
          hist         \* all completed operations (observation; hidden by VIEW)

vars == <<world, start, decoy, mix, anc, env, cfg, content, mocks, loaded, pc, pending, last, hist>>
view == <<world, start, decoy, mix, anc, env, cfg, content, mocks, loaded, pc, pending>>

\* --config classes.  "default": flag absent, init.go:47 falls back to ".mockery.yml" in the working
\* directory and a later plain run finds it by search.  All others name the file explicitly.
\* "linkup" / "linkupabs": `lnk/../x.yml` where lnk is a symbolic link to a directory elsewhere -- the kernel resolves
\* this to the parent of the link's DESTINATION, lexical cleaning to the directory holding the link; "linkdir":
\* through the linked directory without `..` (control); "dslash": `cfgs//./conf.yml`.  The target path is what the
\* kernel resolves: init.go hands the string to open(2) as it is.
\* "ext-*": the file NAME -- other extensions than .yml (the loader must not care), none, a dotfile
ExtClasses == {"ext-json", "ext-JSON", "ext-toml", "ext-txt", "ext-none", "ext-jsonyml", "ext-dot", "ext-absjson"}
CfgClasses == {"default", "rel", "reldot", "abs", "subdir", "missing", "yamlext", "eqform", "after", "cwdsub",
               "linkup", "linkupabs", "linkdir", "dslash"} \cup ExtClasses
TwoCandidates(c) == c \in {"linkup", "linkupabs"}   \* lexical cleaning would name another place (the decoy)
ParentOK(c) == c # "missing"

\* kinds of content at the target path
UserKinds == {"empty", "valid", "garbage", "dir", "dirfull", "link", "dangling", "twin", "fifo"}   \* fifo: a named pipe
\* argument shapes other than exactly one package: cobra.ExactArgs(1) (init.go:24) refuses them before anything
\* is opened.  Ids, like the package strings.
ArgShapes == {"a_none", "a_two"}
C(k, p) == [k |-> k, p |-> p]
Presence(c) == IF c.k = "absent" THEN "no" ELSE "yes"      \* lstat: a dangling link is something, too
By(c) == IF c.k = "init" THEN c.p ELSE None

Init ==
  /\ world \in Worlds
  /\ cfg \in world.cfgs
  /\ start \in world.inits
  /\ cfg = "missing" => start = "absent"      \* nothing can be below a directory that does not exist
  /\ decoy \in (IF TwoCandidates(cfg) THEN {"absent", "valid"} ELSE {"none"})
  /\ mix \in world.mixes
  /\ mix # {} => FilesIfaces(mix) # {} /\ "mix" \in world.pkgs   \* a package (some file is compiled) with interfaces to mock
  /\ mix = {} => "mix" \notin world.pkgs
  /\ anc \in world.ancs
  /\ anc # "none" => start = "absent" /\ cfg \in {"default", "cwdsub"}   \* only the search for a config looks upwards
  /\ env \in world.envs
  /\ env # "none" => start \in {"absent", "dangling"}   \* the environment can only matter when init writes
  /\ content = C(start, None)
  /\ mocks = {}
  /\ loaded = FALSE
  /\ pc = "idle" /\ pending = None
  /\ last = [op |-> "start"]
  /\ hist = << >>

HistBound == IF mix = {} THEN MaxHist ELSE MixHist
Done(rec) == last' = rec /\ hist' = Append(hist, rec)

(* ---------------------------------------------------------------- init.go *)
\* init.go:41-79.  O_CREATE|O_EXCL: fails with EEXIST on anything lstat finds (a directory, a symbolic
\* link even when dangling), with ENOENT when the parent directory is missing.
InitOpen(p) ==
  /\ pc = "idle" /\ Len(hist) < HistBound
  /\ IF p \in ArgShapes \/ content.k # "absent" \/ ~ParentOK(cfg)
     THEN /\ Done([op |-> "init", pkg |-> p, ok |-> FALSE, after |-> "same",
                   allow |-> IF p \in ArgShapes THEN InitAllowedOtherArgs(Presence(content))
                             ELSE InitAllowed(Presence(content), ParentOK(cfg))])
          /\ UNCHANGED <<world, start, decoy, mix, anc, env, cfg, content, mocks, loaded, pc, pending>>
     ELSE /\ content' = C("created", None)        \* an empty file exists from here on
          /\ pc' = "opened" /\ pending' = p
          /\ UNCHANGED <<world, start, decoy, mix, anc, env, cfg, mocks, loaded, last, hist>>

\* init.go:54-71,81-88.  rootConf = defaults of NewDefaultKoanf + packages {p: {config: {all: true}}}.
\* NewDefaultKoanf (config.go:89-110) holds the built-in defaults only: the MOCKERY_* environment is a layer of
\* NewRootConfig (config.go:175-202), which init does not use, so `env` does not influence what is written.
InitEncode ==
  /\ pc = "opened"
  /\ content' = C("init", pending)
  /\ loaded' = FALSE
  /\ pc' = "idle" /\ pending' = None
  /\ Done([op |-> "init", pkg |-> pending, ok |-> TRUE, after |-> "created",
           allow |-> InitAllowed("no", ParentOK(cfg))])
  /\ UNCHANGED <<world, start, decoy, mix, anc, env, cfg, mocks>>

(* ------------------------------------------------------------ showconfig *)
\* Known deviations (findings C18-merge-key-package, C18-block-literal-package): yaml.v3 writes the key `<<`
\* unquoted, so the loader reads a merge key, not a package; a multi-line string that starts with a tab is
\* written as a block literal yaml.v3 itself cannot read; one that starts with a line break loses it.
LoadImpl(c) ==
  IF c.k = "init" THEN
       IF c.p \in RejectedPkgs THEN [ok |-> FALSE, keys |-> << >>]
       ELSE IF c.p \in MangledPkgs THEN [ok |-> TRUE, keys |-> <<"mangled">>]
       ELSE [ok |-> TRUE, keys |-> <<c.p>>]
  ELSE IF c.k \in {"valid", "twin", "link"} THEN [ok |-> TRUE, keys |-> <<"user">>]
  ELSE [ok |-> FALSE, keys |-> << >>]

\* from: "cwd" = the directory init ran in, "below" = a sub-directory of it, the file found by searching upwards
\* (only meaningful when no --config is given)
Froms == IF cfg = "default" /\ env = "none" /\ anc = "none" /\ mix = {} THEN {"cwd", "below"} ELSE {"cwd"}   \* not crossed with env / ancestors
Load(from) ==
  /\ pc = "idle" /\ Len(hist) < HistBound
  /\ content.k # "fifo"          \* reading a pipe nobody writes to blocks: not an observation about init
  /\ LET r == LoadImpl(content) IN
     /\ Done([op |-> "load", from |-> from, pkg |-> By(content), ok |-> r.ok, keys |-> r.keys, expect |-> LoadExpect(By(content))])
     /\ loaded' = IF TrackLoad /\ r.ok THEN TRUE ELSE loaded
  /\ UNCHANGED <<world, start, decoy, mix, anc, env, cfg, content, mocks, pc, pending>>

(* ------------------------------------------------------------- plain run *)
IsGoPkg(p) == p \in world.gopkgs
\* the package "mix": what it declares follows from the files it is made of (contract operators)
Ifc(p) == IF p = "mix" THEN FilesIfaces(mix) ELSE IF p \in DOMAIN IfacesOf THEN IfacesOf[p] ELSE {}
May(p) == IF p = "mix" THEN FilesMay(mix) ELSE IF p \in DOMAIN MayOf THEN MayOf[p] ELSE {}
\* parse.go:45-64 loads the package without its tests (packages.Config.Tests = false) and walks pkg.GoFiles: files
\* the toolchain leaves out and _test.go files are never seen, every other file is, whatever its header says
ImplExtra(p) == IF p = "mix" THEN {} ELSE IF p \in DOMAIN ImplExtraOf THEN ImplExtraOf[p] ELSE {}

\* With the defaults init states (dir = interface dir, filename = mocks_test.go, force-file-write =
\* false) the first run writes <pkg dir>/mocks_test.go and a second one refuses to overwrite it.
RunImpl(c) ==
  IF c.k = "init" /\ IsGoPkg(c.p) /\ c.p \notin mocks
  THEN [ok |-> TRUE, mocked |-> Ifc(c.p) \cup ImplExtra(c.p)]
  ELSE [ok |-> FALSE, mocked |-> {}]

Run(from) ==
  /\ pc = "idle" /\ Len(hist) < HistBound
  /\ content.k = "init" /\ IsGoPkg(content.p)   \* a run on user content, or for a string that names no
                                                 \* package, says nothing about init
  /\ LET r == RunImpl(content) IN
     /\ Done([op |-> "run", from |-> from, pkg |-> By(content), ok |-> r.ok, mocked |-> r.mocked,
              expect |-> RunExpect(By(content), IsGoPkg(content.p), Ifc(content.p), May(content.p), content.p \in mocks)])
     /\ mocks' = IF r.ok THEN mocks \cup {content.p} ELSE mocks
  /\ UNCHANGED <<world, start, decoy, mix, anc, env, cfg, content, loaded, pc, pending>>

Next ==
  \/ \E p \in world.pkgs : InitOpen(p)
  \/ InitEncode
  \/ \E f \in Froms : Load(f) \/ Run(f)

Spec == Init /\ [][Next]_vars

-----------------------------------------------------------------------------
(* Impl => Contract, checked on every generated transition *)
KnownDeviation(rec) == rec.pkg \in RejectedPkgs \cup MangledPkgs

Conforms(rec) ==
  CASE rec.op = "init" -> [ok |-> rec.ok, after |-> rec.after] \in rec.allow
    [] rec.op = "load" -> rec.expect.judged /\ ~KnownDeviation(rec) => rec.ok = rec.expect.ok /\ rec.keys = rec.expect.keys
    [] rec.op = "run"  -> rec.expect.judged /\ ~KnownDeviation(rec) => rec.ok = rec.expect.ok /\ MockedOK(rec.expect, rec.mocked)
    [] OTHER -> TRUE

ImplConforms == [][Len(hist') > Len(hist) => Conforms(last')]_vars

\* an existing file is never modified: whatever is there stays there through init, load and run
ExistingNeverModified ==
  [][(content.k \notin {"absent", "created"}) => content' = content]_vars

\* ancestor configs: u<levels above the working directory>-<file name>-<content>.  The search
\* (internal/config.FindConfig) looks for .mockery.yaml and .mockery.yml in the working directory first and
\* only then in its parents, so the file init wrote there wins over any of these.
AncClasses == {"none", "u1-yaml-valid", "u1-yml-valid", "u1-yaml-empty", "u1-yml-empty",
               "u2-yaml-valid", "u2-yml-valid", "u2-yaml-empty", "u2-yml-empty"}
EnvClasses == {"none", "flagloglevel", "loglevel", "dir", "filename", "force", "all", "template", "config", "buildtags", "unknown", "several", "lower"}
TypeOK == /\ cfg \in CfgClasses /\ env \in EnvClasses /\ anc \in AncClasses
          /\ content.k \in UserKinds \cup {"absent", "created", "init"}
          /\ pc \in {"idle", "opened"}
          /\ mocks \subseteq world.gopkgs
          /\ mix \subseteq FileClasses

\* vacuity witnesses: each of these must be VIOLATED (checked by separate cfgs in the thorough tier)
NeverInitOnExisting == ~(last.op = "init" /\ ~last.ok)
NeverSecondInitAfterRun == ~(last.op = "init" /\ ~last.ok /\ mocks # {})
NeverRunMocks == ~(last.op = "run" /\ last.ok)

-----------------------------------------------------------------------------
(* Export: every generated transition that completes an operation is printed once, with the world, the
   --config class, the initial content and the history that leads to it. *)
Case == [world |-> world.id, cfg |-> cfg, start |-> start, env |-> env, anc |-> anc, decoy |-> decoy, mix |-> mix, ops |-> hist]
Emit == IF pc = "idle" /\ Len(hist) > 0 /\ TLCGet("config").mode = "bfs"
        THEN PrintT(<<"CASE", ToJson(Case)>>) ELSE TRUE
=============================================================================
