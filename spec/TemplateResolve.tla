--------------------------- MODULE TemplateResolve ---------------------------
(***************************************************************************)
(* C11 -- templated config values (dir, filename, pkgname, structname,     *)
(* template-schema) resolve with the documented variable bindings, to a    *)
(* fixpoint, and always terminate.                                         *)
(*                                                                         *)
(* A templated value is a sequence of tokens                               *)
(*    lit(s)        literal text                                           *)
(*    var(v)        {{.v}}                                                 *)
(*    pipe(v, f)    {{.v | f...}}      f = id of a function pipeline       *)
(*    q(body)       text that renders to the TEXT of body -- escaped       *)
(*                  braces, unfolding one level per rendering pass         *)
(*    opaque        a value the model does not follow (function applied to *)
(*                  unrendered template text, undocumented binding)        *)
(*    bad           invalid template syntax (an unclosed action): an error *)
(*                  as soon as a pass meets it, never a returned value     *)
(* A var / pipe token stands for ANY spelling of the same action (see      *)
(* Spellings): blanks inside the delimiters, trim markers, function-call   *)
(* form, {{with}}, {{if}}, a template variable, a comment next to it.      *)
(*                                                                         *)
(* config.go:685-696  the data is bound ONCE: every variable to a plain    *)
(*   string, except StructName which is bound to the *unrendered* text of  *)
(*   the structname parameter.  That is how cross references work: a       *)
(*   {{.StructName}} inside another parameter is replaced by template text *)
(*   which the next pass renders.                                          *)
(* config.go:708-742  loop: pass i renders each of the five parameters on  *)
(*   its own previous output (Go map order); repeat while any changed;     *)
(*   at i >= Cap give up with ErrInfiniteLoop.                             *)
(*                                                                         *)
(* Contract layer (the property): the outcome is a function of the case -- *)
(*   the fixpoint of repeated rendering under the DOCUMENTED bindings, or  *)
(*   an error when no fixpoint exists; never an intermediate value.        *)
(* Code-shaped layer: the loop above with the bindings as the code         *)
(*   computes them (case.impl).                                            *)
(***************************************************************************)
EXTENDS Integers, Sequences, FiniteSets, TLC, Json

CONSTANTS Cap,          \* iteration cap of the code (20)
          MustOk,       \* contract: a value that is stable after <= MustOk changing passes must resolve
          Horizon,      \* how many passes the contract looks ahead for a fixpoint (> Cap)
          Interleave    \* TRUE: render the five parameters one by one in any order (Go map order)

Params == {"dir", "filename", "pkgname", "structname", "schema"}

Lit(s)      == [k |-> "lit", s |-> s]
Var(v)      == [k |-> "var", v |-> v]
Pipe(v, f)  == [k |-> "pipe", v |-> v, f |-> f]
Q(body)     == [k |-> "q", body |-> body]
Opaque      == [k |-> "opaque"]
Bad         == [k |-> "bad"]           \* an unclosed action: text/template cannot parse the value
UNSPECVAL   == "%UNSPEC%"

PipeKey(v, f) == v \o "__" \o f

-----------------------------------------------------------------------------
(* One rendering pass over one value *)

\* data: record, variable (or variable__pipeline) -> string;  sraw: unrendered structname tokens
RenderTok(t, data, sraw) ==
  CASE t.k = "lit"    -> <<t>>
    [] t.k = "var"    -> IF t.v = "StructName" THEN sraw
                         ELSE IF data[t.v] = UNSPECVAL THEN <<Opaque>> ELSE <<Lit(data[t.v])>>
    [] t.k = "pipe"   -> IF t.v = "StructName" THEN <<Opaque>>             \* function of template text
                         ELSE IF data[PipeKey(t.v, t.f)] = UNSPECVAL THEN <<Opaque>>
                         ELSE <<Lit(data[PipeKey(t.v, t.f)])>>
    [] t.k = "q"      -> t.body
    [] t.k = "opaque" -> <<t>>
    [] t.k = "bad"    -> <<t>>

RECURSIVE Flatten(_, _, _)
Flatten(ts, data, sraw) ==
  IF Len(ts) = 0 THEN << >> ELSE RenderTok(ts[1], data, sraw) \o Flatten(Tail(ts), data, sraw)

\* adjacent literals are one piece of text; empty literals vanish
RECURSIVE Norm(_)
Norm(ts) ==
  IF Len(ts) = 0 THEN ts
  ELSE IF ts[1].k = "lit" /\ ts[1].s = "" THEN Norm(Tail(ts))
  ELSE IF Len(ts) >= 2 /\ ts[1].k = "lit" /\ ts[2].k = "lit"
       THEN Norm(<<Lit(ts[1].s \o ts[2].s)>> \o SubSeq(ts, 3, Len(ts)))
  ELSE <<ts[1]>> \o Norm(Tail(ts))

Render(ts, data, sraw) == Norm(Flatten(ts, data, sraw))

RenderAll(vs, data, sraw) == [p \in Params |-> Render(vs[p], data, sraw)]

\* text of a value; only final values (literals, a surviving {{.StructName}}, opaque) are ever printed
RECURSIVE Text(_)
Text(ts) ==
  IF Len(ts) = 0 THEN ""
  ELSE (CASE ts[1].k = "lit" -> ts[1].s
          [] ts[1].k = "var" -> "{{." \o ts[1].v \o "}}"
          [] ts[1].k = "bad" -> "%BAD%"
          [] OTHER -> "%OPAQUE%") \o Text(Tail(ts))

HasBad(ts)    == \E j \in 1..Len(ts) : ts[j].k = "bad"            \* at top level: inside a quote it is still text
AnyBad(vs)    == \E p \in Params : HasBad(vs[p])
\* the spellings the harness may use for one and the same var / pipe token (the choice never changes the outcome)
Spellings == {"compact", "spaced", "trim", "call", "with", "if", "var", "comment", "paren"}
HasOpaque(ts) == \E j \in 1..Len(ts) : ts[j].k = "opaque"
IsPlain(ts)   == \A j \in 1..Len(ts) : ts[j].k \in {"lit", "var"}

-----------------------------------------------------------------------------
(* Contract: the outcome as a function of the case *)

InitVals(c) == [p \in Params |-> Norm(c.vals[p])]
SRaw(c)     == c.vals["structname"]            \* bound once, never re-rendered (config.go:692)

RECURSIVE Iterate(_, _, _, _)
\* number of changing passes until stable, looking at most `fuel` passes ahead; -1 = no fixpoint seen
Iterate(vs, data, sraw, fuel) ==
  LET nx == RenderAll(vs, data, sraw) IN
  IF AnyBad(vs) THEN [n |-> -1, vals |-> vs]              \* cannot be parsed: no pass, no fixpoint
  ELSE IF nx = vs THEN [n |-> 0, vals |-> vs]
  ELSE IF fuel = 0 THEN [n |-> -1, vals |-> vs]
  ELSE LET r == Iterate(nx, data, sraw, fuel - 1) IN
       IF r.n = -1 THEN r ELSE [n |-> r.n + 1, vals |-> r.vals]

Fix(c, data) == Iterate(InitVals(c), data, SRaw(c), Horizon)

\* kind: "ok"           must succeed with exactly these values
\*       "ok_or_error"  slow but convergent: either the fixpoint or an error, nothing else
\*       "error"        no fixpoint: must fail (never a truncated / intermediate value)
\*       "unspecified"  depends on something the documentation does not define: must terminate, nothing more
Expect(c) ==
  LET f == Fix(c, c.data) IN
  IF f.n = -1 THEN [kind |-> "error", n |-> -1, vals |-> [p \in Params |-> ""]]
  ELSE IF \E p \in Params : HasOpaque(f.vals[p])
       THEN [kind |-> "unspecified", n |-> f.n, vals |-> [p \in Params |-> Text(f.vals[p])]]
  ELSE [kind |-> IF f.n <= MustOk THEN "ok" ELSE "ok_or_error", n |-> f.n,
        vals |-> [p \in Params |-> Text(f.vals[p])]]

\* the same evaluation under the bindings as the code computes them: a *prediction* of what the
\* real binary will show where the code is known to deviate (D14); never a verdict by itself
Predict(c) ==
  LET f == Fix(c, c.impl) IN
  IF f.n = -1 \/ f.n >= Cap THEN [kind |-> "error", n |-> f.n, vals |-> [p \in Params |-> ""]]
  ELSE [kind |-> "ok", n |-> f.n, vals |-> [p \in Params |-> Text(f.vals[p])]]

-----------------------------------------------------------------------------
(* Code-shaped layer: config.go:708-742 *)

VARIABLES case,      \* the case being resolved
          vals,      \* current text of the five parameters (token form)
          i,         \* loop counter
          changed,   \* changesMade
          pending,   \* parameters not yet rendered in this pass (range over a Go map)
          pc         \* "top" | "render" | "done" | "err"

vars == <<case, vals, i, changed, pending, pc>>

\* the MC module supplies the cases: Init == \E ... : InitWith(MkCase(...))
InitWith(c) == /\ case = c
               /\ vals = InitVals(c)
               /\ i = 0
               /\ changed = TRUE
               /\ pending = {}
               /\ pc = "top"

\* for i := 0; changesMade; i++ { if i >= 20 { return ErrInfiniteLoop } ; changesMade = false ; ...
Top == /\ pc = "top"
       /\ IF ~changed THEN pc' = "done" /\ UNCHANGED <<changed, pending>>
          ELSE IF i >= Cap THEN pc' = "err" /\ UNCHANGED <<changed, pending>>
          ELSE pc' = "render" /\ changed' = FALSE /\ pending' = Params
       /\ UNCHANGED <<case, vals, i>>

EndPass == pc' = "top" /\ i' = i + 1

\* one parameter, any order
RenderOne(p) ==
  /\ pc = "render" /\ Interleave /\ p \in pending /\ ~AnyBad(vals)
  /\ LET nv == Render(vals[p], case.impl, SRaw(case)) IN
       /\ vals' = [vals EXCEPT ![p] = nv]
       /\ changed' = (changed \/ nv # vals[p])
  /\ pending' = pending \ {p}
  /\ IF pending' = {} THEN EndPass ELSE UNCHANGED <<pc, i>>
  /\ UNCHANGED case

\* the whole pass at once (the parameters do not influence each other within a pass)
RenderPass ==
  /\ pc = "render" /\ ~Interleave /\ ~AnyBad(vals)
  /\ vals' = RenderAll(vals, case.impl, SRaw(case))
  /\ changed' = (vals' # vals)
  /\ pending' = {}
  /\ EndPass
  /\ UNCHANGED case

\* config.go:728-731  template.Parse fails: the call returns that error (no ResolveLoop, no value)
ParseError ==
  /\ pc = "render" /\ AnyBad(vals)
  /\ pc' = "err"
  /\ UNCHANGED <<case, vals, i, changed, pending>>

Next == Top \/ RenderPass \/ ParseError \/ \E p \in Params : RenderOne(p)


-----------------------------------------------------------------------------
(* Properties of the code-shaped layer, judged by the contract *)

TypeOK == /\ pc \in {"top", "render", "done", "err"}
          /\ i \in 0..(Cap + 1)
          /\ pending \subseteq Params

\* bounded: never more than Cap rendering passes
Terminates    == i <= Cap
\* liveness (TemplateResolveMC!SpecTiny, weak fairness on Next): every resolution ends
EventuallyEnds == <>(pc \in {"done", "err"})

\* a successful resolution returns a fixpoint of rendering
StableIsFixpoint == pc = "done" => RenderAll(vals, case.impl, SRaw(case)) = vals

\* the documented bindings are the ones in effect wherever the case does not touch a known deviation
BindingsInEffect(c) == \A v \in c.uses : c.impl[v] = c.data[v]

\* success only with the contract's fixpoint; a value without fixpoint is an error, never returned
UnstableIsError ==
  /\ pc = "done" /\ BindingsInEffect(case) =>
        LET e == Expect(case) IN
        /\ e.kind # "error"
        /\ e.kind # "unspecified" => \A p \in Params : Text(vals[p]) = e.vals[p]
  /\ pc = "err" /\ BindingsInEffect(case) => Expect(case).kind \in {"error", "ok_or_error", "unspecified"}

\* (with Interleave = TRUE the two properties above and the one below are checked for every order in which
\* the five parameters can be rendered within a pass: the Go map order does not matter)

\* the code-shaped model agrees with its own closed form (used for the trace spec and for predictions)
PredictionConsistent ==
  /\ pc = "done" => Predict(case).kind = "ok" /\ \A p \in Params : Text(vals[p]) = Predict(case).vals[p]
  /\ pc = "err"  => Predict(case).kind = "error"

-----------------------------------------------------------------------------
(* Export: one CASE per terminal state, with the contract's expectation and the code-shaped prediction *)
Emit ==
  IF pc \in {"done", "err"}
  THEN PrintT(<<"CASE", ToJson([id |-> case.id, vals |-> case.vals, uses |-> case.uses, meta |-> case.meta,
                                 data |-> case.data, impl |-> case.impl,
                                 expect |-> Expect(case), predict |-> Predict(case),
                                 model |-> [outcome |-> pc, iters |-> i]])>>)
  ELSE TRUE
=============================================================================
