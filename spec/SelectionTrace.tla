--------------------------- MODULE SelectionTrace ---------------------------
(* Trace validation for C07 (selection half): the Select / Collect hook events of a real run, projected
   per configured package, must be a behaviour of the CONTRACT of Selection.tla.
   Events (one package = one case):
     reset   {R, P, L}           the case's configuration (as written into .mockery.yml)
     select  {iface, gen}        internal/cmd/mockery.go:267  decision for one discovered interface
     collect {iface, entry}      internal/cmd/mockery.go:168  one mock appended to an output file
     end     {exit}              the process' exit status
   Nothing here says in which order interfaces are visited or how the decision is computed. *)
EXTENDS SelectionMC

Trace == ndJsonDeserialize("trace.ndjson")
VARIABLE l
tvars == <<R, P, L, pcs, cands, i, mocks, sel, l>>

Ev == Trace[l]
IsEvent(e) == l <= Len(Trace) /\ Trace[l].op = e /\ l' = l + 1

TraceInit == /\ R = [all |-> Unset, inc |-> Unset, exc |-> Unset] /\ P = R /\ L = << >>
             /\ pcs = "done" /\ cands = << >> /\ i = 1 /\ mocks = << >> /\ sel = << >> /\ l = 1

Decided(n) == \E j \in 1..Len(sel) : sel[j].iface = n
DecidedGen(n) == \E j \in 1..Len(sel) : sel[j].iface = n /\ sel[j].gen
Collected(n) == Cardinality({j \in 1..Len(mocks) : mocks[j].iface = n})

TReset == /\ IsEvent("reset") /\ pcs = "done"
          /\ R' = Ev.R /\ P' = Ev.P /\ L' = Ev.L
          /\ sel' = << >> /\ mocks' = << >> /\ pcs' = "select" /\ UNCHANGED <<cands, i>>

TSelect == /\ IsEvent("select") /\ pcs = "select"
           /\ Ev.iface \in AllNames                       \* an unknown name (a mock of a mock, ...) matches nothing
           /\ ~Decided(Ev.iface)                          \* one decision per interface
           /\ IF ClassOf[Ev.iface] = "no" THEN Ev.gen = FALSE ELSE Ev.gen = Selected(Ev.iface)
           /\ sel' = Append(sel, [iface |-> Ev.iface, gen |-> Ev.gen])
           /\ UNCHANGED <<R, P, L, pcs, cands, i, mocks>>

TCollect == /\ IsEvent("collect") /\ pcs = "select"
            /\ Ev.iface \in AllNames
            /\ DecidedGen(Ev.iface)
            /\ \E k \in 1..Len(EntriesOf(Ev.iface)) : EntriesOf(Ev.iface)[k] = Ev.entry
            /\ ~\E j \in 1..Len(mocks) : mocks[j] = [iface |-> Ev.iface, entry |-> Ev.entry]   \* one mock per entry
            /\ mocks' = Append(mocks, [iface |-> Ev.iface, entry |-> Ev.entry])
            /\ UNCHANGED <<R, P, L, pcs, cands, i, sel>>

Complete ==
  /\ \A n \in SeqToSet(PkgNameSeq) :
       /\ ClassOf[n] = "yes" /\ Selected(n) => DecidedGen(n) /\ Collected(n) = MocksPerInterface(n)
       /\ ClassOf[n] = "free" => Collected(n) \in {0, FreeAllowance[n]}

TEnd == /\ IsEvent("end") /\ pcs = "select"
        /\ Ev.exit = 0 => Complete
        /\ ContractExit = "zero" /\ Ev.alone => Ev.exit = 0
        /\ pcs' = "done"
        /\ UNCHANGED <<R, P, L, cands, i, mocks, sel>>

TraceNext == TReset \/ TSelect \/ TCollect \/ TEnd
TraceSpec == TraceInit /\ [][TraceNext]_tvars

Consumed == TLCGet("stats").diameter - 1
TraceAccepted == PrintT(<<"CONSUMED", Consumed, Len(Trace)>>) /\ Consumed = Len(Trace)
=============================================================================
