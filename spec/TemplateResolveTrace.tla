------------------------ MODULE TemplateResolveTrace ------------------------
(***************************************************************************)
(* Trace validation for C11: the ResolveIter / ResolveLoop / Resolved hook *)
(* events of real ParseTemplates calls (config.go:708-744), one `begin`    *)
(* event per call carrying the case (token form of the five parameters and *)
(* the bindings), many calls concatenated.                                 *)
(*                                                                         *)
(* Level = "impl":     the events must be a behaviour of the code-shaped   *)
(*   loop of TemplateResolve.tla: pass numbers 0,1,2,..., a further pass   *)
(*   only after a pass that changed something, ResolveLoop exactly at the  *)
(*   cap, and the logged final values equal to the model's.  A rejection   *)
(*   is drift (the code no longer looks like the model), not a verdict.    *)
(* Level = "contract": only what the property says: pass numbers count up, *)
(*   their number is bounded, a value is returned only if it is the        *)
(*   contract's fixpoint (begin.exp, computed by TemplateResolve!Expect    *)
(*   and projected by the harness exactly like the logged values), and an  *)
(*   error only where the contract allows one.                             *)
(***************************************************************************)
EXTENDS TemplateResolve

CONSTANTS Level,        \* "impl" | "contract"
          IterBound     \* contract level: more passes than this is "does not terminate"

Trace == ndJsonDeserialize("trace.ndjson")
VARIABLE l
tvars == <<case, vals, i, changed, pending, pc, l>>

Ev == Trace[l]
IsEvent(e) == l <= Len(Trace) /\ Trace[l].ev = e /\ l' = l + 1

NoCase == [id |-> "-"]

TraceInit == /\ l = 1 /\ case = NoCase /\ vals = << >> /\ i = 0 /\ changed = TRUE /\ pending = {} /\ pc = "idle"

Begin ==
  /\ IsEvent("begin")
  /\ pc \in {"idle", "done", "errdone"}
  /\ case' = Ev.c
  /\ vals' = InitVals(Ev.c)
  /\ i' = 0 /\ changed' = TRUE /\ pending' = {} /\ pc' = "top"

\* ---- code-shaped
IterImpl ==
  /\ IsEvent("ResolveIter")
  /\ pc = "top" /\ changed /\ Ev.i = i
  /\ IF i >= Cap
     THEN pc' = "err" /\ UNCHANGED <<vals, i, changed>>
     ELSE /\ vals' = RenderAll(vals, case.impl, SRaw(case))
          /\ changed' = (vals' # vals)
          /\ i' = i + 1
          /\ pc' = "top"
  /\ UNCHANGED <<case, pending>>

ResolvedImpl ==
  /\ IsEvent("Resolved")
  /\ pc = "top" /\ ~changed
  /\ \A p \in Params : Text(vals[p]) = Ev.vals[p]
  /\ pc' = "done"
  /\ UNCHANGED <<case, vals, i, changed, pending>>

LoopImpl ==
  /\ IsEvent("ResolveLoop")
  /\ pc = "err"
  /\ pc' = "errdone"
  /\ UNCHANGED <<case, vals, i, changed, pending>>

\* ---- contract
IterContract ==
  /\ IsEvent("ResolveIter")
  /\ pc = "top" /\ Ev.i = i /\ i <= IterBound
  /\ i' = i + 1
  /\ UNCHANGED <<case, vals, changed, pending, pc>>

ResolvedContract ==
  /\ IsEvent("Resolved")
  /\ pc = "top" /\ i > 0
  /\ case.exp.kind # "error"                                    \* UnstableIsError
  /\ case.exp.kind \in {"ok", "ok_or_error"} => \A p \in Params : Ev.proj[p] = case.exp.vals[p]
  /\ pc' = "done"
  /\ UNCHANGED <<case, vals, i, changed, pending>>

LoopContract ==
  /\ IsEvent("ResolveLoop")
  /\ pc = "top"
  /\ case.exp.kind \in {"error", "ok_or_error", "unspecified"}  \* a value that must resolve may not fail
  /\ pc' = "errdone"
  /\ UNCHANGED <<case, vals, i, changed, pending>>

\* the call ended without returning values (failed to parse / execute a value): an error outcome
Abort ==
  /\ IsEvent("abort")
  /\ pc = "top"
  /\ Level = "contract" => case.exp.kind \in {"error", "ok_or_error", "unspecified"}
  /\ pc' = "errdone"
  /\ UNCHANGED <<case, vals, i, changed, pending>>

TraceNext ==
  \/ Begin
  \/ Abort
  \/ Level = "impl" /\ (IterImpl \/ ResolvedImpl \/ LoopImpl)
  \/ Level = "contract" /\ (IterContract \/ ResolvedContract \/ LoopContract)

TraceSpec == TraceInit /\ [][TraceNext]_tvars

Consumed == TLCGet("stats").diameter - 1
TraceAccepted == PrintT(<<"CONSUMED", Consumed, Len(Trace)>>) /\ Consumed = Len(Trace)
=============================================================================
