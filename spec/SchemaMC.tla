------------------------------ MODULE SchemaMC ------------------------------
(* Model constants and case families for Schema.tla (C12). *)
EXTENDS Schema

Strs == {"str", "strT", "str1", "strOff"}
Types4 == ("ks" :> Strs) @@ ("kb" :> {"bool"}) @@ ("ki" :> {"int"}) @@ ("ko" :> {"obj", "objM", "objNM"})
\* RX / RY: enum on ks, a nested object schema on ko (n integer, m string, nothing else; RX: at most one of them,
\* RY: both required), a list of strings ka
TypesX == ("ks" :> {"str", "strT", "str1"}) @@ ("kb" :> {"bool"}) @@ ("ki" :> {"int"}) @@ ("ko" :> {"obj", "objM"}) @@
          ("ka" :> {"arr"})
TypesY == [TypesX EXCEPT !["ko"] = {"objNM"}]

\* custom schemas the harness writes next to the custom template (or serves over http); the JSON text of each is in
\* checks/c12.py, which also re-derives every accept set below with its own little validator (exit 2 on disagreement)
Sh(r, o, t) == [req |-> r, open |-> o, types |-> t, none |-> FALSE]
MCShapes ==
  ("RC" :> Sh({"ks"}, FALSE, Types4)) @@     \* required key, additionalProperties false
  ("RO" :> Sh({"ks"}, TRUE,  Types4)) @@     \* required key, open
  ("CL" :> Sh({},     FALSE, Types4)) @@     \* nothing required, closed
  ("OP" :> Sh({},     TRUE,  Types4)) @@     \* nothing required, open, typed
  ("RX" :> Sh({"ks"}, FALSE, TypesX)) @@     \* enum, nested object (violated by the MERGE of two conforming maps), array
  ("RY" :> Sh({"ks"}, FALSE, TypesY)) @@     \* the same, nested object satisfied only by the merge of two maps
  ("REF" :> Sh({"ks"}, FALSE, Types4)) @@    \* RC spelled with $ref / definitions
  ("RDR" :> Sh({"ks"}, FALSE, Types4)) @@    \* RC behind an HTTP redirect (plain RC for file:// templates)
  ("T" :> Sh({}, TRUE, << >>)) @@            \* the schema `true`
  ("F" :> [req |-> {}, open |-> TRUE, types |-> << >>, none |-> TRUE])    \* the schema `false`

\* the two built-in schemas in the abstract key alphabet: ks = mock-build-tags (string, both), kb = unroll-variadic
\* (boolean, testify only), km = skip-ensure (boolean, matryer only); every other key of the alphabet is unknown to them; additionalProperties false,
\* nothing required.  The harness compares this with internal/mock_*.templ.schema.json of the tree under test.
MCBuiltin ==
  ("testify" :> Sh({}, FALSE, ("ks" :> Strs) @@ ("kb" :> {"bool"}))) @@
  ("matryer" :> Sh({}, FALSE, ("ks" :> Strs) @@ ("km" :> {"bool"})))

-----------------------------------------------------------------------------
(* placements: <<level, key, kind of value>> *)
LevelSeq == <<"root", "pkg", "iA1", "iA2", "e1", "e2">>
LevCode(l) == CASE l = "root" -> "r" [] l = "pkg" -> "p" [] l = "iA1" -> "a" [] l = "iA2" -> "b" [] l = "e1" -> "1" [] l = "e2" -> "2"
KV5 == <<<<"ks", "str">>, <<"ks", "bool">>, <<"kb", "bool">>, <<"kb", "str">>, <<"zz", "str">>>>
KV4 == <<<<"ki", "int">>, <<"ki", "str">>, <<"ko", "obj">>, <<"ko", "str">>>>
KVCode(kv) == CASE kv = <<"ks", "str">> -> "S" [] kv = <<"ks", "bool">> -> "Sx" [] kv = <<"kb", "bool">> -> "B"
                [] kv = <<"kb", "str">> -> "Bx" [] kv = <<"zz", "str">> -> "Z" [] kv = <<"ki", "int">> -> "I"
                [] kv = <<"ki", "str">> -> "Ix" [] kv = <<"ko", "obj">> -> "O" [] kv = <<"ko", "str">> -> "Ox"

P5 == {<<LevelSeq[i], KV5[j][1], KV5[j][2]>> : i \in 1..6, j \in 1..5}
P4 == {<<LevelSeq[i], KV4[j][1], KV4[j][2]>> : i \in 1..6, j \in 1..4}
PNoKs == {p \in P5 : p[2] # "ks"}
KsRoot == <<"root", "ks", "str">>

Consistent(X) == \A p, q \in X : p[1] = q[1] /\ p[2] = q[2] => p = q

DataOf(X) == [l \in Levels |-> [k \in {p[2] : p \in {q \in X : q[1] = l}} |->
                                   (CHOOSE p \in X : p[1] = l /\ p[2] = k)[3]]]

PCode(p) == LevCode(p[1]) \o KVCode(<<p[2], p[3]>>)
AllPl == [i \in 1..54 |-> IF i <= 30 THEN <<LevelSeq[((i - 1) \div 5) + 1], KV5[((i - 1) % 5) + 1][1], KV5[((i - 1) % 5) + 1][2]>>
                          ELSE <<LevelSeq[((i - 31) \div 4) + 1], KV4[((i - 31) % 4) + 1][1], KV4[((i - 31) % 4) + 1][2]>>]
RECURSIVE IdFrom(_, _)
IdFrom(X, i) == IF i > 54 THEN "" ELSE (IF AllPl[i] \in X THEN PCode(AllPl[i]) \o "." ELSE "") \o IdFrom(X, i + 1)
IdOf(X) == IF X = {} THEN "none" ELSE IdFrom(X, 1)

\* the placement sets explored: nothing, every single key, every pair, and a conforming base with two more
Small    == {{}} \cup {{p} : p \in P5 \cup P4} \cup {X \in {{p, q} : p, q \in P5} : Consistent(X)}
WithBase == {X \in {{KsRoot, p, q} : p, q \in PNoKs} : Consistent(X)}
Placings == Small \cup WithBase

AllStates  == {"RC", "RO", "CL", "OP", "absent", "garbage", "notschema"}
Reqs       == {"unset", "true", "false"}

Unset == [l \in Levels |-> "unset"]
Only(l, v) == [Unset EXCEPT ![l] = v]

Loc(d, a1, a2) == [default |-> d, alt1 |-> a1, alt2 |-> a2, pA1 |-> "absent", pA2 |-> "absent"]

Case(fam, tmpl, loc, tsch, req, X, pre, extra) ==
  [id |-> fam \o "/" \o tmpl \o "/" \o extra \o "/" \o IdOf(X), fam |-> fam, tmpl |-> tmpl, loc |-> loc,
   tsch |-> tsch, req |-> req, data |-> DataOf(X), pre |-> pre, tpl |-> Unset]

ReqCode(r) == CASE r = "unset" -> "u" [] r = "true" -> "t" [] r = "false" -> "f"

-----------------------------------------------------------------------------
(* Families *)

\* A: where the violating key sits -- every placement set x built-in and custom templates, schema at its default
\*    location, require-template-schema-exists left alone
FamA(tmpls, placings) ==
  \E t \in tmpls, X \in placings :
    InitWith(Case("A", t, Loc("RC", "absent", "absent"), Unset, Unset, X, {}, "-"))

\* B: schema availability x require-template-schema-exists at different levels x where the schema is looked up
DataB == {{KsRoot}, {KsRoot, <<"root", "zz", "str">>}, {}, {KsRoot, <<"e2", "kb", "str">>}, {KsRoot, <<"iA1", "zz", "str">>}}
FamB(tmpls, dstates, a1states, rootreqs, pkgreqs, a1reqs, datas) ==
  \E t \in tmpls, ds \in dstates, useAlt \in BOOLEAN, as \in a1states,
     rr \in rootreqs, rp \in pkgreqs, ra \in a1reqs, X \in datas :
    /\ (~useAlt => as = "absent")
    /\ InitWith(Case("B", t, Loc(ds, as, "absent"),
                     IF useAlt THEN Only("root", "alt1") ELSE Unset,
                     [Unset EXCEPT !["root"] = rr, !["pkg"] = rp, !["iA1"] = ra], X, {},
                     ds \o (IF useAlt THEN "+" \o as ELSE "") \o "." \o ReqCode(rr) \o ReqCode(rp) \o ReqCode(ra)))

\* C: two output files, one template, different template-schema (the remote template cache)
DataC == {{KsRoot}, {}, {<<"root", "zz", "str">>}, {KsRoot, <<"iA1", "zz", "str">>}, {KsRoot, <<"e2", "zz", "str">>},
          {<<"iA2", "ks", "str">>}, {<<"pkg", "ks", "str">>, <<"iA2", "zz", "str">>}}
FamC(tmpls, datas) ==
  \E t \in tmpls, t1 \in {"unset", "alt1"}, t2 \in {"unset", "alt1", "alt2"}, ds \in {"RC", "absent"},
     s1 \in {"OP", "CL"}, s2 \in {"RC", "OP"}, r2 \in {"unset", "false"}, X \in datas :
    InitWith(Case("C", t, Loc(ds, s1, s2), [Unset EXCEPT !["iA1"] = t1, !["iA2"] = t2],
                  Only("iA2", r2), X, {},
                  t1 \o "," \o t2 \o "." \o ds \o s1 \o s2 \o "." \o ReqCode(r2)))

\* D: the per-file parameters written at the `configs:` entries themselves (both entries alike: which entry decides
\*    for a file is not documented), with and without a contradicting value one level up
FamD(tmpls, datas) ==
  \E t \in tmpls, rq \in Reqs, ri \in Reqs, ts \in {"unset", "alt1"}, ds \in {"RC", "absent", "garbage"}, X \in datas :
    InitWith(Case("D", t, Loc(ds, "CL", "absent"), [Unset EXCEPT !["e1"] = ts, !["e2"] = ts],
                  [Unset EXCEPT !["iA2"] = ri, !["e1"] = rq, !["e2"] = rq], X, {},
                  ts \o "." \o ds \o "." \o ReqCode(ri) \o ReqCode(rq)))

\* R: require-template-schema-exists at every level x the BUILT-IN templates.  The flag is about schemas that have to
\*    be fetched; a built-in template always has its schema, so its data is validated whatever the flag says
\*    ("validated against ... the built-in schema for built-in templates", no qualification): Schema!FileVerdict does
\*    not look at Require for built-ins.
DataR == {{KsRoot}, {<<"root", "zz", "str">>}, {<<"pkg", "kb", "str">>}, {KsRoot, <<"iA1", "zz", "str">>},
          {<<"iA2", "ks", "bool">>}, {<<"e2", "zz", "str">>}, {<<"e1", "kb", "strT">>, <<"root", "kb", "bool">>}}
FamR(tmpls, rootreqs, pkgreqs, a1reqs, a2reqs) ==
  \E t \in tmpls, rr \in rootreqs, rp \in pkgreqs, ra \in a1reqs, rb \in a2reqs, X \in DataR :
    InitWith([Case("R", t, Loc("absent", "absent", "absent"), Unset,
                   [Unset EXCEPT !["root"] = rr, !["pkg"] = rp, !["iA1"] = ra, !["iA2"] = rb], {}, {},
                   ReqCode(rr) \o ReqCode(rp) \o ReqCode(ra) \o ReqCode(rb) \o "." \o IdOf(X \ {<<"e1", "kb", "strT">>})
                   \o (IF <<"e1", "kb", "strT">> \in X THEN "T" ELSE ""))
              EXCEPT !.data = DataOf(X)])

\* L: look-alikes -- for a typed key, a conforming value at one level and, at ANOTHER level, a value that differs
\*    from it in JSON type only (true vs "true", 1 vs "1"), optionally with a second conforming value at a third
\*    level (a sibling entry / interface of the same file, or a level above).  Closed schema, nothing required, so
\*    the type is the only thing that can be wrong.
\*    pair = <<key, conforming kind, violating look-alike kind>>
\*    ... and the JSON null in place of the look-alike: `key: null` / `key:` / `key: ~`
BoolKey(t)   == IF t = "matryer" THEN "km" ELSE "kb"
LookPairs(t) == {<<BoolKey(t), "bool", "strT">>, <<"ks", "strT", "bool">>, <<"ks", "str1", "int">>,
                 <<BoolKey(t), "bool", "null">>, <<"ks", "str", "null">>}
                \cup (IF t \in {"testify", "matryer"} THEN {}
                      ELSE {<<"ki", "int", "str1">>, <<"ki", "int", "null">>, <<"ko", "obj", "null">>})
PairCode(pr) == pr[1] \o "-" \o pr[2] \o "-" \o pr[3]
FamL(tmpls) ==
  \E t \in tmpls : \E pr \in LookPairs(t), lc \in Levels, lv \in Levels, l3 \in Levels \cup {"-"} :
    /\ lc # lv /\ l3 \notin {lc, lv}
    /\ InitWith([Case("L", t, Loc("CL", "absent", "absent"), Unset, Unset, {}, {},
                      PairCode(pr) \o "." \o LevCode(lc) \o LevCode(lv) \o (IF l3 = "-" THEN "-" ELSE LevCode(l3)))
                 EXCEPT !.data = DataOf({<<lc, pr[1], pr[2]>>, <<lv, pr[1], pr[3]>>}
                                        \cup (IF l3 = "-" THEN {} ELSE {<<l3, pr[1], pr[2]>>}))])

\* X: schema features beyond type -- enum, nested object (values that are merged across levels: the violation, or the
\*    conformity, may exist in the MERGED map only), arrays -- under the rich schema RX
KoKinds == {"obj", "objM"}
FamX(tmpls) ==
  \E t \in tmpls :
    \/ \E ds \in {"RX", "RY"}, l1 \in Levels, l2 \in Levels, k1 \in KoKinds, k2 \in KoKinds \cup {"-"} :
          /\ l1 # l2
          /\ InitWith([Case("X", t, Loc(ds, "absent", "absent"), Unset, Unset, {}, {},
                            ds \o "-ko." \o LevCode(l1) \o k1 \o "." \o LevCode(l2) \o k2)
                       EXCEPT !.data = DataOf({KsRoot, <<l1, "ko", k1>>} \cup (IF k2 = "-" THEN {} ELSE {<<l2, "ko", k2>>}))])
    \/ \E lv \in Levels, kv \in {<<"ka", "arr">>, <<"ka", "arrBad">>, <<"ks", "strOff">>, <<"ko", "objNM">>} :
          InitWith([Case("X", t, Loc("RX", "absent", "absent"), Unset, Unset, {}, {}, kv[1] \o "." \o kv[2] \o "." \o LevCode(lv))
                    EXCEPT !.data = DataOf(IF kv[1] = "ks" /\ lv = "root" THEN {<<lv, kv[1], kv[2]>>} ELSE {KsRoot, <<lv, kv[1], kv[2]>>})])

\* S: what can lie at the schema location besides an ordinary schema: nothing at all (empty file), `true`, `false`,
\*    a schema spelled with $ref, one behind a redirect
FamS(tmpls) ==
  \E t \in tmpls, ds \in {"empty", "T", "F", "REF", "RDR"}, rr \in {"unset", "false"},
     X \in {{KsRoot}, {}, {KsRoot, <<"e2", "zz", "str">>}, {<<"iA1", "ks", "bool">>}} :
    InitWith(Case("S", t, Loc(ds, "absent", "absent"), Unset, Only("root", rr), X, {}, ds \o "." \o ReqCode(rr)))

\* P: a template-schema that is itself templated per interface ({{.InterfaceName}}): each output file has its own
\*    schema location, resolved for the interface whose mocks it holds
FamP(tmpls) ==
  \E t \in tmpls, s1 \in {"RC", "CL", "absent"}, s2 \in {"RC", "OP", "absent"}, lv \in {"root", "pkg"}, X \in DataC :
    InitWith([Case("P", t, Loc("absent", "absent", "absent"), Only(lv, "perif"), Unset, X, {}, s1 \o s2 \o "." \o LevCode(lv))
              EXCEPT !.loc = [Loc("absent", "absent", "absent") EXCEPT !.pA1 = s1, !.pA2 = s2]])

\* N: a null on its own -- for a typed key, a required key, an unknown key -- at every level, under a closed, an open
\*    and a required-key schema (an unknown key with a null value is fine under an open schema only)
FamN(tmpls) ==
  \E t \in tmpls, k \in {"ks", "kb", "km", "zz", "ki"}, lv \in Levels, ds \in {"CL", "OP", "RC"} :
    /\ (t \in {"testify", "matryer"} => ds = "CL" /\ k # "ki")
    /\ (k = "km" <=> t = "matryer") /\ (k = "kb" => t # "matryer")
    /\ InitWith([Case("N", t, Loc(ds, "absent", "absent"), Unset, Unset, {}, {}, ds \o "." \o k \o "." \o LevCode(lv))
                 EXCEPT !.data = DataOf({<<lv, k, "null">>} \cup (IF ds = "RC" /\ k # "ks" THEN {KsRoot} ELSE {}))])

\* M: runs that MIX template kinds -- root template rt, interface A1 / A2 override it (or not) -- optionally with an
\*    explicit template-schema and require-template-schema-exists at root, which the built-in files inherit and must
\*    ignore; data conforming to one built-in schema only (kb: testify, km: matryer)
DataM == <<{}, {KsRoot}, {<<"iA1", "kb", "bool">>, <<"iA2", "km", "bool">>}, {<<"iA1", "km", "bool">>}, {<<"root", "kb", "bool">>},
           {KsRoot, <<"e2", "zz", "str">>}, {KsRoot, <<"iA1", "kb", "bool">>, <<"iA2", "km", "bool">>}, {<<"iA2", "kb", "bool">>}>>
FamM(roots, custom) ==
  \E rt \in roots, t1 \in {"unset", "testify", "matryer", custom}, t2 \in {"unset", "testify", "matryer", custom},
     ts \in {"unset", "alt1"}, as \in {"RC", "absent"}, rr \in {"unset", "false"}, j \in 1..Len(DataM) :
    /\ ~(t1 = "unset" /\ t2 = "unset")
    /\ InitWith([Case("M", rt, Loc("RC", as, "absent"), Only("root", ts), Only("root", rr), DataM[j], {},
                      t1 \o "," \o t2 \o "." \o ts \o as \o "." \o ReqCode(rr) \o ".d" \o ToString(j))
                 EXCEPT !.tpl = [Unset EXCEPT !["iA1"] = t1, !["iA2"] = t2]])

\* E: an output file exists already (force-file-write: true): a rejected file keeps its old bytes
FamE(tmpls) ==
  \E t \in tmpls, X \in {{KsRoot}, {KsRoot, <<"iA1", "zz", "str">>}, {KsRoot, <<"e2", "kb", "str">>}, {<<"root", "zz", "str">>}, {}},
     pre \in {{"F1"}, {"F2"}, {"F1", "F2"}} :
    InitWith(Case("E", t, Loc("RC", "absent", "absent"), Unset, Unset, X, pre, IF pre = {"F1"} THEN "1" ELSE IF pre = {"F2"} THEN "2" ELSE "12"))


InitQuick ==
  \/ FamA({"testify", "file"}, Placings)
  \/ FamA({"http", "matryer"}, {{}} \cup {{p} : p \in P5 \cup P4})
  \/ FamB({"file"}, AllStates, {"absent", "RC", "OP"}, Reqs, Reqs, {"unset", "false"}, DataB)
  \/ FamB({"http"}, {"RC", "absent", "garbage"}, {"absent", "CL"}, Reqs, {"unset"}, Reqs, DataB)
  \/ FamC({"file", "http"}, DataC)
  \/ FamD({"file"}, DataB)
  \/ FamL({"testify", "matryer", "file"})
  \/ FamN({"testify", "matryer", "file"})
  \/ FamM({"file", "testify"}, "file")
  \/ FamX({"file"})
  \/ FamS({"file", "http"})
  \/ FamP({"file"})
  \/ FamR({"testify"}, Reqs, Reqs, Reqs, Reqs)
  \/ FamR({"matryer"}, Reqs, {"unset"}, {"unset", "false"}, {"unset", "false"})
  \/ FamE({"testify", "file"})

InitThorough ==
  \/ FamA({"testify", "file", "http", "matryer"}, Placings)
  \/ FamB({"file", "http"}, AllStates, {"absent", "RC", "OP", "CL", "garbage"}, Reqs, Reqs, Reqs, DataB)
  \/ FamC({"file", "http"}, DataC)
  \/ FamD({"file", "http"}, DataB)
  \/ FamL({"testify", "matryer", "file", "http"})
  \/ FamN({"testify", "matryer", "file", "http"})
  \/ FamM({"file", "testify", "matryer"}, "file")
  \/ FamM({"http"}, "http")
  \/ FamX({"file", "http"})
  \/ FamS({"file", "http"})
  \/ FamP({"file", "http"})
  \/ FamR({"testify", "matryer"}, Reqs, Reqs, Reqs, Reqs)
  \/ FamE({"testify", "matryer", "file", "http"})

\* the schema tables, for the harness (which writes the custom schemas and compares the built-in ones with the tree)
ASSUME PrintT(<<"SCHEMAS", ToJson([shapes |-> MCShapes, builtin |-> MCBuiltin])>>)

\* witness: the repaired defect D6 (cache keyed by the template URL only) -- the model must see it
InitWitness == FamC({"file"}, DataC)
=============================================================================
