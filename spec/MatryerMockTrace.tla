-------------------------- MODULE MatryerMockTrace --------------------------
(* Trace validation for C04: the op log recorded by drivers/matryerdrv while it replays histories on
   freshly generated real mocks (reply or recovered panic, what every MFunc invocation saw, MCalls() of
   every method and nil-ness of every MFunc after every operation) must satisfy the contract
   (MatryerMockContract!StepOK) step by step.  Many replays are concatenated; each starts with "reset". *)
EXTENDS MatryerMockContract, TLC, Json

Trace == ndJsonDeserialize("trace.ndjson")
VARIABLES tsig, topt, ttypes, tfunc, tlog, tby, tsnaps, txlog, l
tvars == <<tsig, topt, ttypes, tfunc, tlog, tby, tsnaps, txlog, l>>

Ev == Trace[l]

TraceInit == /\ tsig = [m \in Methods |-> [ar |-> 0, var |-> FALSE, nres |-> 0]]
             /\ topt = [stub |-> FALSE, resets |-> FALSE]
             /\ ttypes = "ints"
             /\ tfunc = [m \in Methods |-> Nil]
             /\ tlog = [m \in Methods |-> << >>]
             /\ tby = [m \in Methods |-> << >>]
             /\ tsnaps = << >>
             /\ txlog = << >>
             /\ l = 1

Reset == /\ l <= Len(Trace) /\ Ev.op = "reset"
         /\ tsig' = Ev.sig /\ topt' = Ev.opt /\ tfunc' = Ev.init /\ ttypes' = Ev.types
         /\ tlog' = [m \in Methods |-> << >>]
         /\ tby' = Ev.by                    \* what the bystander instance holds before the history starts
         /\ tsnaps' = << >>
         /\ txlog' = Ev.xlog                 \* what the third method recorded before the history starts
         /\ l' = l + 1

Step == /\ l <= Len(Trace) /\ Ev.op # "reset"
        /\ StepOK(tsig, topt, ttypes, tfunc, tlog, tby, tsnaps, txlog, Ev)
        /\ tfunc' = FuncsAfter(tfunc, Ev)
        /\ tlog' = Ev.logs
        /\ txlog' = Ev.xlog
        /\ tsnaps' = SnapsAfter(tsnaps, tlog, Ev)      \* same retention rule as the driver, on the OBSERVED logs
        /\ l' = l + 1
        /\ UNCHANGED <<tsig, topt, ttypes, tby>>

\* Anything the contract does not allow: the replay is REJECTED at this event (reported), and validation
\* resumes at the next replay so that one TLC run judges every recorded replay.
NextReset(i) == IF \E j \in (i + 1)..Len(Trace) : Trace[j].op = "reset"
                THEN CHOOSE j \in (i + 1)..Len(Trace) : Trace[j].op = "reset" /\ \A k \in (i + 1)..(j - 1) : Trace[k].op # "reset"
                ELSE Len(Trace) + 1
Reject == /\ l <= Len(Trace) /\ Ev.op # "reset"
          /\ ~StepOK(tsig, topt, ttypes, tfunc, tlog, tby, tsnaps, txlog, Ev)
          /\ PrintT(<<"REJECT", Ev.case, l, FailedClause(tsig, topt, ttypes, tfunc, tlog, tby, tsnaps, txlog, Ev)>>)
          /\ TLCSet(2, TLCGet(2) + 1)
          /\ l' = NextReset(l)
          /\ UNCHANGED <<tsig, topt, ttypes, tfunc, tlog, tby, tsnaps, txlog>>

TraceNext == (Reset \/ Step \/ Reject) /\ TLCSet(1, l')
TraceSpec == TraceInit /\ TLCSet(1, 1) /\ TLCSet(2, 0) /\ [][TraceNext]_tvars

Consumed == TLCGet(1) - 1
Rejected == TLCGet(2)
TraceAccepted == PrintT(<<"CONSUMED", Consumed, Len(Trace)>>) /\ Consumed = Len(Trace) /\ Rejected = 0
=============================================================================
