--------------------------- MODULE HeaderContract ---------------------------
(***************************************************************************)
(* C17, contract layer (no variables).                                     *)
(*                                                                         *)
(*  - build expressions over the tags, their evaluation (the truth table   *)
(*    is the contract for "the toolchain includes the file exactly when    *)
(*    the expression is satisfied"; the harness cross-checks it against    *)
(*    go/build/constraint, disagreement = machinery error);                *)
(*  - Go's rules on a file header, as predicates over a sequence of line   *)
(*    classes:   ast.IsGenerated  (go/ast/ast.go: a // line comment before *)
(*    the package clause matching ^// Code generated .* DO NOT EDIT\.$) and *)
(*    go/build.parseFileHeader + shouldBuild (a //go:build line outside    *)
(*    any block comment before the first non-comment text; a blank line     *)
(*    after it is style, not semantics; two such lines are an error);      *)
(*  - what the property demands of one generated file (Demands).           *)
(***************************************************************************)
EXTENDS Naturals, Sequences, FiniteSets, TLC, Json

-----------------------------------------------------------------------------
(* build expressions: uniform records so that they compare and serialise *)
Tg(x)     == [op |-> "tag", t |-> x, a |-> << >>]
Not(e)    == [op |-> "not", t |-> "", a |-> <<e>>]
And(e, f) == [op |-> "and", t |-> "", a |-> <<e, f>>]
Or(e, f)  == [op |-> "or", t |-> "", a |-> <<e, f>>]
NoExpr    == [op |-> "none", t |-> "", a |-> << >>]     \* mock-build-tags not set

\* All expressions of nesting depth <= d, except a negation directly under a negation: go/build/constraint
\* rejects "!!x", and Go's own printer (gofmt, hence mockery's gofmt/goimports formatters) rewrites the valid
\* "!(!x)" into exactly that -- an upstream Go quirk, reproduced with plain gofmt, outside the property.
RECURSIVE ExprsUpTo(_, _)
ExprsUpTo(tags, d) ==
  IF d = 0 THEN {Tg(x) : x \in tags}
  ELSE LET S == ExprsUpTo(tags, d - 1)
       IN S \cup {Not(e) : e \in {x \in S : x.op # "not"}} \cup {And(e, f) : e \in S, f \in S} \cup {Or(e, f) : e \in S, f \in S}

\* asg = the set of tags that are set (-tags)
RECURSIVE Eval(_, _)
Eval(e, asg) ==
  CASE e.op = "tag" -> e.t \in asg
    [] e.op = "not" -> ~Eval(e.a[1], asg)
    [] e.op = "and" -> Eval(e.a[1], asg) /\ Eval(e.a[2], asg)
    [] e.op = "or"  -> Eval(e.a[1], asg) \/ Eval(e.a[2], asg)

\* CONTRACT: the file is part of the build under asg
Included(e, asg) == IF e.op = "none" THEN TRUE ELSE Eval(e, asg)

\* assignments over the two tags, by name (JSON keys of the observations)
AsgNames == {"none", "a", "b", "ab"}
AsgSet(n) == CASE n = "none" -> {} [] n = "a" -> {"a"} [] n = "b" -> {"b"} [] n = "ab" -> {"a", "b"}
Table(e) == [n \in AsgNames |-> Included(e, AsgSet(n))]

-----------------------------------------------------------------------------
(* target platforms and build-constrained SOURCE files.
   The toolchain evaluates a build expression over the user tags (-tags) AND the tags the target platform supplies
   (GOOS, GOARCH, "unix").  The interfaces that are mocked may themselves be declared in files that carry a build
   constraint (satisfied where mockery runs, otherwise the loader does not see them).  The property speaks about the
   configured mock-build-tags expression only: the mock file is included exactly when THAT expression is satisfied --
   on every platform, whatever constrains the source file. *)
EnvNames == {"linux_amd64", "darwin_arm64", "windows_386", "linux_amd64_c"}
Env(v) == CASE v = "linux_amd64"   -> [goos |-> "linux",   goarch |-> "amd64", extra |-> {}]
            [] v = "darwin_arm64"  -> [goos |-> "darwin",  goarch |-> "arm64", extra |-> {}]
            [] v = "windows_386"   -> [goos |-> "windows", goarch |-> "386",   extra |-> {}]
            [] v = "linux_amd64_c" -> [goos |-> "linux",   goarch |-> "amd64", extra |-> {"c"}]    \* custom tag c also given to the toolchain
HostEnv == "linux_amd64"          \* where mockery runs (the harness verifies it)
EnvTags(v) == {Env(v).goos, Env(v).goarch} \cup Env(v).extra \cup (IF Env(v).goos \in {"linux", "darwin"} THEN {"unix"} ELSE {})

\* constraints of the source file that declares the mocked interfaces: name -> [expr, style].
\* style "gobuild" = a //go:build line, "plusbuild" = legacy // +build line(s) only.
\* "custom": a tag of the project's own, handed to mockery with the build-tags parameter.
SrcConsNames == {"none", "oslist", "notwin", "arch", "custom", "plusos", "plusnot"}
SrcCons(s) == CASE s = "none"    -> [expr |-> NoExpr, style |-> "none"]
                [] s = "oslist"  -> [expr |-> Or(Tg("linux"), Tg("darwin")), style |-> "gobuild"]
                [] s = "notwin"  -> [expr |-> Not(Tg("windows")), style |-> "gobuild"]
                [] s = "arch"    -> [expr |-> Or(Tg("amd64"), Tg("arm64")), style |-> "gobuild"]
                [] s = "custom"  -> [expr |-> Tg("c"), style |-> "gobuild"]
                [] s = "plusos"  -> [expr |-> Or(Tg("darwin"), Tg("linux")), style |-> "plusbuild"]
                [] s = "plusnot" -> [expr |-> Not(Tg("windows")), style |-> "plusbuild"]
\* tags mockery itself must be given (build-tags) so that it sees the source file on the host
MockeryTags(s) == IF s = "custom" THEN {"c"} ELSE {}
\* is the SOURCE file part of the build on platform v (world fact; the harness checks its worlds against it)
SrcIncluded(s, v) == Included(SrcCons(s).expr, EnvTags(v))
SrcVisibleToMockery(s) == Included(SrcCons(s).expr, EnvTags(HostEnv) \cup MockeryTags(s))

\* CONTRACT: the mock file under platform v and user tags asg: the configured expression, evaluated the way the
\* toolchain does (user tags + platform tags).  The source constraint is not an argument.
IncludedIn(e, v, asg) == Included(e, asg \cup EnvTags(v))
TableEnv(e) == [v \in EnvNames |-> [n \in AsgNames |-> IncludedIn(e, v, AsgSet(n))]]

-----------------------------------------------------------------------------
(* header lines.  A line is [c |-> class, tt |-> truth table or << >>].
   classes:  marker    // Code generated ... DO NOT EDIT.   (whole line, outside a block comment)
             lc        any other // line comment
             blank
             gobuild   //go:build <expr> outside a block comment; tt = truth table of <expr>
             badbuild  //go:build line whose expression does not parse
             plusbuild // +build ... outside a block comment
             bone      /* ... */ on one line
             bopen / bmid / bclose   first / inner / last line of a multi-line block comment
             package   the package clause
             other     anything else (non-comment text before the package clause) *)
L(c)       == [c |-> c, tt |-> << >>]
GoBuild(e) == [c |-> "gobuild", tt |-> Table(e)]

\* Abstraction of SIZE: a run of more than RunCap consecutive plain comment lines (// lines, inner lines of a block
\* comment) is "many".  The harness applies the same projection to the headers it observes, so a 4 KiB, 64 KiB or 1 MiB
\* boilerplate is one shape in the model (with BigN > RunCap lines) and any number of lines in the world.
RunCap == 16
RECURSIVE CapAcc(_, _, _)
CapAcc(ls, c, n) ==
  IF ls = << >> THEN << >>
  ELSE LET h == Head(ls) IN
       IF h.c = c /\ c \in {"lc", "bmid"}
       THEN IF n >= RunCap THEN CapAcc(Tail(ls), c, n) ELSE <<h>> \o CapAcc(Tail(ls), c, n + 1)
       ELSE <<h>> \o CapAcc(Tail(ls), h.c, 1)
CapRuns(ls) == CapAcc(ls, "", 0)

PkgIdx(ls) == IF \E i \in 1..Len(ls) : ls[i].c = "package"
              THEN CHOOSE i \in 1..Len(ls) : ls[i].c = "package" /\ \A j \in 1..(i-1) : ls[j].c # "package"
              ELSE Len(ls) + 1
\* first non-comment text
FirstCode(ls) == IF \E i \in 1..Len(ls) : ls[i].c \in {"package", "other"}
                 THEN CHOOSE i \in 1..Len(ls) : ls[i].c \in {"package", "other"} /\ \A j \in 1..(i-1) : ls[j].c \notin {"package", "other"}
                 ELSE Len(ls) + 1

\* ast.IsGenerated
GeneratedByRule(ls) == \E i \in 1..(PkgIdx(ls) - 1) : ls[i].c = "marker"

\* go/build: the //go:build lines that count
BuildLines(ls) == {i \in 1..(FirstCode(ls) - 1) : ls[i].c \in {"gobuild", "badbuild"}}
\* is the rule decidable here?  (// +build lines and stray text are left to the toolchain alone)
RuleDecides(ls) == /\ \A i \in 1..Len(ls) : ls[i].c \notin {"plusbuild", "other", "badbuild"}
                   /\ Cardinality(BuildLines(ls)) <= 1
                   /\ PkgIdx(ls) <= Len(ls)
IncludedByRule(ls, n) ==
  IF BuildLines(ls) = {} THEN TRUE
  ELSE LET i == CHOOSE i \in BuildLines(ls) : TRUE IN ls[i].tt[n]

\* the boilerplate block B (the lines its bytes occupy when they start on a fresh line) is a contiguous run of
\* lines before the package clause.  A leading newline of the text only terminates whatever line precedes it,
\* so the first blank line of B is not part of the pattern.
Pattern(B) == IF Len(B) > 0 /\ B[1].c = "blank" THEN Tail(B) ELSE B
VerbatimByRule(ls, B) ==
  LET P == Pattern(B) IN
  \/ Len(P) = 0
  \/ \E i \in 1..(PkgIdx(ls) - 1) : i + Len(P) - 1 < PkgIdx(ls) /\ SubSeq(ls, i, i + Len(P) - 1) = P

-----------------------------------------------------------------------------
(* CONTRACT for one generated file, judged on what the Go toolchain / go/ast reported:
     gen       ast.IsGenerated(file)
     verbatim  the boilerplate bytes are a contiguous block before the package clause
     incl      assignment name -> the toolchain lists the file in GoFiles *)
Demands(e, gen, verbatim, incl) ==
  /\ gen
  /\ verbatim
  /\ \A n \in AsgNames : incl[n] = Included(e, AsgSet(n))
\* the same with the toolchain asked on several platforms: inclenv = platform name -> assignment name -> listed
\* (the platforms that were asked; the host is always among them)
DemandsEnv(e, gen, verbatim, inclenv) ==
  /\ gen
  /\ verbatim
  /\ HostEnv \in DOMAIN inclenv
  /\ \A v \in DOMAIN inclenv : v \in EnvNames /\ \A n \in AsgNames : inclenv[v][n] = IncludedIn(e, v, AsgSet(n))
=============================================================================
