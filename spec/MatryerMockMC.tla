---------------------------- MODULE MatryerMockMC ----------------------------
(* Model constants for MatryerMock.tla (cfg files cannot spell records), and the class table:
   which concrete parameter-name sets / type sets each abstract shape is materialised with.
   checks/c04.py reads the table from TLC's output (CLASSES line); it defines no classes itself. *)
EXTENDS MatryerMock

AllShapes == {[ar |-> a, var |-> v, nres |-> r] : a \in 0..3, v \in BOOLEAN, r \in 0..3}
MCShapes  == {s \in AllShapes : s.var => s.ar >= 1}          \* 28 shapes
MCOpts    == {[stub |-> s, resets |-> r] : s \in BOOLEAN, r \in BOOLEAN}
MCFuncsA  == {"F1", "FR", "FP"}
MCFuncsA2 == {"F1", "F2", "FR", "FP"}
MCFuncsB  == {"F1"}

\* concretisation dimensions (no run-time meaning in the model; they are where the template's
\* exported(name) field naming and same-typed parameters bite)
NameSets == {"plain", "unnamed", "blank", "blankmix", "initialism", "casepair", "nonascii", "locals", "callinfo", "mock"}
TypeSets == TypeSetNames
Applicable(ns, ts, s) ==
  /\ s.ar = 0 => ns = "plain" /\ ts = "ints"
  /\ ns = "casepair" => s.ar >= 2
  /\ ns = "initialism" => s.ar >= 2
  /\ ns = "blankmix" => s.ar >= 2
\* name sets that collide with identifiers the template itself declares (mock, callInfo) or with each other after
\* exported(): whether such a mock compiles is C01's question; C04 replays them whenever they do compile
Fragile == {"casepair", "callinfo", "mock"}
\* how the two methods of the mocked interface are spelled: exported (A, B; mock in its own package) or, with the mock
\* generated IN-PACKAGE, unexported names, initialism-like unexported names, and a pair differing only in the case of
\* the first letter.  Matters wherever the template derives identifiers from the method name (MFunc, MCalls, lockM, ...).
MethodNames == {"AB", "lower", "initialism", "twins"}
ClassTable == {[shape |-> s, names |-> ns, types |-> ts, mnames |-> mn, embed |-> em, fragile |-> (ns \in Fragile),
                refpos |-> {i \in RefPositions(ts) : i <= s.ar /\ ~(s.var /\ i = s.ar)}] :
                 s \in MCShapes, ns \in NameSets, ts \in TypeSets, mn \in MethodNames, em \in BOOLEAN}   \* embed: A comes from an embedded interface
Classes == {c \in ClassTable : Applicable(c.names, c.types, c.shape)}

\* option placement table (MatryerMockContract!EffSwitch): every way ONE switch can be written across the four levels,
\* with the value that is in force for the mock.  checks/c04.py composes a mock's three switches from rows of this table
\* (the merge is per key), generates the mock with the real binary and replays the histories of the option set `eff`
\* says on it; nset / overridden-by-false are what the vacuity guards count.
PlaceTuples == [1..Len(PlaceLevels) -> PlaceVals]
PlaceSet(t) == {i \in DOMAIN t : t[i] # "unset"}
PlaceTable == {[lv |-> t, nset |-> Cardinality(PlaceSet(t)), eff |-> EffSwitch(t),
                \* an inner explicit value contradicts the value the next outer writing level gives
                flips |-> {<<PlaceLevels[q[1]], PlaceLevels[q[2]], t[q[2]]>> :
                             q \in {p \in PlaceSet(t) \X PlaceSet(t) :
                                      /\ p[1] < p[2] /\ t[p[1]] # t[p[2]]
                                      /\ \A k \in PlaceSet(t) : ~(p[1] < k /\ k < p[2])}}] : t \in PlaceTuples}

ASSUME PrintT(<<"PLACEMENTS", ToJson(PlaceTable)>>)

ASSUME PrintT(<<"CLASSES", ToJson(Classes)>>)
=============================================================================
