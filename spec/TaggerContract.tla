--------------------------- MODULE TaggerContract ---------------------------
(***************************************************************************)
(* C20, contract layer: what ONE invocation of the release tagger          *)
(* (`tools tag [--dry-run=...]`, /repo/tools/cmd/tag.go) may do to a       *)
(* repository, exactly as the property states it and no more:              *)
(*                                                                         *)
(*   refs change ONLY IF  dry-run is explicitly false                      *)
(*                    /\  the work tree is clean                           *)
(*                    /\  the requested version is strictly greater than   *)
(*                        every existing FULL semver tag of the same major *)
(*   and then exactly  v<version>  is created at HEAD and  v<major>  is    *)
(*   created-or-moved to the same commit; every other ref, HEAD, the work  *)
(*   tree and everything else observed stay as they were.  Otherwise all   *)
(*   refs are identical and the exit status signals it.                    *)
(*                                                                         *)
(* The contract is one-directional (the statement says "only when"): an    *)
(* invocation that refuses although it would be permitted is accepted as   *)
(* long as it says so through a non-zero exit status.  It never says which *)
(* KIND of tag (lightweight / annotated) the tool creates.                 *)
(*                                                                         *)
(* A repository state is a record                                          *)
(*   [tags : Name -|-> tag record with at least field c (peeled commit)],  *)
(*    head : commit HEAD resolves to,  dirty : work-tree state (a kind of  *)
(*    TaggerWorktree.tla),                                                 *)
(*    version : raw VERSION string of mockery-tools.env,                   *)
(*    other : opaque token for everything else that was observed]          *)
(* Tag records are compared as a whole for "untouched" (the trace spec     *)
(* puts the object identity in them), only field c is constrained for the  *)
(* two refs the tool may write.                                            *)
(***************************************************************************)
EXTENDS Naturals, FiniteSets, TaggerWorktree

CONSTANTS
  NameTable,   \* tag name |-> [full, dots3, parsable, maj, min, pat, pre]
               \*   full     : the name is a full semantic version (optionally v-prefixed): X.Y.Z[-pre]
               \*   dots3    : the name has at least three dot-separated parts           (code-shaped layer only)
               \*   parsable : Masterminds/semver NewVersion (lenient) accepts the name  (code-shaped layer only)
               \*   maj,min,pat : numeric parts; pre : 0 = release, k > 0 = k-th pre-release identifier in semver order
  ReqTable     \* raw VERSION string |-> [valid, maj, min, pat, pre, fullname, majorname]
\* The work-tree states and what git calls clean are defined in TaggerWorktree.tla (no constant: the
\* classification is computed from the HEAD / index / work-tree entries of every state).

\* The abstraction tables are recomputed from the real library by the harness (drivers/tagger); a
\* disagreement is a machinery error, never a verdict.

PreLess(p, q) == (p # 0 /\ q = 0) \/ (p # 0 /\ q # 0 /\ p < q)
VLess(a, b) == \/ a.maj < b.maj
               \/ a.maj = b.maj /\ a.min < b.min
               \/ a.maj = b.maj /\ a.min = b.min /\ a.pat < b.pat
               \/ a.maj = b.maj /\ a.min = b.min /\ a.pat = b.pat /\ PreLess(a.pre, b.pre)

ReqValid(r) == r \in DOMAIN ReqTable /\ ReqTable[r].valid
FullName(r) == ReqTable[r].fullname
MajorName(r) == ReqTable[r].majorname

\* existing full semantic-version tags with the same major as the request
Blocking(tg, r) == {n \in DOMAIN tg : NameTable[n].full /\ NameTable[n].maj = ReqTable[r].maj}
StrictlyNewer(tg, r) == ReqValid(r) /\ \A n \in Blocking(tg, r) : VLess(NameTable[n], ReqTable[r])
\* "only on a clean work tree": clean iff `git status --porcelain` prints nothing for the work-tree state d
\* (computed from its HEAD / index / work-tree entries, TaggerWorktree.tla)
Clean(d) == d \in WtNames /\ WtClean(d)

GatesPass(st) == Clean(st.dirty) /\ StrictlyNewer(st.tags, st.version)
Permitted(st, flag) == flag = "false" /\ GatesPass(st)

\* exit classes: "ok" (status 0), "nothing" (status 8, 'nothing to do'), "error" (any other non-zero status)
\* When no ref changed: a real (non dry-run) invocation must say so; a dry run must say so when the
\* version is stale/invalid or the tree dirty (when a dry run WOULD have tagged, status 0 is what the
\* tool answers and the statement does not rule it out).
ExitsUnchanged(st, flag) ==
  IF flag = "false" \/ ~GatesPass(st) THEN {"nothing", "error"} ELSE {"ok", "nothing", "error"}

\* The outcomes the contract allows for an invocation in state st.  An outcome lists the complete tag
\* table afterwards; names in `fresh` are the refs the tool wrote (only their commit is prescribed),
\* every other name must be untouched.  This set is exported with every replayed case.
Allowed(st, flag) ==
  {[kind |-> "unchanged", tags |-> [n \in DOMAIN st.tags |-> [c |-> st.tags[n].c]], fresh |-> {},
    exits |-> ExitsUnchanged(st, flag)]}
  \cup
  (IF Permitted(st, flag)
   THEN LET W == {FullName(st.version), MajorName(st.version)} IN
        {[kind |-> "tagged",
          tags |-> [n \in DOMAIN st.tags \cup W |-> IF n \in W THEN [c |-> st.head] ELSE [c |-> st.tags[n].c]],
          fresh |-> W, exits |-> {"ok"}]}
   ELSE {})

Matches(o, pre, post) ==
  /\ DOMAIN post.tags = DOMAIN o.tags
  /\ \A n \in DOMAIN o.tags :
       IF n \in o.fresh THEN post.tags[n].c = o.tags[n].c
       ELSE n \in DOMAIN pre.tags /\ post.tags[n] = pre.tags[n]

Frame(pre, post) == /\ post.head = pre.head
                    /\ post.dirty = pre.dirty
                    /\ post.version = pre.version
                    /\ post.other = pre.other

\* THE contract of one invocation
RunContract(pre, flag, post, exit) ==
  /\ Frame(pre, post)
  /\ \E o \in Allowed(pre, flag) : Matches(o, pre, post) /\ exit \in o.exits

-----------------------------------------------------------------------------
(* The clauses of the property one by one (DESIGN.md C20); each follows from RunContract and is
   checked separately on the code-shaped model so that a failure names the clause. *)
SameTags(a, b) == DOMAIN a = DOMAIN b /\ \A n \in DOMAIN a : a[n] = b[n]
Changed(pre, post) == ~SameTags(pre.tags, post.tags)

DryRunIsDefault(pre, flag, post)   == flag # "false" => ~Changed(pre, post)
OnlyWhenClean(pre, flag, post)     == Changed(pre, post) => Clean(pre.dirty)
OnlyStrictlyNewer(pre, flag, post) == Changed(pre, post) => StrictlyNewer(pre.tags, pre.version)
ExactlyTwoRefs(pre, flag, post) ==
  Changed(pre, post) =>
    LET W == {FullName(pre.version), MajorName(pre.version)} IN
    /\ ReqValid(pre.version)
    /\ DOMAIN post.tags = DOMAIN pre.tags \cup W
    /\ \A n \in W : post.tags[n].c = pre.head
    /\ \A n \in DOMAIN pre.tags \ W : post.tags[n] = pre.tags[n]
ExitSignals(pre, flag, post, exit) ==
  IF Changed(pre, post) THEN exit = "ok" ELSE exit \in ExitsUnchanged(pre, flag)
=============================================================================
