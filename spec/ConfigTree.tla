----------------------------- MODULE ConfigTree -----------------------------
(***************************************************************************)
(* C08, code-shaped layer: how config/config.go resolves the hierarchy.    *)
(*                                                                         *)
(* One behaviour = one struct field of config.Config of one KIND           *)
(*   "ptr"   scalar pointer (to string / bool: dir, template, all, ...)    *)
(*   "slice" []string      (exclude-subpkg-regex)                          *)
(*   "any"   map[string]any (template-data; nested maps are Go map OBJECTS *)
(*           on a heap, so aliasing between levels is expressible)         *)
(*   "typed" map[string]map[string]*ReplaceType (replace-type)             *)
(* written at an arbitrary subset of the levels, and the program           *)
(*   NewRootConfig -> Initialize (pass 1) ; Run -> Initialize (pass 2):    *)
(*     for each package (Go map order = nondeterministic)                  *)
(*        mergeConfigs(root -> pkg)              config.go:357     InitPkg *)
(*        for each interface (map order)                                   *)
(*           mergeConfigs(pkg -> iface)          config.go:473   InitIface *)
(*           for each configs entry: mergeConfigs(iface -> entry)  :565    *)
(*     for each recursive package, deepest first, for each sub-package     *)
(*        mergeConfigs(parent -> existing or fresh sub)   :404     Inject  *)
(*   GetInterfaceConfig: listed -> its own configs; unlisted -> deep copy  *)
(*        of the package config                          :481-497    Read  *)
(*   consumers (cmd/mockery.go:275-333, template_generator.go:447-457):    *)
(*        per-mock values from the mock's config, file-level template-data *)
(*        from the package config.                                         *)
(* Checked against ConfigTreeContract: what every consumer reads is        *)
(* Effective(), and at no point does a level hold a value written on       *)
(* another chain (NoLeak).  ShareNested / SkipTyped re-create the repaired *)
(* defects D5 / D3 and must make TLC report a violation (sensitivity).     *)
(***************************************************************************)
EXTENDS ConfigTreeContract

CONSTANTS
  Kinds,          \* kinds explored
  MapNodes,       \* levels that may write the map-kind and slice fields
  PtrNodes,       \* levels that may write the pointer-kind field
  NMapShapes,     \* how many shapes of map values are tried per level
  Recursive,      \* set of packages configured recursive (its Subs are injected)
  SubSeq_,        \* [recursive package -> sequence of its sub-packages, in `go list` order]
  ShareNested,    \* D5: mergeStringMaps stores the parent's nested map object in the child
  SkipTyped,      \* D3: mergeConfigs skips maps that are not map[string]any
  ShareUnlisted   \* GetInterfaceConfig hands out the package's Config itself instead of a deep copy

VARIABLES
  kind,           \* the field kind of this behaviour
  cfg,            \* what the config file says: [node -> [F -> value]]  (F is the one field)
  mem,            \* the Config structs in memory: [node -> value | NIL]; for kind "any" a heap address
  heap,           \* [c |-> [addr -> [key -> cell]], nx |-> next free address]
  pkgs,           \* keys of RootConfig.Packages
  rd,             \* what the per-mock consumers got: [mock -> [v |-> value, by |-> interface the templated strings were resolved for]]
  pc, pass, pend, cur, pendI, recq, subq

vars == <<kind, cfg, mem, heap, pkgs, rd, pc, pass, pend, cur, pendI, recq, subq>>

F == "f"
NIL == "<nil>"
NilOf(kd) == CASE kd = "any" -> 0 [] kd = "typed" -> [t |-> "nil"] [] OTHER -> NIL   \* heap addresses start at 1; 0 is the nil map
NILV == NilOf(kind)
EMPTY == "<empty>"
S(v) == [t |-> "s", v |-> v]
M(f) == [t |-> "m", kv |-> f]

Settable == {r.id : r \in {x \in NodeRecs : x.kind \in {"root", "pkg", "iface", "entry"}}}
PkgNodes == {r.id : r \in {x \in NodeRecs : x.kind = "pkg"}}

-----------------------------------------------------------------------------
(* the heap of map[string]any objects *)
Cell(H, a, k) == H.c[a][k]
Put(H, a, k, v) == [H EXCEPT !.c[a] = (k :> v) @@ @]
Alloc(H) == [c |-> (H.nx :> << >>) @@ H.c, nx |-> H.nx + 1]

RECURSIVE Build(_, _, _)        \* store the tagged tree v (a map) at the fresh address a
Build(H, a, v) ==
  LET RECURSIVE Go(_, _)
      Go(HH, ks) ==
        IF ks = {} THEN HH ELSE
        LET k == CHOOSE x \in ks : TRUE
            x == v.kv[k]
        IN IF x.t = "s" THEN Go(Put(HH, a, k, x), ks \ {k})
           ELSE LET H1 == Alloc(HH)  b == HH.nx
                IN Go(Put(Build(H1, b, x), a, k, [t |-> "r", a |-> b]), ks \ {k})
  IN Go(H, DOMAIN v.kv)

RECURSIVE Mat(_, _)             \* the tagged tree stored at address a
Mat(H, a) == M([k \in DOMAIN H.c[a] |-> IF H.c[a][k].t = "s" THEN H.c[a][k] ELSE Mat(H, H.c[a][k].a)])

\* mergeStringMaps(src, dest)  config.go:234-256
RECURSIVE MergeKeys(_, _, _, _)
MergeKeys(H, s, d, ks) ==
  IF ks = {} THEN H ELSE
  LET k  == CHOOSE x \in ks : TRUE
      sv == H.c[s][k]
      H1 == IF k \in DOMAIN H.c[d]
            THEN IF H.c[d][k].t = "r" /\ sv.t = "r"
                 THEN MergeKeys(H, sv.a, H.c[d][k].a, DOMAIN H.c[sv.a])          \* both maps: recurse
                 ELSE H                                                           \* dest wins
            ELSE IF sv.t = "r" /\ ~ShareNested
                 THEN LET H0 == Alloc(H)  b == H.nx                               \* copied := make(map); merge(src, copied)
                      IN Put(MergeKeys(H0, sv.a, b, DOMAIN H0.c[sv.a]), d, k, [t |-> "r", a |-> b])
                 ELSE Put(H, d, k, sv)                                            \* dest[k] = srcValue
  IN MergeKeys(H1, s, d, ks \ {k})

RECURSIVE DeepCopy(_, _, _)     \* deep.Copy: copy the object at s into the fresh address d
DeepCopy(H, s, d) ==
  LET RECURSIVE Go(_, _)
      Go(HH, ks) ==
        IF ks = {} THEN HH ELSE
        LET k == CHOOSE x \in ks : TRUE
            x == HH.c[s][k]
        IN IF x.t = "s" THEN Go(Put(HH, d, k, x), ks \ {k})
           ELSE LET H1 == Alloc(HH)  b == HH.nx
                IN Go(Put(DeepCopy(H1, x.a, b), d, k, [t |-> "r", a |-> b]), ks \ {k})
  IN Go(H, DOMAIN H.c[s])

-----------------------------------------------------------------------------
(* mergeConfigs(src, dest) for the one field, config.go:281-336.  Returns [m |-> new value of dest, h |-> heap] *)
MergeField(H, sv, dv) ==
  CASE kind = "ptr" ->                     \* pointer: copied iff dest is nil
         [m |-> IF dv = NILV THEN sv ELSE dv, h |-> H]
    [] kind = "slice" ->                   \* `CanSet && IsZero` branch: a nil slice is replaced, an empty one is not
         [m |-> IF dv = NILV THEN sv ELSE dv, h |-> H]
    [] kind = "typed" ->                   \* typed maps: merged key by key when src is non-empty, nested maps never shared
         IF SkipTyped \/ sv = NILV \/ DOMAIN sv.kv = {} THEN [m |-> dv, h |-> H]
         ELSE [m |-> MergeVal(IF dv = NILV THEN EmptyMap ELSE dv, sv), h |-> H]
    [] OTHER ->                            \* map[string]any: dest allocated when nil, then mergeStringMaps
         IF sv = NILV
         THEN IF dv = NILV THEN LET H0 == Alloc(H) IN [m |-> H.nx, h |-> H0] ELSE [m |-> dv, h |-> H]
         ELSE IF dv = NILV
              THEN LET H0 == Alloc(H) IN [m |-> H.nx, h |-> MergeKeys(H0, sv, H.nx, DOMAIN H0.c[sv])]
              ELSE [m |-> dv, h |-> MergeKeys(H, sv, dv, DOMAIN H.c[sv])]

\* several merges in sequence: ops is a sequence of <<src node, dest node>>
RECURSIVE DoMerges(_, _, _)
DoMerges(mm, H, ops) ==
  IF ops = << >> THEN [m |-> mm, h |-> H]
  ELSE LET s == ops[1][1]  d == ops[1][2]
           dv == IF d \in DOMAIN mm THEN mm[d] ELSE NILV
           r == MergeField(H, mm[s], dv)
       IN DoMerges((d :> r.m) @@ mm, r.h, Tail(ops))

-----------------------------------------------------------------------------
(* what the file says, per kind *)
MapShape(n, j) ==
  LET only == "only_" \o n IN
  CASE j = 1 -> M([nest |-> M(("x" :> S(n)) @@ (only :> S(n)))])
    [] j = 2 -> M((only :> S(n)) @@ ("nest" :> M([deep |-> M([q |-> S(n)])])))
    [] OTHER -> M([k |-> S(n)])

ValueAt(kd, n, j) ==
  CASE kd = "ptr" -> n
    [] kd = "slice" -> IF j = 1 THEN n ELSE EMPTY
    [] OTHER -> MapShape(n, j)
NShapes(kd) == CASE kd = "ptr" -> 1 [] kd = "slice" -> 2 [] OTHER -> NMapShapes

Writers(kd) == IF kd = "ptr" THEN PtrNodes ELSE MapNodes

\* all configurations: every subset of the writers, every value
Configs(kd) ==
  UNION { {[n \in W |-> (F :> ValueAt(kd, n, sel[n]))] : sel \in [W -> 1..NShapes(kd)]} : W \in SUBSET Writers(kd) }

\* NewRootConfig: every pointer field of the root is non-nil (defaults); TemplateData defaults to {}
InitialMem(kd, c) ==
  LET RECURSIVE Go(_, _, _)
      Go(mm, H, ns) ==
        IF ns = {} THEN [m |-> mm, h |-> H] ELSE
        LET n == CHOOSE x \in ns : TRUE
            set == n \in DOMAIN c
        IN IF kd = "any"
           THEN IF set \/ n = "root"
                THEN LET H0 == Alloc(H)
                     IN Go((n :> H.nx) @@ mm, IF set THEN Build(H0, H.nx, c[n][F]) ELSE H0, ns \ {n})
                ELSE Go((n :> 0) @@ mm, H, ns \ {n})
           ELSE Go((n :> IF set THEN c[n][F] ELSE IF n = "root" /\ kd = "ptr" THEN DEFAULT ELSE NilOf(kd)) @@ mm, H, ns \ {n})
  IN Go(<< >>, [c |-> << >>, nx |-> 1], Settable)

Init ==
  /\ kind \in Kinds
  /\ cfg \in Configs(kind)
  /\ LET r == InitialMem(kind, cfg) IN mem = r.m /\ heap = r.h
  /\ pkgs = PkgNodes /\ rd = << >>
  /\ pc = "pkgs" /\ pass = 1 /\ pend = PkgNodes /\ cur = "" /\ pendI = {} /\ recq = << >> /\ subq = << >>

-----------------------------------------------------------------------------
IfaceIds(p) == {r.id : r \in IfaceNodes(p)}
EntrySeq(i) == LET RECURSIVE Srt(_) Srt(ss) == IF ss = {} THEN << >> ELSE
                     LET x == CHOOSE y \in ss : TRUE IN <<x>> \o Srt(ss \ {x})
               IN Srt({r.id : r \in EntryNodes(i)})

\* RootConfig.Initialize, first loop, one package (map order: any pending package)
InitPkg(p) ==
  /\ pc = "pkgs" /\ p \in pend
  /\ LET r == DoMerges(mem, heap, <<<<"root", p>>>>) IN mem' = r.m /\ heap' = r.h
  /\ pend' = pend \ {p}
  /\ IF p \in PkgNodes /\ IfaceIds(p) # {} THEN pc' = "ifaces" /\ cur' = p /\ pendI' = IfaceIds(p)
     ELSE pc' = "pkgs" /\ cur' = "" /\ pendI' = {}
  /\ UNCHANGED <<kind, cfg, rd, pkgs, pass, recq, subq>>

\* PackageConfig.Initialize, one interface (map order), including InterfaceConfig.Initialize
InitIface(i) ==
  /\ pc = "ifaces" /\ i \in pendI
  /\ LET es == EntrySeq(i)
         ops == <<<<cur, i>>>> \o [j \in 1..Len(es) |-> <<i, es[j]>>]
         r == DoMerges(mem, heap, ops)
     IN mem' = r.m /\ heap' = r.h
  /\ pendI' = pendI \ {i}
  /\ IF pendI' = {} THEN pc' = "pkgs" /\ cur' = "" ELSE pc' = "ifaces" /\ cur' = cur
  /\ UNCHANGED <<kind, cfg, rd, pkgs, pass, pend, recq, subq>>

\* recursive packages, deepest first (sorted: deterministic)
RecSeq == LET RECURSIVE Srt(_) Srt(ss) == IF ss = {} THEN << >> ELSE
                LET x == CHOOSE y \in ss : \A z \in ss : Len(y) >= Len(z) IN <<x>> \o Srt(ss \ {x})
          IN Srt(Recursive)

StartRec ==
  /\ pc = "pkgs" /\ pend = {}
  /\ pc' = "rec" /\ recq' = RecSeq /\ subq' = IF RecSeq = << >> THEN << >> ELSE SubSeq_[RecSeq[1]]
  /\ UNCHANGED <<kind, cfg, rd, mem, heap, pkgs, pass, pend, cur, pendI>>

\* one sub-package of the current recursive package: existing or fresh, mergeConfigs(parent -> sub)
Inject ==
  /\ pc = "rec" /\ recq # << >> /\ subq # << >>
  /\ LET p == recq[1]  s == subq[1]
         fresh == IF s \in pkgs THEN mem ELSE (s :> NILV) @@ mem
         r == DoMerges(fresh, heap, <<<<p, s>>>>)
     IN mem' = r.m /\ heap' = r.h /\ pkgs' = pkgs \cup {s}
  /\ subq' = Tail(subq)
  /\ UNCHANGED <<kind, cfg, rd, pc, pass, pend, cur, pendI, recq>>

NextRec ==
  /\ pc = "rec" /\ recq # << >> /\ subq = << >>
  /\ recq' = Tail(recq)
  /\ subq' = IF Len(recq) > 1 THEN SubSeq_[recq[2]] ELSE << >>
  /\ UNCHANGED <<kind, cfg, rd, mem, heap, pkgs, pc, pass, pend, cur, pendI>>

\* Run() calls Initialize a second time (cmd/mockery.go:183)
EndPass ==
  /\ pc = "rec" /\ recq = << >>
  /\ IF pass = 1 THEN pass' = 2 /\ pc' = "pkgs" /\ pend' = pkgs ELSE pass' = 2 /\ pc' = "read" /\ pend' = {}
  /\ UNCHANGED <<kind, cfg, rd, mem, heap, pkgs, cur, pendI, recq, subq>>

\* mocks: everything selectable (the selection parameters are not this model's concern)
AllMocks ==
  UNION { UNION { IF L \in ListedLetters(p)
                  THEN LET i == CHOOSE r \in IfaceNodes(p) : r.letter = L IN
                       IF EntryNodes(i.id) = {} THEN {[pkg |-> p, letter |-> L, from |-> i.id, how |-> "iface"]}
                       ELSE {[pkg |-> p, letter |-> L, from |-> e.id, how |-> "entry"] : e \in EntryNodes(i.id)}
                  ELSE {[pkg |-> p, letter |-> L, from |-> p, how |-> "unlisted"]} : L \in Decl[p] } : p \in PkgNodes }
  \cup UNION { UNION { {[pkg |-> SubSeq_[p][j], letter |-> L, from |-> p, how |-> "subpkg"] : L \in Decl[SubSeq_[p][j]]}
                       : j \in {x \in 1..Len(SubSeq_[p]) : SubSeq_[p][x] \notin PkgNodes} } : p \in Recursive }

\* Run(), the loop over the parsed interfaces (cmd/mockery.go:240-307): GetInterfaceConfig, then ParseTemplates
\* resolves the templated strings of the config it was handed IN PLACE.  The order of the interfaces of a
\* package is the parser's: any.  `ord` is one order of all mocks.
ConfigNodeOf(m) == IF m.how \in {"unlisted", "subpkg"} THEN (IF ShareUnlisted THEN m.pkg ELSE "<copy>") ELSE m.from
RECURSIVE ReadSeq(_, _, _)
ReadSeq(ord, by, acc) ==      \* by: [config node -> interface it has already been resolved for]
  IF ord = << >> THEN acc ELSE
  LET m == ord[1]
      node == ConfigNodeOf(m)
      who == IF node # "<copy>" /\ node \in DOMAIN by THEN by[node] ELSE m.letter \o "@" \o m.pkg
      val == mem[IF m.how \in {"unlisted", "subpkg"} THEN m.pkg ELSE m.from]
  IN ReadSeq(Tail(ord), IF node = "<copy>" THEN by ELSE (node :> who) @@ by, (m :> [v |-> val, by |-> who]) @@ acc)

\* the orders that matter: which unlisted interface of a package comes first
Orders ==
  LET RECURSIVE Srt(_) Srt(ss) == IF ss = {} THEN << >> ELSE LET x == CHOOSE y \in ss : TRUE IN <<x>> \o Srt(ss \ {x})
      base == Srt(AllMocks)
      Rev(q) == [i \in 1..Len(q) |-> q[Len(q) + 1 - i]]
  IN {base, Rev(base)}

ReadAll ==
  /\ pc = "read"
  /\ \E ord \in Orders : rd' = ReadSeq(ord, << >>, << >>)
  /\ pc' = "done"
  /\ UNCHANGED <<kind, cfg, mem, heap, pkgs, pass, pend, cur, pendI, recq, subq>>

Next ==
  \/ \E p \in pend : InitPkg(p)
  \/ \E i \in pendI : InitIface(i)
  \/ StartRec \/ Inject \/ NextRec \/ EndPass \/ ReadAll

Spec == Init /\ [][Next]_vars

-----------------------------------------------------------------------------
(* what the consumers read *)
Tree(v) == IF kind = "any" THEN (IF v = 0 THEN EmptyMap ELSE Mat(heap, v))
           ELSE IF kind = "typed" THEN (IF v = NILV THEN EmptyMap ELSE v) ELSE v

\* GetInterfaceConfig + the per-mock consumers: the value of the mock's own config; for an unlisted
\* interface a deep copy of the package config (same content)
ReadMock(m) == Tree(mem[IF m.how = "subpkg" THEN m.pkg ELSE m.from])
\* NewTemplateGenerator(..., packageConfig.Config, ...): file-level template-data
ReadFile(m) == Tree(mem[m.pkg])

ContractParam == IF kind = "any" THEN "template-data" ELSE IF kind = "typed" THEN "replace-type"
                 ELSE IF kind = "slice" THEN "exclude-subpkg-regex" ELSE "dir"
\* the contract is evaluated on the same file content, under the name of a parameter of that kind
CCfg == [n \in DOMAIN cfg |-> (ContractParam :> cfg[n][F])]
Expected(n) ==
  IF kind \in {"any", "typed"} THEN EffMap(CCfg, ContractParam, n)
  ELSE IF Hits(CCfg, ContractParam, n) = {} THEN (IF kind = "ptr" THEN DEFAULT ELSE NIL)
       ELSE EffScalar(CCfg, ContractParam, n)

\* sub-packages that are configured explicitly although a recursive ancestor injects into them: the
\* property does not say how they resolve
Unspecified == {s \in PkgNodes : \E p \in Recursive : \E j \in 1..Len(SubSeq_[p]) : SubSeq_[p][j] = s}
Checked(m) == m.pkg \notin Unspecified

\* INVARIANT: at the end every consumer reads the contract's effective value
ImplMatchesContract ==
  pc = "done" => \A m \in AllMocks : Checked(m) =>
                    /\ ReadMock(m) = Expected(m.from)
                    /\ rd[m].by = m.letter \o "@" \o m.pkg        \* resolved for this very interface, not a sibling's leftovers
                    /\ (kind = "any" => ReadFile(m) = Expected(IF m.how = "subpkg" THEN m.from ELSE m.pkg))

\* INVARIANT: at every point, nothing a level holds was written on another chain
ChainOfMem(n) == IF n \in NodeIds THEN OnChain(n)
                 ELSE UNION {OnChain(p) : p \in {q \in Recursive : \E j \in 1..Len(SubSeq_[q]) : SubSeq_[q][j] = n}}
NoLeak ==
  \A n \in DOMAIN mem : n \notin Unspecified /\ (n \in NodeIds => Rec(n).pkg \notin Unspecified) /\ mem[n] # NILV =>
     IF kind \in {"any", "typed"} THEN \A x \in Leaves(Tree(mem[n])) : x \in ChainOfMem(n)
     ELSE mem[n] \in ChainOfMem(n) \cup {DEFAULT, EMPTY}

\* vacuity witnesses (must be violated)
NeverDone == pc # "done"
NeverNested == ~(kind = "any" /\ \E a \in DOMAIN heap.c : \E k \in DOMAIN heap.c[a] : heap.c[a][k].t = "r")
NeverInjectExisting == ~(pc = "rec" /\ subq # << >> /\ subq[1] \in pkgs /\ pass = 1)
=============================================================================
