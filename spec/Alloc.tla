------------------------------- MODULE Alloc -------------------------------
(***************************************************************************)
(* C15 -- the two allocators mockery hands to templates:                   *)
(*   template.MethodScope  (AddName / NameExists / SuggestName /           *)
(*                          AllocateName)             method_scope.go:64-93 *)
(*   template.Registry     (AddImport / Imports / PkgQualifier /           *)
(*                          MethodScope())            registry.go:78-161    *)
(*                                                                         *)
(* Two layers.  The Impl layer is shaped like the code: suffix search      *)
(* p, p1, p2, ... for names, alias search q, q0, q1, ... for qualifiers,   *)
(* the in-package self import ignored.  The Contract layer is the property *)
(* (C15) as invariants / action properties over the same variables and the *)
(* last reply; it never says WHICH fresh name is returned.                 *)
(***************************************************************************)
EXTENDS Naturals, Sequences, FiniteSets, TLC, Json

CONSTANTS Prefixes,     \* strings used as AllocateName/SuggestName prefixes
          AddNames,     \* strings used with AddName / NameExists
          Pkgs,         \* set of [name |-> , path |-> ] records offered to AddImport
          DstPath,      \* destination package path of the file
          MaxHist       \* bound on history length (state constraint)

VARIABLES visible,      \* names visible in the current method scope
          imp,          \* path -> qualifier        (Registry.imports)
          inpkg,        \* Registry.inPackage
          last,         \* last operation with its reply (observation)
          hist,         \* all operations so far (observation; hidden by VIEW)
          pv,           \* MethodScope.vars: the provisional names of the variables added so far (AddVar)
          resolved      \* ResolveVariableNameCollisions ran on the current scope

vars == <<visible, imp, inpkg, last, hist, pv, resolved>>
view == <<visible, imp, inpkg, last, pv, resolved>>

\* variable alphabet of the AddVar / ResolveVariableNameCollisions histories (empty unless a cfg overrides them:
\* VarNames <- MCVarNamesV).  A VarPkgs element is a Pkgs record or NoPkg (a variable of a basic type).
VarNames == {}
VarPkgs == {}
NoPkg == [name |-> "", path |-> ""]

Name(p, i) == IF i = 0 THEN p ELSE p \o ToString(i)
Alias(q, i) == IF i = 0 THEN q ELSE q \o ToString(i - 1)

Range(f) == {f[x] : x \in DOMAIN f}
Quals == Range(imp)

\* method_scope.go:68-83
SuggestImpl(p, vis) ==
  LET K == Cardinality(vis) + 1
      k == CHOOSE k \in 0..K : Name(p, k) \notin vis /\ \A j \in 0..(k-1) : Name(p, j) \in vis
  IN Name(p, k)

\* registry.go:112-149
AliasImpl(q, taken) ==
  LET K == Cardinality(taken) + 1
      k == CHOOSE k \in 0..K : Alias(q, k) \notin taken /\ \A j \in 0..(k-1) : Alias(q, j) \in taken
  IN Alias(q, k)

Paths == {pk.path : pk \in Pkgs}

\* Imports(): list sorted by path.  Strings are not ordered in TLC, so the model carries
\* the *set*; sortedness of the real reply is checked by the trace spec with PathOrder.
Init == /\ visible = {}
        /\ imp = << >>
        /\ inpkg \in BOOLEAN
        /\ last = [op |-> "init"]
        /\ hist = << >>
        /\ pv = << >>
        /\ resolved = FALSE

Do(rec) == /\ last' = rec
           /\ hist' = Append(hist, rec)

AddName(n) == /\ visible' = visible \cup {n}
              /\ Do([op |-> "add", name |-> n])
              /\ UNCHANGED <<imp, inpkg, pv, resolved>>

NameExists(n) == /\ Do([op |-> "exists", name |-> n, res |-> (n \in visible)])
                 /\ UNCHANGED <<visible, imp, inpkg, pv, resolved>>

SuggestName(p) == /\ Do([op |-> "suggest", prefix |-> p, res |-> SuggestImpl(p, visible)])
                  /\ UNCHANGED <<visible, imp, inpkg, pv, resolved>>

AllocateName(p) == LET r == SuggestImpl(p, visible) IN
                   /\ visible' = visible \cup {r}
                   /\ Do([op |-> "alloc", prefix |-> p, res |-> r])
                   /\ UNCHANGED <<imp, inpkg, pv, resolved>>

Extend(f, k, v) == [x \in DOMAIN f \cup {k} |-> IF x = k THEN v ELSE f[x]]

AddImport(pk) ==
  IF pk.path = DstPath /\ inpkg
  THEN /\ Do([op |-> "import", name |-> pk.name, path |-> pk.path, rpath |-> pk.path, res |-> "", nil |-> TRUE])
       /\ UNCHANGED <<visible, imp, inpkg, pv, resolved>>
  ELSE IF pk.path \in DOMAIN imp
  THEN /\ Do([op |-> "import", name |-> pk.name, path |-> pk.path, rpath |-> pk.path, res |-> imp[pk.path], nil |-> FALSE])
       /\ UNCHANGED <<visible, imp, inpkg, pv, resolved>>
  ELSE LET q == AliasImpl(pk.name, Quals) IN
       /\ imp' = Extend(imp, pk.path, q)
       /\ Do([op |-> "import", name |-> pk.name, path |-> pk.path, rpath |-> pk.path, res |-> q, nil |-> FALSE])
       /\ UNCHANGED <<visible, inpkg, pv, resolved>>

ListImports == /\ Do([op |-> "imports", paths |-> DOMAIN imp])
               /\ UNCHANGED <<visible, imp, inpkg, pv, resolved>>

PkgQualifier(p) == /\ Do([op |-> "qual", path |-> p, found |-> (p \in DOMAIN imp),
                          res |-> IF p \in DOMAIN imp THEN imp[p] ELSE ""])
                   /\ UNCHANGED <<visible, imp, inpkg, pv, resolved>>

\* Registry.MethodScope(): a fresh scope that sees the qualifiers imported so far
NewScope == /\ visible' = Quals
            /\ Do([op |-> "newscope"])
            /\ pv' = << >> /\ resolved' = FALSE
            /\ UNCHANGED <<imp, inpkg>>

\* MethodScope.AddVar (method_scope.go:135-212, no replacement): the package of the variable's type is imported
\* into the FILE registry, its qualifier and the type string become visible in the scope, and only then a
\* provisional name is suggested (not registered) for the variable.  The in-package self import yields no
\* import and the empty qualifier.
ToSet(s) == {s[i] : i \in 1..Len(s)}
TypeStr(pk, q) == IF pk.path = "" THEN "string" ELSE IF q = "" THEN "T" ELSE q \o ".T"
AddVar(n, pk) ==
  LET self == pk.path = DstPath /\ inpkg
      imp2 == IF pk.path = "" \/ self \/ pk.path \in DOMAIN imp THEN imp
              ELSE Extend(imp, pk.path, AliasImpl(pk.name, Quals))
      q    == IF pk.path = "" \/ self THEN "" ELSE imp2[pk.path]
      t    == TypeStr(pk, q)
      vis2 == visible \cup {t} \cup (IF pk.path = "" THEN {} ELSE {q})
      r    == SuggestImpl(n, vis2)
  IN /\ ~resolved
     /\ imp' = imp2
     /\ visible' = vis2
     /\ pv' = Append(pv, r)
     /\ Do([op |-> "addvar", name |-> n, pname |-> pk.name, path |-> pk.path, rpath |-> pk.path, nil |-> self,
            q |-> q, tstr |-> t, tident |-> (q = ""), res |-> r])
     /\ UNCHANGED <<inpkg, resolved>>

\* ResolveVariableNameCollisions (method_scope.go:60-78): in order, every variable gets the first free
\* suffixed form of its provisional name, which is then registered.  (The exported-name uniqueness loop is
\* not modelled: VarNames alphabets contain no two names that coincide once exported; the probe-template
\* route covers a/A, id/ID.)
RECURSIVE ResolveFrom(_, _, _)
ResolveFrom(i, vis, acc) == IF i > Len(pv) THEN acc
                            ELSE LET r == SuggestImpl(pv[i], vis) IN ResolveFrom(i + 1, vis \cup {r}, Append(acc, r))
Resolve == LET names == ResolveFrom(1, visible, << >>) IN
           /\ ~resolved /\ Len(pv) > 0
           /\ visible' = visible \cup ToSet(names)
           /\ resolved' = TRUE
           /\ Do([op |-> "resolve", names |-> names])
           /\ UNCHANGED <<imp, inpkg, pv>>

Next == /\ Len(hist) < MaxHist
        /\ \/ \E n \in AddNames : AddName(n) \/ NameExists(n)
           \/ \E p \in Prefixes : SuggestName(p) \/ AllocateName(p)
           \/ \E pk \in Pkgs : AddImport(pk)
           \/ ListImports
           \/ \E p \in Paths : PkgQualifier(p)
           \/ NewScope
           \/ \E n \in VarNames : \E pk \in VarPkgs : AddVar(n, pk)
           \/ Resolve

Spec == Init /\ [][Next]_vars

\* deep behaviours: one scope and one registry growing without ever being reset (suffix / alias index >= 10)
NextDeep == /\ Len(hist) < MaxHist
            /\ \/ \E p \in Prefixes : AllocateName(p)
               \/ \E pk \in Pkgs : pk.path \notin DOMAIN imp /\ AddImport(pk)
               \/ (Len(hist) % 7 = 6 /\ ListImports)
               \/ (Len(hist) % 5 = 4 /\ \E n \in AddNames : NameExists(n))
DeepSpec == Init /\ [][NextDeep]_vars

-----------------------------------------------------------------------------
(* Contract (property C15) *)

\* every name returned by the allocation call differs from every name visible before
Fresh == [][last'.op = "alloc" /\ Len(hist') > Len(hist) => last'.res \notin visible /\ last'.res \in visible']_vars
\* suggestion without allocation has no effect
SuggestIsPure == [][last'.op = "suggest" /\ Len(hist') > Len(hist) => visible' = visible /\ last'.res \notin visible]_vars
\* a name reported as existing stays existing (within one scope)
ExistingStaysExisting == [][last'.op # "newscope" => visible \subseteq visible']_vars
ExistsIsTruthful == last.op = "exists" => (last.res <=> last.name \in visible)
\* same qualifier for the same path, every time
SameQualifierForSamePath == [][\A p \in DOMAIN imp : p \in DOMAIN imp' /\ imp'[p] = imp[p]]_vars
ImportReplyIsRecorded == last.op = "import" /\ ~last.nil => last.path \in DOMAIN imp /\ imp[last.path] = last.res
\* distinct qualifiers for distinct paths, even when package names coincide
DistinctQualifiers == \A p, q \in DOMAIN imp : p # q => imp[p] # imp[q]
QualifierNonEmpty == \A p \in DOMAIN imp : imp[p] # ""
ImportsListsEachPathOnce == last.op = "imports" => last.paths = DOMAIN imp
QualReplyMatches == last.op = "qual" => (last.found <=> last.path \in DOMAIN imp) /\ (last.found => last.res = imp[last.path])
NoSelfImportInPackage == inpkg => DstPath \notin DOMAIN imp
\* the names somebody other than the variable mechanism registered in the current scope: qualifiers the scope saw
\* when it was created, AddName / AllocateName since, and the qualifiers / type names registered by AddVar
LastScope(h) == IF \E i \in 1..Len(h) : h[i].op = "newscope"
                THEN CHOOSE i \in 1..Len(h) : h[i].op = "newscope" /\ \A j \in (i+1)..Len(h) : h[j].op # "newscope"
                ELSE 0
OthersOf(h) == LET k == LastScope(h) IN
     {h[i].res : i \in {j \in 1..k : h[j].op = "import" /\ ~h[j].nil}}
\cup {h[i].q : i \in {j \in 1..Len(h) : h[j].op = "addvar" /\ h[j].path # "" /\ ~h[j].nil}}
\cup {h[i].tstr : i \in {j \in (k+1)..Len(h) : h[j].op = "addvar" /\ h[j].tident}}
\cup {h[i].name : i \in {j \in (k+1)..Len(h) : h[j].op = "add"}}
\cup {h[i].res : i \in {j \in (k+1)..Len(h) : h[j].op = "alloc"}}
\* after ResolveVariableNameCollisions the variables' names are pairwise distinct and differ from every name
\* somebody else registered in the scope (qualifier, type name, reservation, allocation)
ResolveIsFresh == [][last'.op = "resolve" /\ Len(hist') > Len(hist) =>
                       /\ \A i, j \in 1..Len(last'.names) : i # j => last'.names[i] # last'.names[j]
                       /\ ToSet(last'.names) \cap OthersOf(hist) = {}
                       /\ ToSet(last'.names) \subseteq visible']_vars

TypeOK == /\ visible \subseteq STRING
          /\ DOMAIN imp \subseteq Paths \cup {pk.path : pk \in VarPkgs}

-----------------------------------------------------------------------------
(* Export: every generated transition is printed once with a representative history leading to it,
   so each transition of the state graph becomes one implementation test (replayed by drivers/alloc). *)
Emit == IF Len(hist) > 0 /\ TLCGet("config").mode = "bfs"
        THEN PrintT(<<"CASE", ToJson([inpkg |-> inpkg, ops |-> hist])>>) ELSE TRUE
EmitAtDepth == IF Len(hist) = MaxHist THEN PrintT(<<"CASE", ToJson([inpkg |-> inpkg, ops |-> hist])>>) ELSE TRUE
=============================================================================
