------------------------------- MODULE Alloc -------------------------------
(***************************************************************************)
(* C15 -- the two allocators mockery hands to templates:                   *)
(*   template.MethodScope  (AddName / NameExists / SuggestName /           *)
(*                          AllocateName)             method_scope.go:64-93 *)
(*   template.Registry     (AddImport / Imports / PkgQualifier /           *)
(*                          MethodScope())            registry.go:78-161    *)
(*                                                                         *)
(* Two layers.  The Impl layer is shaped like the code: suffix search      *)
(* p, p1, p2, ... for names, alias search q, q0, q1, ... for qualifiers,   *)
(* the in-package self import ignored.  The Contract layer is the property *)
(* (C15) as invariants / action properties over the same variables and the *)
(* last reply; it never says WHICH fresh name is returned.                 *)
(***************************************************************************)
EXTENDS Naturals, Sequences, FiniteSets, TLC, Json

CONSTANTS Prefixes,     \* strings used as AllocateName/SuggestName prefixes
          AddNames,     \* strings used with AddName / NameExists
          Pkgs,         \* set of [name |-> , path |-> ] records offered to AddImport
          DstPath,      \* destination package path of the file
          MaxHist       \* bound on history length (state constraint)

VARIABLES visible,      \* names visible in the current method scope
          imp,          \* path -> qualifier        (Registry.imports)
          inpkg,        \* Registry.inPackage
          last,         \* last operation with its reply (observation)
          hist          \* all operations so far (observation; hidden by VIEW)

vars == <<visible, imp, inpkg, last, hist>>
view == <<visible, imp, inpkg, last>>

Name(p, i) == IF i = 0 THEN p ELSE p \o ToString(i)
Alias(q, i) == IF i = 0 THEN q ELSE q \o ToString(i - 1)

Range(f) == {f[x] : x \in DOMAIN f}
Quals == Range(imp)

\* method_scope.go:68-83
SuggestImpl(p, vis) ==
  LET K == Cardinality(vis) + 1
      k == CHOOSE k \in 0..K : Name(p, k) \notin vis /\ \A j \in 0..(k-1) : Name(p, j) \in vis
  IN Name(p, k)

\* registry.go:112-149
AliasImpl(q, taken) ==
  LET K == Cardinality(taken) + 1
      k == CHOOSE k \in 0..K : Alias(q, k) \notin taken /\ \A j \in 0..(k-1) : Alias(q, j) \in taken
  IN Alias(q, k)

Paths == {pk.path : pk \in Pkgs}

\* Imports(): list sorted by path.  Strings are not ordered in TLC, so the model carries
\* the *set*; sortedness of the real reply is checked by the trace spec with PathOrder.
Init == /\ visible = {}
        /\ imp = << >>
        /\ inpkg \in BOOLEAN
        /\ last = [op |-> "init"]
        /\ hist = << >>

Do(rec) == /\ last' = rec
           /\ hist' = Append(hist, rec)

AddName(n) == /\ visible' = visible \cup {n}
              /\ Do([op |-> "add", name |-> n])
              /\ UNCHANGED <<imp, inpkg>>

NameExists(n) == /\ Do([op |-> "exists", name |-> n, res |-> (n \in visible)])
                 /\ UNCHANGED <<visible, imp, inpkg>>

SuggestName(p) == /\ Do([op |-> "suggest", prefix |-> p, res |-> SuggestImpl(p, visible)])
                  /\ UNCHANGED <<visible, imp, inpkg>>

AllocateName(p) == LET r == SuggestImpl(p, visible) IN
                   /\ visible' = visible \cup {r}
                   /\ Do([op |-> "alloc", prefix |-> p, res |-> r])
                   /\ UNCHANGED <<imp, inpkg>>

Extend(f, k, v) == [x \in DOMAIN f \cup {k} |-> IF x = k THEN v ELSE f[x]]

AddImport(pk) ==
  IF pk.path = DstPath /\ inpkg
  THEN /\ Do([op |-> "import", name |-> pk.name, path |-> pk.path, res |-> "", nil |-> TRUE])
       /\ UNCHANGED <<visible, imp, inpkg>>
  ELSE IF pk.path \in DOMAIN imp
  THEN /\ Do([op |-> "import", name |-> pk.name, path |-> pk.path, res |-> imp[pk.path], nil |-> FALSE])
       /\ UNCHANGED <<visible, imp, inpkg>>
  ELSE LET q == AliasImpl(pk.name, Quals) IN
       /\ imp' = Extend(imp, pk.path, q)
       /\ Do([op |-> "import", name |-> pk.name, path |-> pk.path, res |-> q, nil |-> FALSE])
       /\ UNCHANGED <<visible, inpkg>>

ListImports == /\ Do([op |-> "imports", paths |-> DOMAIN imp])
               /\ UNCHANGED <<visible, imp, inpkg>>

PkgQualifier(p) == /\ Do([op |-> "qual", path |-> p, found |-> (p \in DOMAIN imp),
                          res |-> IF p \in DOMAIN imp THEN imp[p] ELSE ""])
                   /\ UNCHANGED <<visible, imp, inpkg>>

\* Registry.MethodScope(): a fresh scope that sees the qualifiers imported so far
NewScope == /\ visible' = Quals
            /\ Do([op |-> "newscope"])
            /\ UNCHANGED <<imp, inpkg>>

Next == /\ Len(hist) < MaxHist
        /\ \/ \E n \in AddNames : AddName(n) \/ NameExists(n)
           \/ \E p \in Prefixes : SuggestName(p) \/ AllocateName(p)
           \/ \E pk \in Pkgs : AddImport(pk)
           \/ ListImports
           \/ \E p \in Paths : PkgQualifier(p)
           \/ NewScope

Spec == Init /\ [][Next]_vars

\* deep behaviours: one scope and one registry growing without ever being reset (suffix / alias index >= 10)
NextDeep == /\ Len(hist) < MaxHist
            /\ \/ \E p \in Prefixes : AllocateName(p)
               \/ \E pk \in Pkgs : pk.path \notin DOMAIN imp /\ AddImport(pk)
               \/ (Len(hist) % 7 = 6 /\ ListImports)
               \/ (Len(hist) % 5 = 4 /\ \E n \in AddNames : NameExists(n))
DeepSpec == Init /\ [][NextDeep]_vars

-----------------------------------------------------------------------------
(* Contract (property C15) *)

\* every name returned by the allocation call differs from every name visible before
Fresh == [][last'.op = "alloc" /\ Len(hist') > Len(hist) => last'.res \notin visible /\ last'.res \in visible']_vars
\* suggestion without allocation has no effect
SuggestIsPure == [][last'.op = "suggest" /\ Len(hist') > Len(hist) => visible' = visible /\ last'.res \notin visible]_vars
\* a name reported as existing stays existing (within one scope)
ExistingStaysExisting == [][last'.op # "newscope" => visible \subseteq visible']_vars
ExistsIsTruthful == last.op = "exists" => (last.res <=> last.name \in visible)
\* same qualifier for the same path, every time
SameQualifierForSamePath == [][\A p \in DOMAIN imp : p \in DOMAIN imp' /\ imp'[p] = imp[p]]_vars
ImportReplyIsRecorded == last.op = "import" /\ ~last.nil => last.path \in DOMAIN imp /\ imp[last.path] = last.res
\* distinct qualifiers for distinct paths, even when package names coincide
DistinctQualifiers == \A p, q \in DOMAIN imp : p # q => imp[p] # imp[q]
QualifierNonEmpty == \A p \in DOMAIN imp : imp[p] # ""
ImportsListsEachPathOnce == last.op = "imports" => last.paths = DOMAIN imp
QualReplyMatches == last.op = "qual" => (last.found <=> last.path \in DOMAIN imp) /\ (last.found => last.res = imp[last.path])
NoSelfImportInPackage == inpkg => DstPath \notin DOMAIN imp

TypeOK == /\ visible \subseteq STRING
          /\ DOMAIN imp \subseteq Paths

-----------------------------------------------------------------------------
(* Export: every generated transition is printed once with a representative history leading to it,
   so each transition of the state graph becomes one implementation test (replayed by drivers/alloc). *)
Emit == IF Len(hist) > 0 /\ TLCGet("config").mode = "bfs"
        THEN PrintT(<<"CASE", ToJson([inpkg |-> inpkg, ops |-> hist])>>) ELSE TRUE
EmitAtDepth == IF Len(hist) = MaxHist THEN PrintT(<<"CASE", ToJson([inpkg |-> inpkg, ops |-> hist])>>) ELSE TRUE
=============================================================================
