------------------------- MODULE TemplateResolveMC -------------------------
(* Model constants for TemplateResolve.tla: the cases are built from Layout.tla (where things are, what the
   documented / code-shaped bindings are) and from families of reference-graph shapes. *)
EXTENDS TemplateResolve

L == INSTANCE Layout

-----------------------------------------------------------------------------
(* Interfaces: exportedness decides Mock/mock.  The string functions below are abstraction tables; the
   harness recomputes every "variable|pipeline" binding independently and refuses to run (exit 2) on
   disagreement.  Their semantics is C16's business; here only that the result is plumbed through.
   %O% / %o% stand for the Greek capital / small omega (an exported non-ASCII identifier): TLC's disk-backed state
   queue does not round-trip non-ASCII strings, so the harness substitutes them like the root placeholder. *)
\* %C% = two CJK letters: an identifier whose first letter has no case at all; _Shouty: an underscore, then upper case
Ifaces4 == {"FooBar", "barBaz", "%O%mega", "_hid"}
Ifaces  == Ifaces4 \cup {"_Shouty", "%C%"}
\* A0Unrelated is declared in ANOTHER file of the same package (a0.go): used by the sibling family only, so that
\* InterfaceFile differs between interfaces of one package
IfacesX == Ifaces \cup {"A0Unrelated"}
Exported == [n \in IfacesX |-> n \in {"FooBar", "%O%mega", "A0Unrelated"}]
IfKey(n) == CASE n = "FooBar" -> "F" [] n = "barBaz" -> "b" [] n = "%O%mega" -> "O" [] n = "_hid" -> "h"
              [] n = "_Shouty" -> "S" [] n = "%C%" -> "C" [] n = "A0Unrelated" -> "A"
DirKey(d) == CASE d = << >> -> "R" [] d = <<"w">> -> "r" [] d = <<"w", "a">> -> "a" [] d = <<"w", "a", "b">> -> "b"
               [] d = <<"w", "k">> -> "k" [] OTHER -> "n"

Lower      == [n \in IfacesX |-> CASE n = "FooBar" -> "foobar" [] n = "barBaz" -> "barbaz" [] n = "%O%mega" -> "%o%mega" [] n = "_hid" -> "_hid" [] n = "_Shouty" -> "_shouty" [] n = "%C%" -> "%C%" [] n = "A0Unrelated" -> "a0unrelated"]
Upper      == [n \in IfacesX |-> CASE n = "FooBar" -> "FOOBAR" [] n = "barBaz" -> "BARBAZ" [] n = "%O%mega" -> "%O%MEGA" [] n = "_hid" -> "_HID" [] n = "_Shouty" -> "_SHOUTY" [] n = "%C%" -> "%C%" [] n = "A0Unrelated" -> "A0UNRELATED"]
FirstLower == [n \in IfacesX |-> CASE n = "FooBar" -> "fooBar" [] n = "barBaz" -> "barBaz" [] n = "%O%mega" -> "%o%mega" [] n = "_hid" -> "_hid" [] n = "_Shouty" -> "_Shouty" [] n = "%C%" -> "%C%" [] n = "A0Unrelated" -> "a0Unrelated"]
Snake      == [n \in IfacesX |-> CASE n = "FooBar" -> "foo_bar" [] n = "barBaz" -> "bar_baz" [] OTHER -> UNSPECVAL]
FirstUpper == [n \in IfacesX |-> CASE n = "FooBar" -> "FooBar" [] n = "barBaz" -> "BarBaz" [] n = "%O%mega" -> "%O%mega" [] n = "_hid" -> "_hid" [] n = "_Shouty" -> "_Shouty" [] n = "%C%" -> "%C%" [] n = "A0Unrelated" -> "A0Unrelated"]
Kebab      == [n \in IfacesX |-> CASE n = "FooBar" -> "foo-bar" [] n = "barBaz" -> "bar-baz" [] OTHER -> UNSPECVAL]
\* operands chosen so that each function differs from its nearest neighbour on at least one interface name:
\*   trimSuffix "za" / trimPrefix "ab" leave every name alone, trimRight "za" / trimLeft "ab" (cutsets) would not
\*   (barBaz -> barB / rBaz); replace "/" "_" 1 differs from replaceAll on paths with two or more slashes
TrimBaz    == [n \in IfacesX |-> CASE n = "barBaz" -> "bar" [] OTHER -> n]          \* trimSuffix "Baz"

\* the file an interface is declared in
SrcFileOf(d, n) == IF n = "A0Unrelated" THEN "a0.go" ELSE L!SrcFile(d)
SrcStemOf(d, n) == IF n = "A0Unrelated" THEN "a0" ELSE L!SrcStem(d)

PathUnderscore(d) == IF Len(d) = 1 THEN "example.com_w" ELSE "example.com_w_" \o
                       (IF Len(d) = 2 THEN d[2] ELSE d[2] \o "_" \o d[3])

PathUnderscore1(d) == IF Len(d) = 1 THEN "example.com_w" ELSE "example.com_w/" \o L!JoinSegs(Tail(d))

ProbeTemplate == "file://" \o L!RootStr \o "/probe.templ"

\* the bindings as a record: variable, or variable__pipeline for a function pipeline applied to it
\* ds: the spelling (segments) of the package directory d in this view
Bindings(d, ds, n, tmpl, configDir, ifaceDirRel) ==
  [ConfigDir |-> configDir, InterfaceDirRelative |-> ifaceDirRel,
   InterfaceDir |-> L!Abs(ds), InterfaceFile |-> L!Abs(ds) \o "/" \o SrcFileOf(d, n), InterfaceName |-> n,
   Mock |-> IF Exported[n] THEN "Mock" ELSE "mock",
   SrcPackageName |-> L!PkgName(d), SrcPackagePath |-> L!PkgPath(d), Template |-> tmpl,
   InterfaceName__lower |-> Lower[n], InterfaceName__upper |-> Upper[n],
   InterfaceName__firstLower |-> FirstLower[n], InterfaceName__snakecase |-> Snake[n],
   InterfaceName__trimBaz |-> TrimBaz[n],
   Mock__lower |-> "mock",
   SrcPackagePath__replSlash |-> PathUnderscore(d),
   InterfaceName__firstUpper |-> FirstUpper[n], InterfaceName__kebabcase |-> Kebab[n],
   InterfaceName__trimSufZa |-> n, InterfaceName__trimPreAb |-> n,
   SrcPackagePath__repl1 |-> PathUnderscore1(d),
   InterfaceFile__base |-> SrcFileOf(d, n), InterfaceFile__baseTrimGo |-> SrcStemOf(d, n),
   InterfaceDir__dir |-> L!Abs(L!Parent(ds)), InterfaceDir__base |-> L!Last(ds)]

\* (the last element of a directory that IS the symlink has no documented value: the link's name or the target's)
DocData(l, d, n, tmpl)  == [Bindings(d, d, n, tmpl, L!DocConfigDir(l), L!DocIfaceDirRel(l, d))
                            EXCEPT !.InterfaceDir__base = IF l.via = "symroot" /\ Len(d) = 1 THEN UNSPECVAL ELSE @]
ImplData(l, d, n, tmpl) == Bindings(d, L!IfSegs(l, d), n, tmpl, L!ImplConfigDir(l), L!ImplIfaceDirRel(l, d))

-----------------------------------------------------------------------------
(* variables a value mentions (through quotes too) *)
RECURSIVE SeqUses(_)
SeqUses(ts) ==
  IF Len(ts) = 0 THEN {}
  ELSE (CASE ts[1].k = "var"  -> {ts[1].v}
          [] ts[1].k = "pipe" -> {PipeKey(ts[1].v, ts[1].f)}
          [] ts[1].k = "q"    -> SeqUses(ts[1].body)
          [] OTHER            -> {}) \cup SeqUses(Tail(ts))
UsesOf(vs) == (UNION {SeqUses(vs[p]) : p \in Params}) \ {"StructName", "StructName__lower"}

-----------------------------------------------------------------------------
(* Shapes.  `tag` is a short unique literal that keeps the output files of different cases apart. *)
Base(tag) ==
  [dir        |-> <<Var("InterfaceDir"), Lit("/o_" \o tag)>>,
   filename   |-> <<Lit("mock.go")>>,
   pkgname    |-> <<Var("SrcPackageName")>>,
   structname |-> <<Var("Mock"), Var("InterfaceName")>>,
   schema     |-> <<Var("Template"), Lit(".schema.json")>>]

\* --- binding family: every documented variable, one layout-sensitive variable per shape -----------------
BindingIds == {"B0", "B1", "B2", "B3", "B4", "B5", "B6", "B7", "B8"}
BindingShape(sid, tag) ==
  CASE sid = "B0" -> Base(tag)
    [] sid = "B1" -> [Base(tag) EXCEPT !.dir = <<Var("ConfigDir"), Lit("/out/" \o tag)>>]
    [] sid = "B2" -> [Base(tag) EXCEPT !.dir = <<Lit("out/" \o tag \o "/"), Var("InterfaceDirRelative")>>]
    [] sid = "B3" -> [Base(tag) EXCEPT !.dir = <<Pipe("InterfaceDir", "dir"), Lit("/up_" \o tag)>>,
                                      !.filename = <<Pipe("InterfaceFile", "baseTrimGo"), Lit("_mock.go")>>,
                                      !.pkgname = <<Lit("p_"), Pipe("InterfaceDir", "base")>>]
    [] sid = "B4" -> [Base(tag) EXCEPT !.schema = <<Lit("file://"), Var("ConfigDir"), Lit("/sch/" \o tag \o ".json")>>]
    [] sid = "B5" -> [Base(tag) EXCEPT !.dir = <<Q(<<Var("ConfigDir")>>), Lit("/q/" \o tag)>>]
    [] sid = "B6" -> [Base(tag) EXCEPT !.dir = <<Lit("out/" \o tag \o "/"), Pipe("SrcPackagePath", "replSlash")>>,
                                      !.filename = <<Pipe("InterfaceName", "snakecase"), Lit(".go")>>,
                                      !.pkgname = <<Pipe("InterfaceName", "lower")>>,
                                      !.structname = <<Pipe("Mock", "lower"), Lit("S"), Pipe("InterfaceName", "firstLower"),
                                                       Pipe("InterfaceName", "trimBaz"), Pipe("InterfaceName", "upper")>>]
    [] sid = "B8" -> [Base(tag) EXCEPT !.dir = <<Var("InterfaceDir"), Lit("/../sib_" \o tag \o "/./x")>>]   \* a result with .. and .
    [] sid = "B7" -> [Base(tag) EXCEPT !.dir = <<Lit("out/" \o tag \o "/"), Pipe("SrcPackagePath", "repl1")>>,
                                      !.filename = <<Pipe("InterfaceName", "kebabcase"), Lit("_"), Pipe("InterfaceFile", "baseTrimGo"), Lit(".go")>>,
                                      !.pkgname = <<Pipe("InterfaceName", "trimPreAb"), Lit("_"), Pipe("InterfaceName", "trimSufZa")>>,
                                      !.structname = <<Pipe("InterfaceName", "firstUpper"), Lit("Of"), Pipe("InterfaceFile", "base")>>]

\* --- lagging family: one parameter keeps changing for three passes after all the others are stable --------
LagIds == {"L0", "L1", "L2", "L3", "L4"}
Q3(ts) == <<Q(<<Q(<<Q(ts)>>)>>)>>
LagShape(sid, tag) ==
  CASE sid = "L0" -> [Base(tag) EXCEPT !.dir = Q3(<<Var("InterfaceDir")>>) \o <<Lit("/l_" \o tag)>>]
    [] sid = "L1" -> [Base(tag) EXCEPT !.filename = Q3(<<Pipe("InterfaceName", "lower")>>) \o <<Lit(".go")>>]
    [] sid = "L2" -> [Base(tag) EXCEPT !.pkgname = <<Lit("p")>> \o Q3(<<Var("SrcPackageName")>>)]
    [] sid = "L3" -> [Base(tag) EXCEPT !.structname = Q3(<<Var("Mock")>>) \o <<Lit("L")>>]
    [] sid = "L4" -> [Base(tag) EXCEPT !.schema = Q3(<<Var("Template")>>) \o <<Lit(".schema.json")>>]

\* --- deep family: many escape levels (slow but convergent), around the iteration cap of the code -----------
RECURSIVE QN(_, _)
QN(k, ts) == IF k = 0 THEN ts ELSE <<Q(QN(k - 1, ts))>>
DeepIds == {"D0", "D1", "D2", "D3", "D4"}
DeepShape(sid, tag) ==
  CASE sid = "D0" -> [Base(tag) EXCEPT !.structname = QN(8, <<Lit("D"), Var("InterfaceName")>>)]              \* 9 passes
    [] sid = "D1" -> [Base(tag) EXCEPT !.structname = QN(18, <<Lit("D"), Pipe("InterfaceName", "trimBaz")>>)]  \* 19: last that fits
    [] sid = "D2" -> [Base(tag) EXCEPT !.structname = QN(19, <<Lit("D"), Var("InterfaceName")>>)]             \* 20: first that does not
    [] sid = "D3" -> [Base(tag) EXCEPT !.structname = QN(22, <<Lit("D"), Var("InterfaceName")>>)]
    [] sid = "D4" -> [Base(tag) EXCEPT !.dir = QN(18, <<Var("InterfaceDir")>>) \o <<Lit("/deep_" \o tag)>>,
                                      !.filename = <<Var("StructName"), Lit(".go")>>]

\* --- resolution family: reference graphs ------------------------------------------------------------------
SChoice(x) ==
  CASE x = "s0" -> <<Var("Mock"), Var("InterfaceName")>>                     \* the default
    [] x = "s1" -> <<Lit("Plain")>>
    [] x = "s2" -> <<Lit("X"), Var("StructName")>>                           \* self-reference: grows each pass
    [] x = "s3" -> <<Q(<<Var("StructName")>>)>>                              \* self-reference through an escape: period 2
    [] x = "s4" -> <<Var("StructName")>>                                     \* self-reference that is its own fixpoint
    [] x = "s5" -> <<Q(<<Var("Mock")>>), Var("InterfaceName")>>              \* one escape level
    [] x = "s6" -> <<Q(<<Q(<<Var("Mock")>>)>>), Lit("N")>>                   \* two escape levels
    [] x = "s7" -> <<Q(<<Q(<<Q(<<Q(<<Lit("D"), Var("InterfaceName")>>)>>)>>)>>)>>   \* four levels
    [] x = "s8" -> <<Q(<<Lit("Y"), Var("StructName")>>)>>                    \* grows every second pass
    [] x = "s9" -> <<Lit("S"), Pipe("InterfaceName", "upper")>>
    [] x = "sB" -> <<Lit("B"), Bad, Lit("x")>>                                \* invalid template syntax
    [] x = "sQ" -> <<Q(<<Lit("Q"), Bad>>), Var("InterfaceName")>>            \* ... that only appears after one pass
FChoice(x, tag) ==
  CASE x = "f0" -> <<Lit("mock.go")>>
    [] x = "f1" -> <<Var("StructName"), Lit(".go")>>                         \* reference to another templated value
    [] x = "f2" -> <<Q(<<Var("StructName")>>), Lit("_q.go")>>                \* reference that appears one pass later
    [] x = "f3" -> <<Pipe("StructName", "lower"), Lit(".go")>>               \* function of unrendered text
PChoice(x) ==
  CASE x = "p0" -> <<Var("SrcPackageName")>>
    [] x = "p1" -> <<Lit("p"), Pipe("InterfaceName", "lower")>>
    [] x = "p2" -> <<Var("StructName")>>
DChoice(x, tag) ==
  CASE x = "d0" -> <<Var("InterfaceDir"), Lit("/o_" \o tag)>>
    [] x = "d1" -> <<Lit("out/" \o tag \o "/"), Var("StructName")>>
    [] x = "d2" -> <<Q(<<Var("InterfaceDir")>>), Lit("/" \o tag), Q(<<Q(<<Lit("/z")>>)>>)>>
TChoice(x, tag) ==
  CASE x = "t0" -> <<Var("Template"), Lit(".schema.json")>>                  \* the default
    [] x = "t1" -> <<Lit("file://"), Var("InterfaceDir"), Lit("/sch_" \o tag \o "/"), Var("StructName"), Lit(".json")>>
    [] x = "t2" -> <<Q(<<Var("Template")>>), Lit(".schema.json")>>
    [] x = "t3" -> <<Q(<<Q(<<Q(<<Var("Template")>>)>>)>>), Lit(".schema.json")>>   \* still changing when the rest is stable

SIds == {"s0", "s1", "s2", "s3", "s4", "s5", "s6", "s7", "s8", "s9", "sB", "sQ"}
FIds == {"f0", "f1", "f2", "f3"}
PIds == {"p0", "p1", "p2"}
DIds == {"d0", "d1", "d2"}
TIds == {"t0", "t1", "t2", "t3"}

ResShape(s, f, p, d, t, tag) ==
  [dir |-> DChoice(d, tag), filename |-> FChoice(f, tag), pkgname |-> PChoice(p),
   structname |-> SChoice(s), schema |-> TChoice(t, tag)]

-----------------------------------------------------------------------------
(* Layout ids and families of layouts *)
LayoutId(l) == DirKey(l.cwd) \o "." \o l.mode \o "." \o DirKey(l.cfgdir) \o "." \o
               (IF l.decoy = L!NoDecoy THEN "n" ELSE DirKey(l.decoy) \o (IF l.dname = ".mockery.yaml" THEN "a" ELSE "")) \o
               (IF l.via = "phys" THEN "" ELSE "." \o l.via)

\* layouts where the working directory is the config directory (no known deviation)
\* (kept although no deviation is known any more: the reference-graph families need only a few layouts)
HomeLayouts == {l \in L!AllLayouts : l.via = "phys" /\ l.cfgdir = l.cwd /\ l.decoy = L!NoDecoy /\ l.mode \in {"search_yml", "flag_abs"}
                                     /\ l.cwd \in {<<"w">>, <<"w", "a">>}}

MkCase(l, d, n, sid, tmpl, vs) ==
  [id   |-> LayoutId(l) \o "/" \o sid \o IfKey(n) \o DirKey(d),
   vals |-> vs,
   uses |-> UsesOf(vs),
   data |-> DocData(l, d, n, tmpl),
   impl |-> ImplData(l, d, n, tmpl),
   meta |-> [lid |-> LayoutId(l), cwd |-> L!Abs(l.cwd), mode |-> l.mode, cfgdir |-> L!Abs(l.cfgdir),
             via |-> l.via, cwdlog |-> L!LogAbs(l, l.cwd), cfgdirlog |-> L!LogAbs(l, l.cfgdir), ifdirimpl |-> L!ImplIfaceDir(l, d),
             cfgname |-> L!CfgFileName(l.mode), param |-> L!ConfigParam(l), envparam |-> L!EnvParam(l),
             decoy |-> IF l.decoy = L!NoDecoy THEN "" ELSE L!Abs(l.decoy), decoyname |-> L!DecoyName(l), srcfile |-> SrcFileOf(d, n),
             decoy_may_win |-> L!DecoyMayWin(l),
             iface |-> n, ifdir |-> L!Abs(d), pkgpath |-> L!PkgPath(d), pkgname |-> L!PkgName(d),
             tmpl |-> tmpl, sid |-> sid, tag |-> sid \o IfKey(n) \o DirKey(d),
             exported |-> Exported[n],
             dev_configdir |-> L!DevConfigDir(l), dev_ifdirrel |-> L!DevIfaceDirRel(l, d),
             cwd_is_cfgdir |-> (l.cwd = l.cfgdir),
             found_above |-> (l.mode \in L!SearchModes /\ l.cfgdir # l.cwd)]]

BindingInit(layouts, ifaces, dirs, sids) ==
  \E l \in layouts, d \in dirs, n \in ifaces, sid \in sids :
      InitWith(MkCase(l, d, n, sid, ProbeTemplate, BindingShape(sid, sid \o IfKey(n) \o DirKey(d))))

LagInit(layouts, ifaces, dirs) ==
  \E l \in layouts, d \in dirs, n \in ifaces, sid \in LagIds :
      InitWith(MkCase(l, d, n, sid, ProbeTemplate, LagShape(sid, sid \o IfKey(n) \o DirKey(d))))

DeepInit(layouts, ifaces, dirs) ==
  \E l \in layouts, d \in dirs, n \in ifaces, sid \in DeepIds :
      InitWith(MkCase(l, d, n, sid, ProbeTemplate, DeepShape(sid, sid \o IfKey(n) \o DirKey(d))))

ResId(s, f, p, d, t) == s \o f \o p \o d \o t
ResInit(layouts, ifaces, dirs, ss, fs, ps, ds, ts) ==
  \E l \in layouts, dd \in dirs, n \in ifaces, s \in ss, f \in fs, p \in ps, d \in ds, t \in ts :
      InitWith(MkCase(l, dd, n, ResId(s, f, p, d, t), ProbeTemplate,
                      ResShape(s, f, p, d, t, ResId(s, f, p, d, t) \o IfKey(n) \o DirKey(dd))))

\* through the built-in testify template (values must be Go identifiers / file names)
TestifyInit(layouts, ifaces, dirs) ==
  \E l \in layouts, d \in dirs, n \in ifaces \ {"_hid", "_Shouty"}, sid \in {"T0", "T1"} :
      InitWith(MkCase(l, d, n, sid, "testify",
          [Base(sid \o IfKey(n) \o DirKey(d)) EXCEPT
              !.structname = IF sid = "T0" THEN <<Var("Mock"), Var("InterfaceName")>>
                             ELSE <<Q(<<Var("Mock")>>), Lit("Of"), Pipe("InterfaceName", "upper")>>,
              !.filename   = IF sid = "T0" THEN <<Lit("mock.go")>> ELSE <<Var("StructName"), Lit("_gen.go")>>,
              !.pkgname    = IF sid = "T0" THEN <<Var("SrcPackageName")>> ELSE <<Lit("p"), Pipe("InterfaceName", "lower")>>]))


\* --- sibling family: two or more interfaces of ONE package selected WITHOUT an `interfaces:` entry of their own ---------
\* The five templated values are written once (package `config:` or top level) and the interfaces are picked by
\* `all: true`, by include-interface-regex, or found by recursive discovery from the module's root package.  All members
\* of a group share the TEXT of the values; the contract (Expect, per member) is the rendering with the variables bound
\* for THAT interface -- nothing of one sibling's rendering may show in another's.  Each shape puts a per-interface
\* variable (InterfaceName, Mock, StructName, InterfaceFile) into one of the five parameters in turn.
SibIds == {"G0", "G1", "G2", "G3", "G4", "G5", "G6"}
SibShape(sid, tag) ==
  LET perDir   == <<Var("InterfaceDir"), Lit("/g_" \o tag \o "/"), Var("InterfaceName")>>
      constDir == <<Var("InterfaceDir"), Lit("/g_" \o tag)>>
      perFile  == <<Pipe("InterfaceName", "lower"), Lit("_"), Pipe("InterfaceFile", "baseTrimGo"), Lit(".go")>> IN
  CASE sid = "G0" -> [Base(tag) EXCEPT !.dir = <<Var("InterfaceDir"), Lit("/g_" \o tag \o "/"), Var("Mock"), Lit("_"),
                                                 Pipe("InterfaceFile", "baseTrimGo"), Lit("_"), Var("InterfaceName")>>]
    [] sid = "G1" -> [Base(tag) EXCEPT !.dir = constDir, !.filename = perFile]                     \* filename: InterfaceName, InterfaceFile
    [] sid = "G2" -> [Base(tag) EXCEPT !.dir = perDir, !.pkgname = <<Lit("p"), Pipe("InterfaceName", "lower")>>]
    [] sid = "G3" -> [Base(tag) EXCEPT !.dir = constDir, !.filename = <<Var("StructName"), Lit(".go")>>,
                                      !.structname = <<Var("Mock"), Lit("S"), Pipe("InterfaceName", "upper")>>]
    [] sid = "G4" -> [Base(tag) EXCEPT !.dir = perDir,
                                      !.schema = <<Lit("file://"), Var("InterfaceDir"), Lit("/gs_" \o tag \o "/"), Var("Mock"), Lit("_"), Var("StructName"), Lit(".json")>>]
    [] sid = "G5" -> [Base(tag) EXCEPT !.dir = constDir, !.filename = perFile,
                                      !.pkgname = <<Var("Mock"), Lit("p_"), Pipe("InterfaceFile", "baseTrimGo"), Lit("_"), Var("StructName")>>,
                                      !.structname = <<Var("Mock"), Pipe("InterfaceFile", "baseTrimGo"), Lit("_"), Var("InterfaceName")>>]
    [] sid = "G6" -> [Base(tag) EXCEPT !.dir = <<Var("InterfaceDir"), Lit("/g_" \o tag \o "/"), Var("StructName")>>,
                                      !.filename = <<Var("Mock"), Lit("_"), Pipe("InterfaceName", "firstLower"), Lit(".go")>>,
                                      !.pkgname = <<Q(<<Pipe("InterfaceName", "upper")>>), Lit("p")>>,
                                      !.structname = <<Q(<<Var("Mock")>>), Lit("Of"), Var("InterfaceName")>>,
                                      !.schema = <<Lit("file://"), Var("InterfaceFile"), Lit("."), Var("InterfaceName"), Lit("." \o tag \o ".json")>>]
    [] sid = "GT" -> [Base(tag) EXCEPT !.dir = <<Var("InterfaceDir"), Lit("/g_" \o tag \o "/"), Pipe("InterfaceName", "lower")>>,   \* one package per mock
                                      !.pkgname = <<Pipe("InterfaceName", "lower"), Lit("mock")>>]

SibSelects == {"all", "regex", "recursive"}
SibLevels  == {"pkg", "root"}
SibMembers(sel) == IF sel = "regex" THEN {"FooBar", "_hid", "A0Unrelated"} ELSE IfacesX
SelKey(sel) == CASE sel = "all" -> "a" [] sel = "regex" -> "x" [] sel = "recursive" -> "r"
\* the package the config names: the one of the group, or (recursive) the root package of the module
SibCfgDir(sel, d) == IF sel = "recursive" THEN <<"w">> ELSE d
SibCase(l, d, n, sid, sel, lvl, tmpl) ==
  LET gid == sid \o "." \o SelKey(sel) \o lvl \o "." \o DirKey(SibCfgDir(sel, d))
      c   == MkCase(l, d, n, gid, tmpl, SibShape(sid, sid \o SelKey(sel) \o lvl)) IN
  [c EXCEPT !.meta = @ @@ [group |-> LayoutId(l) \o "/" \o gid, select |-> sel, glevel |-> lvl,
                           cfgpkg |-> L!PkgPath(SibCfgDir(sel, d)), members |-> SibMembers(sel)]]
SibInit(layouts, dirs, sels, lvls, sids) ==
  \E l \in layouts, sel \in sels, lvl \in lvls, sid \in sids :
    \E d \in (IF sel = "recursive" THEN L!ModDirs ELSE dirs), n \in SibMembers(sel) :
      InitWith(SibCase(l, d, n, sid, sel, lvl, ProbeTemplate))
\* the documented one-package-per-mock layout through the built-in testify template
SibTestifyInit(layouts, dirs, lvls) ==
  \E l \in layouts, lvl \in lvls, d \in dirs, n \in {"FooBar", "barBaz", "A0Unrelated"} :
      InitWith([SibCase(l, d, n, "GT", "regex", lvl, "testify") EXCEPT !.meta.members = {"FooBar", "barBaz", "A0Unrelated"}])

AllDirs == L!ModDirs
HomeW == {l \in HomeLayouts : l.mode = "search_yml" /\ l.cwd = <<"w">>}
HomeA == {l \in HomeLayouts : l.mode = "flag_abs" /\ l.cwd = <<"w", "a">>}

\* --- quick: every layout x binding family (two interfaces, the deepest package), a slice of the reference graphs
InitQuick ==
  \/ BindingInit(L!AllLayouts, {"FooBar"}, {<<"w", "a", "b">>}, BindingIds)
  \/ BindingInit({l \in L!AllLayouts : l.decoy = L!NoDecoy}, {"barBaz"}, {<<"w", "k">>}, {"B0", "B1", "B2"})
  \/ BindingInit(HomeLayouts, Ifaces, AllDirs, BindingIds)
  \/ LagInit(HomeLayouts, {"FooBar", "_hid"}, {<<"w", "a">>})
  \/ DeepInit(HomeW, {"barBaz"}, {<<"w", "k">>})
  \/ ResInit(HomeW, {"FooBar", "barBaz"}, {<<"w", "a">>}, SIds, FIds, {"p0", "p2"}, {"d0", "d1"}, {"t0", "t1"})
  \/ ResInit(HomeA, {"%O%mega", "_hid"}, {<<"w", "k">>}, SIds, {"f0", "f1"}, PIds, {"d0", "d2"}, {"t0", "t2"})
  \/ TestifyInit({l \in HomeLayouts : l.mode = "search_yml"}, Ifaces4, {<<"w", "a", "b">>})
  \/ SibInit(HomeW, {<<"w", "a">>}, SibSelects, SibLevels, SibIds)
  \/ SibInit(HomeA, {<<"w", "k">>}, {"all", "regex"}, SibLevels, SibIds)
  \/ SibTestifyInit(HomeW, {<<"w", "a", "b">>}, SibLevels)

\* --- thorough: everything
InitThorough ==
  \/ BindingInit(L!AllLayouts, Ifaces4, {<<"w", "a", "b">>, <<"w">>}, BindingIds)
  \/ BindingInit(HomeLayouts, Ifaces, AllDirs, BindingIds)
  \/ ResInit(HomeW, Ifaces4, {<<"w", "a">>}, SIds, FIds, PIds, DIds, TIds)
  \/ ResInit(HomeLayouts \ HomeW, {"FooBar", "_hid"}, {<<"w", "k">>}, SIds, FIds, PIds, DIds, TIds)
  \/ TestifyInit(HomeLayouts, Ifaces4, AllDirs)
  \/ LagInit(HomeLayouts, Ifaces4, AllDirs)
  \/ DeepInit(HomeLayouts, Ifaces4, {<<"w", "k">>, <<"w">>})
  \/ SibInit(HomeLayouts, AllDirs, SibSelects, SibLevels, SibIds)
  \/ SibTestifyInit(HomeLayouts, AllDirs, SibLevels)

\* --- tiny: for the liveness check and the interleaved (Go map order) check
InitTiny == ResInit(HomeW, {"FooBar"}, {<<"w", "a">>}, SIds, FIds, {"p0", "p2"}, {"d0", "d2"}, {"t0", "t2"})

InitTinyQuick == ResInit(HomeW, {"FooBar"}, {<<"w", "a">>}, SIds, FIds, {"p2"}, {"d2"}, {"t0", "t2"})

SpecTiny      == InitTiny /\ [][Next]_vars /\ WF_vars(Next)
SpecTinyQuick == InitTinyQuick /\ [][Next]_vars /\ WF_vars(Next)

-----------------------------------------------------------------------------
(* Layout.tla's own claims, evaluated over every layout (ASSUME = checked once by TLC at start-up) *)
ASSUME PrintT(<<"SPELLINGS", ToJson(Spellings)>>)
ASSUME \A l \in L!AllLayouts : L!RealConfigIsUsed(l)
ASSUME \A l \in L!AllLayouts : L!NoKnownDeviation(l)
\* vacuity: config found above the cwd, given explicitly elsewhere, undocumented relative dir, both names, flag+env
ASSUME \E l \in L!AllLayouts : l.mode \in L!SearchModes /\ l.cfgdir # l.cwd
ASSUME \E l \in L!AllLayouts : l.mode \in L!ExplicitModes /\ l.cfgdir # l.cwd
ASSUME \E l \in L!AllLayouts : \E d \in L!ModDirs : L!DocIfaceDirRel(l, d) = L!UNSPEC
ASSUME \E l \in L!AllLayouts : L!DecoyMayWin(l)
\* the working directory reached through a symlinked module root / package directory, config found by searching
ASSUME \E l \in L!AllLayouts : l.via = "symroot" /\ l.mode \in L!SearchModes /\ l.cfgdir # l.cwd /\ l.cfgdir # << >>
ASSUME \E l \in L!AllLayouts : l.via = "symsub" /\ l.mode \in L!SearchModes /\ l.cfgdir = <<"w", "a">> /\ l.cwd # l.cfgdir
\* a differently named config file further up than the real one, both ways round
ASSUME \E l \in L!AllLayouts : l.mode = "search_yml" /\ l.decoy # L!NoDecoy /\ l.dname = ".mockery.yaml" /\ l.cfgdir = l.cwd
ASSUME \E l \in L!AllLayouts : l.mode = "search_yaml" /\ l.decoy # L!NoDecoy /\ l.dname = ".mockery.yml" /\ l.cfgdir # l.cwd
ASSUME \E l \in L!AllLayouts : l.mode \in L!FlagEnvModes /\ l.decoy = l.cwd /\ l.cfgdir # l.cwd
=============================================================================
