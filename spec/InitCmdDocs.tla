---------------------------- MODULE InitCmdDocs ----------------------------
(* The documented defaults C18 refers to, transcribed from /repo/docs/configuration.md.  Values are JSON
   text so that booleans, strings, lists and maps compare as strings.  checks/c18.py re-reads the document
   at start-up and refuses to run (exit 2, not a verdict) when it no longer says this. *)

\* docs/configuration.md, the `mockery init` example (values as JSON text).  checks/c18.py re-reads the
\* document at start-up and refuses to run (exit 2) when it no longer says this.
MCDocInit ==
  [k \in {"all", "dir", "filename", "force-file-write", "formatter", "log-level", "structname", "pkgname",
          "recursive", "template"} |->
     CASE k = "all" -> "false"
       [] k = "dir" -> "\"{{.InterfaceDir}}\""
       [] k = "filename" -> "\"mocks_test.go\""
       [] k = "force-file-write" -> "false"
       [] k = "formatter" -> "\"goimports\""
       [] k = "log-level" -> "\"info\""
       [] k = "structname" -> "\"{{.Mock}}{{.InterfaceName}}\""
       [] k = "pkgname" -> "\"{{.SrcPackageName}}\""
       [] k = "recursive" -> "false"
       [] k = "template" -> "\"testify\""]

\* docs/configuration.md, "Parameter Descriptions", column `default` (only consulted for keys the init
\* example does not show)
MCDocTable ==
  [k \in {"_anchors", "config", "exclude-subpkg-regex", "exclude-interface-regex", "include-interface-regex",
          "replace-type", "build-tags", "require-template-schema-exists", "template-data", "template-schema"} |->
     CASE k = "_anchors" -> "{}"
       [] k = "config" -> "\"\""
       [] k = "exclude-subpkg-regex" -> "[]"
       [] k = "exclude-interface-regex" -> "\"\""
       [] k = "include-interface-regex" -> "\"\""
       [] k = "replace-type" -> "{}"
       [] k = "build-tags" -> "\"\""
       [] k = "require-template-schema-exists" -> "true"
       [] k = "template-data" -> "{}"
       [] k = "template-schema" -> "\"{{.Template}}.schema.json\""]
=============================================================================
