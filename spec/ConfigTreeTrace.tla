-------------------------- MODULE ConfigTreeTrace --------------------------
(***************************************************************************)
(* C08, trace validation: the hook events of real mockery runs (build tag  *)
(* verif) carry the values the code actually resolved -- Select (was the   *)
(* interface picked), Resolved + Collect (dir, filename, pkgname,          *)
(* structname, template-schema, template of every mock), Stage / Exists    *)
(* (template, schema, "has a schema", formatter, force-file-write of every *)
(* output file), Inject / Exclude (sub-package discovery).  Every run      *)
(* starts with a `reset` event that carries the world's configuration      *)
(* tree; the expected value of every logged field is computed from that    *)
(* tree by the contract's Effective operators.  The harness only projects  *)
(* concrete strings back to the markers they were expanded from.           *)
(***************************************************************************)
EXTENDS ConfigTreeContract, Json

CONSTANT UncheckedPkgs        \* explicitly configured sub-packages: the property does not fix how they resolve

Trace == ndJsonDeserialize("trace.ndjson")

VARIABLES l,        \* index of the next event
          cfg,      \* configuration tree of the current run
          ms,       \* the mocks the contract expects, with their effective scalar values
          used,     \* mocks already matched by a `mock` event
          files     \* [output file -> set of mocks collected into it]

tvars == <<l, cfg, ms, used, files>>

SeqToSet(s) == {s[i] : i \in 1..Len(s)}
RegexPs == {"include-interface-regex", "exclude-interface-regex"}
\* JSON has no sets: the abstract regexes (sets of letters) arrive as arrays
Norm(c) == [n \in DOMAIN c |-> [p \in DOMAIN c[n] |-> IF p \in RegexPs THEN SeqToSet(c[n][p]) ELSE c[n][p]]]

ScalarPs == {"dir", "filename", "pkgname", "structname", "template", "template-schema",
             "require-template-schema-exists", "formatter", "force-file-write"}
MockTbl(c) == {[pkg |-> m.pkg, letter |-> m.letter, from |-> m.from,
                eff |-> [p \in ScalarPs |-> EffScalar(c, p, m.from)]] : m \in {x \in Mocks(c) : x.pkg \notin UncheckedPkgs}}

IsProbe(t) == t \notin {"testify", "matryer"}

\* was interface L of Go package g to be mocked?
ExpectSelected(c, g, L) ==
  IF L \notin DeclNow(c, g) THEN FALSE
  ELSE IF g \in Configured THEN Selected(c, g, L, L \in ListedLetters(g))
  ELSE \E p \in Configured : g \in Subs[p] /\ DiscoveredBy(c, p, g) /\ Selected(c, p, L, FALSE)

Ev == Trace[l]
IsEvent(e) == l <= Len(Trace) /\ Trace[l].ev = e /\ l' = l + 1

Agrees(vals, m) == \A p \in DOMAIN vals : vals[p] = m.eff[p]

TraceInit == l = 1 /\ cfg = << >> /\ ms = {} /\ used = {} /\ files = << >>

TraceNext ==
  \/ /\ IsEvent("reset")
     /\ cfg' = Norm(Ev.cfg) /\ ms' = MockTbl(cfg') /\ used' = {} /\ files' = << >>
  \/ /\ IsEvent("select")
     /\ Ev.gen = ExpectSelected(cfg, Ev.pkg, Ev.letter)
     /\ UNCHANGED <<cfg, ms, used, files>>
  \/ /\ IsEvent("mock")                      \* Resolved + Collect of one mock
     /\ \E m \in ms \ used :
          /\ m.pkg = Ev.pkg /\ m.letter = Ev.letter /\ Agrees(Ev.vals, m)
          /\ used' = used \cup {m}
          /\ files' = [f \in DOMAIN files \cup {Ev.file} |->
                         (IF f \in DOMAIN files THEN files[f] ELSE {}) \cup (IF f = Ev.file THEN {m} ELSE {})]
     /\ UNCHANGED <<cfg, ms>>
  \/ /\ IsEvent("file")                      \* FileBegin + Stage(template) + Stage(format) + Exists of one output file
     /\ Ev.file \in DOMAIN files
     /\ \A m \in files[Ev.file] :
          /\ Agrees(Ev.vals, m)
          /\ Ev.hasschema = (~IsProbe(m.eff["template"]) \/ m.eff["require-template-schema-exists"])
     /\ UNCHANGED <<cfg, ms, used, files>>
  \/ /\ IsEvent("inject")
     /\ Discovered(cfg, Ev.parent, Ev.sub)
     /\ UNCHANGED <<cfg, ms, used, files>>
  \/ /\ IsEvent("exclude")
     /\ EffScalar(cfg, "recursive", Ev.parent) /\ Excluded(cfg, Ev.parent, Ev.sub)
     /\ UNCHANGED <<cfg, ms, used, files>>
  \/ /\ IsEvent("end")                       \* exit 0: every expected mock was resolved and collected
     /\ used = ms
     /\ UNCHANGED <<cfg, ms, used, files>>

TraceSpec == TraceInit /\ [][TraceNext]_tvars

Consumed == TLCGet("stats").diameter - 1
TraceAccepted == PrintT(<<"CONSUMED", Consumed, Len(Trace)>>) /\ Consumed = Len(Trace)
=============================================================================
