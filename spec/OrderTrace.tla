----------------------------- MODULE OrderTrace -----------------------------
(* Trace validation for C06: the complete hook trace of one real run -- both Initialize passes (validated by the
   actions of RecursiveTrace.tla), then Select / Collect / FileBegin / Stage / Write / Exit -- must be accepted
   by the CONTRACT of Order.tla for that run's world: whatever order the run drew, every package is decided by
   its settings source, every output file receives exactly the contract's mocks in declaration order, only a
   schema-violating file may fail, and the exit status and the set of written files are the contract's outcome.
   Events: reset {W} | begin | initpkg {k} | recursive {k} | exclude {a,k} | inject {a,k,existed} | end |
           select {k,j,gen} | collect {k,j,e} | filebegin {fk,fj} | stagefail {fk,fj,stage} | write {fk,fj} |
           exit {code} | fin *)
EXTENDS Order, RecursiveTrace

VARIABLES passes,    \* Initialize passes completed
          decided,   \* <<k, j>> -> gen
          tcoll,     \* file -> mocks collected so far
          begun, failedf, written,
          code       \* 9 until the Exit event
otv == <<passes, decided, tcoll, begun, failedf, written, code>>
otvars == <<W, pk, pc, pass, pending, recq, opc, cpend, colls, fpend, cache, fs, exit, l, src, seen, atBegin,
            passes, decided, tcoll, begun, failedf, written, code>>

OTInit == /\ TraceInit
          /\ opc = "init" /\ cpend = {} /\ colls = << >> /\ fpend = {} /\ cache = << >> /\ fs = << >> /\ exit = 9
          /\ passes = 0 /\ decided = << >> /\ tcoll = << >> /\ begun = {} /\ failedf = {} /\ written = {} /\ code = 9

FreshRun == /\ passes' = 0 /\ decided' = << >> /\ tcoll' = [f \in {<<k, j>> : k \in 1..Ev.W.n, j \in {0, 1, 2}} |-> << >>]
            /\ begun' = {} /\ failedf' = {} /\ written' = {} /\ code' = 9

OReset    == TReset /\ FreshRun /\ UNCHANGED ovars
OInitEv   == (TBegin \/ TInitPkg \/ TRecursive \/ TExclude \/ TInject) /\ code = 9 /\ UNCHANGED ovars /\ UNCHANGED otv
OEnd      == TEnd /\ passes' = passes + 1 /\ UNCHANGED ovars
             /\ UNCHANGED <<decided, tcoll, begun, failedf, written, code>>
Stay      == UNCHANGED <<W, pk, pc, pass, pending, recq, src, seen, atBegin>> /\ UNCHANGED ovars

Pair(a, b) == <<a, b>>
Extend(f, x, v) == [y \in DOMAIN f \cup {x} |-> IF y = x THEN v ELSE f[y]]
IsPrefix(s, t) == Len(s) <= Len(t) /\ \A n \in 1..Len(s) : s[n] = t[n]

\* ShouldGenerateInterface: `all` of the package's settings source, or listed
OSelect == /\ IsEvent("select") /\ pc = "idle" /\ passes >= 1 /\ code = 9
           /\ Ev.k \in InTable /\ Ev.j \in Ifaces
           /\ Pair(Ev.k, Ev.j) \notin DOMAIN decided
           /\ Ev.gen = (CAll(src[Ev.k]) \/ Listed(Ev.k, Ev.j))
           /\ decided' = Extend(decided, Pair(Ev.k, Ev.j), Ev.gen)
           /\ UNCHANGED <<passes, tcoll, begun, failedf, written, code>> /\ Stay

\* one mock appended to its output file: the next one of that package for that file, in declaration order
OCollect == /\ IsEvent("collect") /\ pc = "idle" /\ code = 9
            /\ Pair(Ev.k, Ev.j) \in DOMAIN decided /\ decided[Pair(Ev.k, Ev.j)]
            /\ LET f == FileOf(Ev.k, Ev.j)
                   m == [k |-> Ev.k, j |-> Ev.j, e |-> Ev.e] IN
                 /\ IsPrefix(Append(tcoll[f], m), InFile(MocksOfPkg(Ev.k, CAll(src[Ev.k])), f))
                 /\ tcoll' = [tcoll EXCEPT ![f] = Append(tcoll[f], m)]
            /\ UNCHANGED <<passes, decided, begun, failedf, written, code>> /\ Stay

OFileBegin == /\ IsEvent("filebegin") /\ pc = "idle" /\ code = 9
              /\ LET f == Pair(Ev.fk, Ev.fj) IN
                   /\ f \in DOMAIN tcoll /\ tcoll[f] # << >> /\ f \notin begun
                   /\ begun' = begun \cup {f}
              /\ UNCHANGED <<passes, decided, tcoll, failedf, written, code>> /\ Stay

\* in these worlds the only failures are schema validation of data that violates its schema, and fetching an
\* unretrievable schema for a file that requires it
OStageFail == /\ IsEvent("stagefail") /\ code = 9
              /\ LET f == Pair(Ev.fk, Ev.fj) IN
                   /\ f \in begun /\ f \notin failedf /\ f \notin written
                   /\ Ev.stage = (IF W.g.mode = "unfetchable" THEN "template" ELSE "schema")
                   /\ ~ValidAgainst(SchemaOf(src[f[1]]), src[f[1]])
                   /\ failedf' = failedf \cup {f}
              /\ UNCHANGED <<passes, decided, tcoll, begun, written, code>> /\ Stay

\* a file is written with exactly the contract's mocks, in the contract's order, and only if its data is valid
OWrite == /\ IsEvent("write") /\ code = 9
          /\ LET f == Pair(Ev.fk, Ev.fj) IN
               /\ f \in begun /\ f \notin failedf /\ f \notin written
               /\ tcoll[f] = InFile(MocksOfPkg(f[1], CAll(src[f[1]])), f)
               /\ ValidAgainst(SchemaOf(src[f[1]]), src[f[1]])
               /\ written' = written \cup {f}
          /\ UNCHANGED <<passes, decided, tcoll, begun, failedf, code>> /\ Stay

\* C06: the outcome is the contract's, whatever happened before
OExit == /\ IsEvent("exit") /\ pc = "idle" /\ code = 9
         /\ Ev.code = ContractExit
         /\ Ev.code = 0 => written = ContractFiles
         /\ code' = Ev.code
         /\ UNCHANGED <<passes, decided, tcoll, begun, failedf, written>> /\ Stay

OFin == TFin /\ code # 9 /\ UNCHANGED ovars /\ UNCHANGED otv

OTNext == OReset \/ OInitEv \/ OEnd \/ OSelect \/ OCollect \/ OFileBegin \/ OStageFail \/ OWrite \/ OExit \/ OFin
OTraceSpec == OTInit /\ [][OTNext]_otvars

OTraceAccepted == PrintT(<<"CONSUMED", Consumed, Len(Trace)>>) /\ Consumed = Len(Trace)
=============================================================================
