------------------------------ MODULE Codegen ------------------------------
(***************************************************************************)
(* C01 (and the naming/import half of C02, C14): what mockery's Generate   *)
(* does to one interface, as a state machine shaped like the code, driven  *)
(* over the program space of Sig.tla.                                      *)
(*                                                                         *)
(* CODE-SHAPED layer (one action per critical section of                   *)
(* internal/template_generator.go Generate / methodData / typeParams and   *)
(* template/method_scope.go AddVar / ResolveVariableNameCollisions):       *)
(*   MethodData(j)   new MethodScope (qualifiers imported so far), AddVar  *)
(*                   for params then results: populateImports in           *)
(*                   traversal order -> Registry.addImport (alias search   *)
(*                   of Alloc.tla) -> AddName(TypeString) -> SuggestName   *)
(*   Resolve(j)      ResolveVariableNameCollisions (suffix search)         *)
(*   TypeParams      fresh scope, AddVar per type parameter                *)
(*   Template        imports the template text adds itself (matryer: sync  *)
(*                   through the registry; testify: a hard-coded `mock`)   *)
(*   Done            footprint + identifiers bound per generated function  *)
(*                   (transcribed from the two .templ files)               *)
(* The allocator operators are those of Alloc.tla (C15), instantiated.     *)
(*                                                                         *)
(* CONTRACT layer: Expect (property C01: in-guarantee => exit 0 and every  *)
(* file type-checks), the footprint invariants ImportsBijective,           *)
(* EveryReferencedPackageImported, NoSelfImportWhenInPackage,              *)
(* DeclaredEqualsUsed, ParamNamesDistinctValidUncaptured,                  *)
(* TypeParamsRenderedConsistently.  Where the code-shaped model breaks one *)
(* of them the case is exported with a *predicted issue* tag; only the Go  *)
(* toolchain on the real output convicts (c01.py).                         *)
(***************************************************************************)
EXTENDS DataModel, Json

CONSTANTS Programs       \* set of program records (families in CodegenMC.tla)

A == INSTANCE Alloc WITH Prefixes <- {}, AddNames <- {}, Pkgs <- {}, DstPath <- "", MaxHist <- 0,
       visible <- {}, imp <- << >>, inpkg <- FALSE, last <- << >>, hist <- << >>, pv <- << >>, resolved <- FALSE

VARIABLES c,      \* the case: [prog, tmpl, inpkg]
          ms,     \* methods of the completed interface in go/types order
          pc, j,
          imp,    \* Registry.imports: package id -> qualifier
          scs,    \* one scope per method: [vis, vars]
          tps,    \* type-parameter data of the current interface: sequence of [orig, name, c]
          ti,     \* index of the interface being processed in Prog.targets
          outs    \* finished interfaces of the file: [n, ms, scs, tps]
vars == <<c, ms, pc, j, imp, scs, tps, ti, outs>>

(* ------------------------------------------------------------------------ *)
(* strings: ASCII case tables; "Zz"/"zz" prefixes stand for non-ASCII letters *)
Lo(ch) == CASE ch = "A" -> "a" [] ch = "B" -> "b" [] ch = "C" -> "c" [] ch = "D" -> "d" [] ch = "E" -> "e" [] ch = "F" -> "f"
            [] ch = "G" -> "g" [] ch = "H" -> "h" [] ch = "I" -> "i" [] ch = "J" -> "j" [] ch = "K" -> "k" [] ch = "L" -> "l"
            [] ch = "M" -> "m" [] ch = "N" -> "n" [] ch = "O" -> "o" [] ch = "P" -> "p" [] ch = "Q" -> "q" [] ch = "R" -> "r"
            [] ch = "S" -> "s" [] ch = "T" -> "t" [] ch = "U" -> "u" [] ch = "V" -> "v" [] ch = "W" -> "w" [] ch = "X" -> "x"
            [] ch = "Y" -> "y" [] ch = "Z" -> "z" [] OTHER -> ch
Up(ch) == CASE ch = "a" -> "A" [] ch = "b" -> "B" [] ch = "c" -> "C" [] ch = "d" -> "D" [] ch = "e" -> "E" [] ch = "f" -> "F"
            [] ch = "g" -> "G" [] ch = "h" -> "H" [] ch = "i" -> "I" [] ch = "j" -> "J" [] ch = "k" -> "K" [] ch = "l" -> "L"
            [] ch = "m" -> "M" [] ch = "n" -> "N" [] ch = "o" -> "O" [] ch = "p" -> "P" [] ch = "q" -> "Q" [] ch = "r" -> "R"
            [] ch = "s" -> "S" [] ch = "t" -> "T" [] ch = "u" -> "U" [] ch = "v" -> "V" [] ch = "w" -> "W" [] ch = "x" -> "X"
            [] ch = "y" -> "Y" [] ch = "z" -> "Z" [] OTHER -> ch
First(s) == SubSeq(s, 1, 1)
Rest(s)  == SubSeq(s, 2, Len(s))
\* var.go deCapitalise / capitalise are rune-aware since 4c37ca2 ("Zz.." |-> "zz..", i.e. É |-> é)
DeCap(s) == IF s = "" THEN "" ELSE Lo(First(s)) \o Rest(s)
Cap(s)   == IF s = "" THEN "" ELSE Up(First(s)) \o Rest(s)
\* template_funcs.Exported (rune-aware since d879be0; golint initialisms)
Exported(s) == CASE s = "id" -> "ID" [] s = "url" -> "URL" [] s = "api" -> "API" [] s = "http" -> "HTTP"
                 [] OTHER -> IF s = "" THEN "" ELSE Up(First(s)) \o Rest(s)     \* "zz.." |-> "Zz.." (é |-> É)
IsExportedName(s) == s # "" /\ First(s) # Lo(First(s))
Keywords == {"break", "default", "func", "interface", "select", "case", "defer", "go", "map", "struct", "chan", "else", "goto",
             "package", "switch", "const", "fallthrough", "if", "range", "type", "continue", "for", "import", "return", "var"}
ValidIdent(s) == s # "" /\ s # "_" /\ s \notin Keywords

(* ------------------------------------------------------------------------ *)
(* IMPL: template/method_scope.go populateImportsHelper -- traversal ORDER   *)
RECURSIVE PkgSeq(_)
PkgSeqVars(vs) == Flatten([i \in 1..Len(vs) |-> PkgSeq(vs[i].t)])
PkgSeq(t) ==
  CASE t.k \in {"basic", "tp"} -> << >>
    [] t.k = "unsafe" -> <<"Sunsafe">>
    [] t.k = "named"  -> <<t.p>>
    [] t.k = "inst"   -> <<t.p>> \o Flatten([i \in 1..Len(t.as) |-> PkgSeq(t.as[i])])
    [] t.k \in {"ptr", "slice", "array", "chan"} -> PkgSeq(t.e)
    [] t.k = "map"    -> PkgSeq(t.key) \o PkgSeq(t.e)
    [] t.k = "func"   -> PkgSeqVars(t.ps) \o PkgSeqVars(t.rs)
    [] t.k = "struct" -> Flatten([i \in 1..Len(t.fs) |-> PkgSeq(t.fs[i].t)])
    [] t.k = "union"  -> Flatten([i \in 1..Len(t.ts) |-> PkgSeq(t.ts[i])])      \* every term, with or without tilde
    [] t.k = "plain"  -> PkgSeq(t.e)
    [] t.k = "iface"  -> Flatten([i \in 1..Len(t.ms) |-> PkgSeqVars(t.ms[i].ps) \o PkgSeqVars(t.ms[i].rs)])
                         \o Flatten([i \in 1..Len(t.es) |-> PkgSeq(t.es[i])])

\* template/var.go varNameForType / varName
IsTrueBasic(t) == t.k = "unsafe" \/ (t.k = "basic" /\ t.n \notin {"error", "any"})
BasicVarName(t) ==
  IF t.k = "unsafe" THEN "v"
  ELSE CASE t.n = "bool" -> "b" [] t.n \in {"int", "rune", "int64"} -> "n" [] t.n = "float64" -> "f" [] t.n = "string" -> "s"
         [] OTHER -> "v"                \* byte, uintptr (IsInteger|IsUnsigned # IsInteger), complex128
RECURSIVE VarNameForType(_)
\* nestedType(): deCapitalise(t.Name()) for a *types.Basic -- "pointer" for unsafe.Pointer (since 4c37ca2)
Nested(t) == IF t.k = "basic" /\ IsTrueBasic(t) THEN t.n ELSE IF t.k = "unsafe" THEN "pointer" ELSE VarNameForType(t)
VarNameForType(t) ==
  CASE t.k = "basic" -> IF t.n = "error" THEN "err" ELSE IF t.n = "any" THEN "v" ELSE BasicVarName(t)
    [] t.k = "unsafe" -> "v"
    [] t.k = "tp"     -> "v"
    [] t.k \in {"named", "inst"} -> IF IsAliasTerm(t) THEN "v"
                                    ELSE LET d == DeCap(t.n) IN IF d = t.n THEN t.n \o "MoqParam" ELSE d
    [] t.k \in {"array", "slice"} -> Nested(t.e) \o "s"
    [] t.k = "struct" -> "val"
    [] t.k = "ptr"    -> VarNameForType(t.e)
    [] t.k = "func"   -> "fn"
    [] t.k = "iface"  -> "ifaceVal"
    [] t.k = "map"    -> Nested(t.key) \o "To" \o Cap(Nested(t.e))
    [] t.k = "chan"   -> Nested(t.e) \o "Ch"
GenReserved == Keywords \cup {"mock", "callInfo", "string", "bool", "byte", "rune", "uintptr", "int", "int8", "int16", "int32", "int64",
                              "uint", "uint8", "uint16", "uint32", "uint64", "float32", "float64", "complex64", "complex128"}
VarName(v) == IF v.n \notin {"", "_"} THEN v.n
              ELSE LET g == VarNameForType(v.t) IN IF g \in GenReserved THEN g \o "Param" ELSE g

\* what TypeString() of the variable is when it is a single identifier ("" otherwise: can never equal a name)
TypeStrIdent(t, inpkg) ==
  CASE t.k \in {"basic", "tp"} -> t.n
    [] t.k = "named" -> IF t.p = "SRC" /\ inpkg THEN t.n ELSE ""
    [] OTHER -> ""

(* IMPL: template/registry.go addImport.  Since 493b184 the alias search of an in-package file also avoids the
   package-level declarations of its package. *)
ScopeNames == IF c.inpkg THEN DOMAIN c.prog.decls \cup c.prog.localtypes ELSE {}
AddImport(im, p, srcname, inpkg) ==
  IF p = "SRC" /\ inpkg THEN im
  ELSE IF p \in DOMAIN im THEN im
  ELSE A!Extend(im, p, A!AliasImpl(PkgName(p, srcname), Range(im) \cup ScopeNames))
RECURSIVE AddImports(_, _, _, _)
AddImports(im, ps, srcname, inpkg) ==
  IF ps = << >> THEN im ELSE AddImports(AddImport(im, Head(ps), srcname, inpkg), Tail(ps), srcname, inpkg)
Qual(im, p) == IF p \in DOMAIN im THEN im[p] ELSE ""

(* IMPL: MethodScope.AddVar *)
AddVar(st, v, role, srcname, inpkg) ==      \* st = [sc, im]
  LET ps   == PkgSeq(v.t)
      im2  == AddImports(st.im, ps, srcname, inpkg)
      ts   == TypeStrIdent(v.t, inpkg)
      vis2 == st.sc.vis \cup {Qual(im2, p) : p \in SeqToSet(ps)} \cup {ts}
      name == A!SuggestImpl(VarName(v), vis2)
  IN [sc |-> [vis |-> vis2, vars |-> Append(st.sc.vars, [name |-> name, orig |-> v.n, t |-> v.t, role |-> role]), np |-> st.sc.np], im |-> im2]
RECURSIVE AddVars(_, _, _, _, _)
AddVars(st, vs, role, srcname, inpkg) ==
  IF vs = << >> THEN st ELSE AddVars(AddVar(st, Head(vs), role, srcname, inpkg), Tail(vs), role, srcname, inpkg)

(* IMPL: MethodScope.ResolveVariableNameCollisions.  Since 0f7671a names also stay distinct once exported (a/A, id/ID). *)
RECURSIVE Distinct(_, _, _, _, _)
Distinct(nn, base, k, vis, exp) == IF Exported(nn) \in exp THEN Distinct(A!SuggestImpl(base \o ToString(k), vis), base, k + 1, vis, exp) ELSE nn
RECURSIVE ResolveFrom(_, _, _)
ResolveFrom(sc, i, exp) ==
  IF i > Len(sc.vars) THEN sc
  ELSE LET nn == Distinct(A!SuggestImpl(sc.vars[i].name, sc.vis), sc.vars[i].name, 1, sc.vis, exp)
       IN ResolveFrom([sc EXCEPT !.vis = sc.vis \cup {nn}, !.vars = [sc.vars EXCEPT ![i].name = nn]], i + 1, exp \cup {Exported(nn)})

(* ------------------------------------------------------------------------ *)
\* method_scope.go reservedNames (3883616): identifiers the built-in templates declare themselves
Reserved == {"mock", "_mock", "_m", "_e", "_c", "tmpRet", "_va", "_ca", "_i", "callInfo", "calls"}
Prog == c.prog
Methods == ms
MParams(m) == [i \in 1..Len(m.ps) |-> V(m.ps[i].n, ParamType(m, i))]
\* Prog.targets: the interfaces mocked into this one output file, in source order; the last one is Prog.target.
\* One Registry per FILE: imports accumulate over the interfaces, later scopes see the earlier qualifiers.
Cur == Prog.targets[ti]
CurTps == Prog.decls[Cur].tps
MethodsOf(prog, n) == SortByRank(TargetMethodSet(prog.decls, n))   \* go/types order of the completed interface

\* ens: the matryer ensure line is rendered (skip-ensure unset/false); it decides an import since 8f33795
Cases == [prog : Programs, tmpl : {"testify"}, inpkg : BOOLEAN, ens : {FALSE}]
         \cup [prog : Programs, tmpl : {"matryer"}, inpkg : BOOLEAN, ens : BOOLEAN]

Init == /\ c \in Cases
        /\ ti = 1 /\ outs = << >>
        /\ ms = MethodsOf(c.prog, c.prog.targets[1])
        /\ pc = "methods" /\ j = 1 /\ imp = << >> /\ scs = << >> /\ tps = << >>

MethodData ==
  /\ pc = "methods"
  /\ IF j > Len(Methods)
     THEN \* template_generator.go (ebe08f2): the interface's type-parameter names enter every method scope before Resolve
          /\ scs' = [i \in 1..Len(scs) |-> [scs[i] EXCEPT !.vis = scs[i].vis \cup {CurTps[x].n : x \in 1..Len(CurTps)}]]
          /\ pc' = "resolve" /\ j' = 1 /\ UNCHANGED imp
     ELSE LET m   == Methods[j]
              st0 == [sc |-> [vis |-> (Range(imp) \ {""}) \cup Reserved, vars |-> << >>, np |-> Len(m.ps)], im |-> imp]
              st1 == AddVars(st0, MParams(m), "p", Prog.srcname, c.inpkg)
              \* methodData (3883616): r0 .. r(n-1) are taken before the results are named
              st1r == [st1 EXCEPT !.sc.vis = st1.sc.vis \cup {"r" \o ToString(i - 1) : i \in 1..Len(m.rs)}]
              st2 == AddVars(st1r, m.rs, "r", Prog.srcname, c.inpkg)
          IN /\ imp' = st2.im /\ scs' = Append(scs, st2.sc) /\ j' = j + 1 /\ pc' = pc
  /\ UNCHANGED <<c, ms, tps, ti, outs>>

Resolve ==
  /\ pc = "resolve"
  /\ IF j > Len(scs) THEN pc' = "tparams" /\ j' = 1 /\ UNCHANGED scs
     ELSE scs' = [scs EXCEPT ![j] = ResolveFrom(scs[j], 1, {})] /\ j' = j + 1 /\ pc' = pc
  /\ UNCHANGED <<c, ms, imp, tps, ti, outs>>

\* typeParams() of the current interface; then the next interface of the file (same registry), or the template
TypeParams ==
  /\ pc = "tparams"
  /\ LET st0 == [sc |-> [vis |-> (Range(imp) \ {""}) \cup Reserved, vars |-> << >>, np |-> 0], im |-> imp]
         st1 == AddVars(st0, [i \in 1..Len(CurTps) |-> V(CurTps[i].n, CurTps[i].c)], "tp", Prog.srcname, c.inpkg)
         tp  == [i \in 1..Len(CurTps) |-> [orig |-> CurTps[i].n, name |-> st1.sc.vars[i].name, c |-> CurTps[i].c]]
     IN /\ imp' = st1.im
        /\ outs' = Append(outs, [n |-> Cur, ms |-> ms, scs |-> scs, tps |-> tp])
        /\ IF ti < Len(Prog.targets)
           THEN /\ ti' = ti + 1 /\ ms' = MethodsOf(Prog, Prog.targets[ti + 1]) /\ scs' = << >> /\ tps' = << >>
                /\ pc' = "methods" /\ j' = 1
           ELSE /\ tps' = tp /\ pc' = "template" /\ UNCHANGED <<ti, ms, scs, j>>
  /\ UNCHANGED c

AnyMethods == \E t \in 1..Len(outs) : Len(outs[t].ms) > 0          \* Interfaces.ImplementsSomeMethod
Template ==
  /\ pc = "template"
  /\ LET i1 == IF c.tmpl = "matryer" /\ AnyMethods THEN AddImport(imp, "Ssync", Prog.srcname, c.inpkg) ELSE imp
         \* mock_matryer.templ:17-26 (8f33795): the ensure line's source package goes through the registry
         i2 == IF c.tmpl = "matryer" /\ c.ens /\ ~c.inpkg THEN AddImport(i1, "SRC", Prog.srcname, c.inpkg) ELSE i1
     IN imp' = i2
  /\ pc' = "done" /\ UNCHANGED <<c, ms, j, scs, tps, ti, outs>>

Next == MethodData \/ Resolve \/ TypeParams \/ Template
Spec == Init /\ [][Next]_vars

(* ======================================================================== *)
(* The rendered file: what the two built-in templates bind and use per       *)
(* generated function (transcribed from mock_testify.templ / mock_matryer.templ) *)
\* params were added first, then results
Names(sc, role) == IF role = "p" THEN [k \in 1..sc.np |-> sc.vars[k].name]
                   ELSE [k \in 1..(Len(sc.vars) - sc.np) |-> sc.vars[sc.np + k].name]
Types(sc, role) == IF role = "p" THEN [k \in 1..sc.np |-> sc.vars[k].t]
                   ELSE [k \in 1..(Len(sc.vars) - sc.np) |-> sc.vars[sc.np + k].t]
\* identifiers resolved when a list of types is rendered inside a function body: bare identifiers + qualifiers
TypeUses(ts) == UNION {BareIdents(ts[i], c.inpkg) \cup {Qual(imp, p) : p \in RefPkgs(ts[i])} : i \in 1..Len(ts)} \ {""}

\* var.go nillable()
NamedNillable(t) == t.n \in {"I", "LI", "GI", "LGI", "RW", "LG2", "TI", "Reader", "Writer", "ReadWriter", "Context", "Stringer", "Locker", "LS", "EI", "LEI"}
Nillable(t) == CASE t.k \in {"ptr", "array", "map", "iface", "func", "chan", "slice", "tp"} -> TRUE
                 [] t.k = "basic" -> t.n \in {"error", "any"}
                 [] t.k \in {"named", "inst"} -> NamedNillable(t)
                 [] OTHER -> FALSE
RNames(n) == {"r" \o ToString(i - 1) : i \in 1..n}

TestifyMethodIssues(m, sc, unroll) ==
  LET P  == SeqToSet(Names(sc, "p")) R == SeqToSet(Names(sc, "r"))
      PT == Types(sc, "p") RT == Types(sc, "r")
      np == Len(PT) nr == Len(RT)
      unrolled == m.va /\ unroll /\ np > 0
      lastT == IF m.va THEN m.ps[Len(m.ps)].t ELSE B("int")
      needVa == unrolled /\ ~(lastT.k = "basic" /\ lastT.n = "any") /\ ~(lastT.k = "iface" /\ lastT.ms = << >> /\ lastT.es = << >>)
      bodyTop == {"_mock"} \cup (IF m.va /\ ~unroll /\ nr > 0 THEN {"tmpRet"} ELSE {})
                 \cup (IF unrolled THEN {"_ca"} \cup (IF needVa THEN {"_va"} ELSE {}) ELSE {})
                 \cup (IF nr > 0 THEN RNames(nr) ELSE {})
      bodyInner == IF needVa THEN {"_i"} ELSE {}
      bodyUses == (IF m.va /\ ~unroll THEN {"len"} ELSE {})
                  \cup (IF nr > 0 THEN {"len", "panic"} \cup TypeUses(PT) \cup TypeUses(RT) ELSE {})
                  \cup (IF nr > 0 /\ \E i \in 1..nr : Nillable(RT[i]) /\ ~(RT[i].k = "basic" /\ RT[i].n = "error") THEN {"nil"} ELSE {})
                  \cup (IF unrolled THEN {"append"} ELSE {}) \cup (IF needVa THEN {"make", "len"} ELSE {})
                  \cup (IF m.va /\ ~unroll /\ nr > 0 THEN {"mock"} ELSE {})
      runBind == {"_c", "run", "args"} \cup {"arg" \o ToString(i - 1) : i \in 1..np} \cup (IF m.va THEN {"variadicArgs", "i", "a"} ELSE {})
      runUses == TypeUses(PT) \cup {"mock"} \cup (IF m.va THEN {"len", "nil"} \cup (IF unroll THEN {"make"} ELSE {}) ELSE {})
  IN (IF P \cap bodyTop # {} THEN {"tpl-redeclare"} ELSE {})
     \cup (IF bodyUses \cap (P \cup bodyInner) # {} THEN {"tpl-capture"} ELSE {})
     \cup (IF needVa /\ "_i" \in P THEN {"tpl-redeclare"} ELSE {})               \* for _i := range <param>
     \cup (IF "_e" \in P THEN {"tpl-redeclare"} ELSE {})
     \cup (IF m.va /\ "append" \in P THEN {"tpl-capture"} ELSE {})
     \cup (IF runUses \cap runBind # {} THEN {"tpl-capture-type"} ELSE {})
     \cup (IF "_c" \in R THEN {"tpl-redeclare"} ELSE {})

MatryerMethodIssues(m, sc, stub) ==
  LET Pn == Names(sc, "p") Rn == Names(sc, "r")
      P  == SeqToSet(Pn)
      PT == Types(sc, "p") RT == Types(sc, "r")
      nr == Len(RT)
      uses == {"nil", "append"} \cup (IF stub THEN {} ELSE {"panic"}) \cup TypeUses(PT)
              \cup (IF stub /\ nr > 0 THEN TypeUses(RT) ELSE {})
      fields == [i \in 1..Len(Pn) |-> Exported(Pn[i])]
  IN (IF P \cap {"mock", "callInfo"} # {} THEN {"tpl-redeclare"} ELSE {})
     \cup (IF uses \cap (P \cup {"mock"}) # {} THEN {"tpl-capture"} ELSE {})      \* the receiver is named mock
     \cup (IF stub /\ \E a, b \in 1..nr : a < b /\ Rn[a] \in TypeUses(<<RT[b]>>) THEN {"tpl-capture"} ELSE {})
     \cup (IF \E a, b \in 1..Len(Pn) : a < b /\ fields[a] = fields[b] THEN {"matryer-field-dup"} ELSE {})

ConstraintIsExplicit(t) == (t.k = "basic" /\ t.n \notin {"any", "error", "comparable"}) \/ t.k = "union"
                            \/ (t.k = "named" /\ t.n \in {"C", "LC", "Ordered"})
FileIssues(opts) ==
  LET clash == \E p \in DOMAIN imp : imp[p] = "mock"
      localnames == IF c.inpkg THEN DOMAIN Prog.decls \cup Prog.localtypes ELSE {}
  IN (IF c.tmpl = "testify" /\ clash THEN {"import-qual-clash"} ELSE {})
     \cup (IF c.tmpl = "testify" /\ "mock" \in localnames THEN {"import-vs-local-decl"} ELSE {})
     \cup (IF Range(imp) \cap localnames # {} THEN {"import-vs-local-decl"} ELSE {})

\* IMPL: template_generator.go explicitConstraintType + mock_matryer.templ ensure line -- the type ARGUMENT made up for a
\* type parameter: the first basic element, else the first term of the first union, else int when the type set is
\* comparable, else the constraint's own text; spelled with types.Type.String() (full import path).
Elements(cn) == IF cn.k = "iface" THEN cn.es ELSE IF cn.k = "named" THEN NamedConstraint(cn.n).es ELSE <<cn>>
SetComparable(cn) == LET es == Elements(cn) IN
  \E i \in 1..Len(es) : (es[i].k = "basic" /\ es[i].n \notin {"any"}) \/ es[i].k = "named"
                         \/ (es[i].k = "union" /\ \A x \in 1..Len(es[i].ts) : IsComparableType(IF es[i].ts[x].k = "plain" THEN es[i].ts[x].e ELSE es[i].ts[x]))
EnsureArg(cn) ==
  LET es == Elements(cn)
      idx == {i \in 1..Len(es) : (es[i].k = "basic" /\ es[i].n \notin {"any", "comparable"}) \/ es[i].k = "union"}
  IN IF cn.k = "basic" /\ cn.n = "any" THEN [k |-> "self"]
     ELSE IF idx # {} THEN LET e == es[CHOOSE i \in idx : \A x \in idx : i <= x]
                           IN IF e.k = "union" THEN (IF e.ts[1].k = "plain" THEN e.ts[1].e ELSE e.ts[1]) ELSE e
     ELSE IF SetComparable(cn) THEN B("int") ELSE [k |-> "self"]
MentionsTP(cn) == \E n \in BareIdents(cn, FALSE) : n \in {"T", "t", "K", "k", "V"}
EnsureArgBad(cn) ==
  LET a == EnsureArg(cn) IN
  IF a.k = "self" THEN MentionsTP(cn)                                            \* the constraint's text as the argument
  ELSE ~Sat(a, cn) \/ (RefPkgs(a) \ StdPkgs) # {}                               \* not in the type set / full-path spelling

\* one interface of the file: o = [n, ms, scs, tps]
IfaceIssues(o, opts) ==
  (IF \E i \in 1..Len(o.tps) : Exported(o.tps[i].name) # o.tps[i].orig THEN {"tparam-case"} ELSE {})
  \* methods of the generic mock declare the type parameters in their receiver: a parameter of that name redeclares it
  \cup (IF \E i \in 1..Len(o.scs) : \E k \in 1..Len(o.scs[i].vars) : o.scs[i].vars[k].name \in {Exported(o.tps[x].name) : x \in 1..Len(o.tps)}
        THEN {"param-vs-tparam"} ELSE {})
  \cup (IF c.tmpl = "matryer" /\ ~opts.skipensure /\ \E i \in 1..Len(o.tps) : EnsureArgBad(o.tps[i].c)
        THEN {"ensure-type-argument"} ELSE {})                                     \* N15
  \cup UNION {IF c.tmpl = "testify" THEN TestifyMethodIssues(o.ms[i], o.scs[i], opts.unroll)
              ELSE MatryerMethodIssues(o.ms[i], o.scs[i], opts.stub) : i \in 1..Len(o.scs)}

OptSets == IF c.tmpl = "testify" THEN {[unroll |-> u, skipensure |-> FALSE, stub |-> FALSE] : u \in BOOLEAN}
           ELSE {[unroll |-> FALSE, skipensure |-> ~c.ens, stub |-> b] : b \in BOOLEAN}
Issues(opts) == FileIssues(opts) \cup UNION {IfaceIssues(outs[t], opts) : t \in 1..Len(outs)}

(* ======================================================================== *)
(* CONTRACT                                                                  *)
AllScopes == Flatten([t \in 1..Len(outs) |-> outs[t].scs])          \* every method scope of the file
AllSigTypes == UNION {SeqToSet(Types(AllScopes[i], "p")) \cup SeqToSet(Types(AllScopes[i], "r")) : i \in 1..Len(AllScopes)}
               \cup UNION {{outs[t].tps[i].c : i \in 1..Len(outs[t].tps)} : t \in 1..Len(outs)}
Referenced == (UNION {RefPkgs(t) : t \in AllSigTypes}) \ (IF c.inpkg THEN {"SRC"} ELSE {})
TemplateOwn == (IF c.tmpl = "matryer" /\ AnyMethods THEN {"Ssync"} ELSE {})
               \cup (IF c.tmpl = "matryer" /\ c.ens /\ ~c.inpkg THEN {"SRC"} ELSE {})

ImportsBijective == \A p, q \in DOMAIN imp : p # q => imp[p] # imp[q]
EveryReferencedPackageImported == Referenced \subseteq DOMAIN imp
NoSelfImportWhenInPackage == c.inpkg => "SRC" \notin DOMAIN imp
DeclaredEqualsUsed == DOMAIN imp = Referenced \cup TemplateOwn          \* required under gofmt / noop
QualifiersValid == \A p \in DOMAIN imp : ValidIdent(imp[p])
\* per method: final names valid, pairwise distinct, not capturing a qualifier or a type identifier that is the whole type string
ParamNamesDistinctValidUncaptured ==
  \A i \in 1..Len(AllScopes) :
    LET sc == AllScopes[i] ns == [k \in 1..Len(sc.vars) |-> sc.vars[k].name]
        sigquals == {Qual(imp, p) : p \in UNION {RefPkgs(sc.vars[k].t) : k \in 1..Len(sc.vars)}} \ {""}
    IN /\ \A a, b \in 1..Len(ns) : a # b => ns[a] # ns[b]
       /\ \A a \in 1..Len(ns) : ns[a] \notin sigquals
\* every name the allocator generates is an identifier (holds since 4c37ca2)
GeneratedNamesValid == \A i \in 1..Len(AllScopes) : \A k \in 1..Len(AllScopes[i].vars) : ValidIdent(AllScopes[i].vars[k].name)
FooterInvariants == pc = "done" => /\ GeneratedNamesValid /\ ImportsBijective /\ EveryReferencedPackageImported /\ NoSelfImportWhenInPackage
                                   /\ DeclaredEqualsUsed /\ QualifiersValid /\ ParamNamesDistinctValidUncaptured
\* stronger than what AddName(TypeString) guarantees: identifiers nested in composite types (deviation "nested-type-ident")
NoNestedCapture ==
  \A i \in 1..Len(AllScopes) :
    LET sc == AllScopes[i] IN \A a \in 1..Len(sc.vars) : sc.vars[a].name \notin UNION {BareIdents(sc.vars[k].t, c.inpkg) : k \in 1..Len(sc.vars)}

(* documented API of the generated mock: an interface with such a method is outside the guarantee *)
TestifyAPI == {"EXPECT", "Mock", "On", "Called", "Test", "TestData", "MethodCalled", "AssertExpectations", "AssertNumberOfCalls",
               "AssertCalled", "AssertNotCalled", "IsMethodCallable"}
MatryerAPI(ns) == {n \o "Calls" : n \in ns} \cup {n \o "Func" : n \in ns} \cup {"Reset" \o n \o "Calls" : n \in ns}
                  \cup {"lock" \o n : n \in ns} \cup {"ResetCalls", "calls"}
NamesOf(o) == {o.ms[i].n : i \in 1..Len(o.ms)}
Main == outs[Len(outs)]                       \* the target proper (last interface of the file)
MNames == NamesOf(Main)
\* types of the package under test that cannot be named from another package
UsesUnnameable == \E t \in AllSigTypes : \E n \in LocalNames(t) : ~IsExportedName(n)
InGuarantee ==
  /\ \A t \in 1..Len(outs) : IF c.tmpl = "testify" THEN NamesOf(outs[t]) \cap TestifyAPI = {}
                               ELSE NamesOf(outs[t]) \cap MatryerAPI(NamesOf(outs[t])) = {}
  /\ c.inpkg \/ (~UsesUnnameable /\ \A t \in 1..Len(outs) : IsExportedName(outs[t].n) /\ \A n \in NamesOf(outs[t]) : IsExportedName(n))
  /\ Prog.guarantee

\* C02: methods the mock may have beyond the interface's -- its documented API
AllowedExtras(resets) ==
  IF c.tmpl = "testify" THEN {"EXPECT"}
  ELSE {n \o "Calls" : n \in MNames} \cup (IF resets THEN {"Reset" \o n \o "Calls" : n \in MNames} \cup {"ResetCalls"} ELSE {})

\* C01: in-guarantee => mockery exits 0 and every written file type-checks in its destination package
Expect == [guarantee |-> InGuarantee, exit |-> 0, typechecks |-> TRUE]

(* ------------------------------------------------------------------------ *)
(* Export: one PRED line per (program, template, inpkg) at the final state,  *)
(* one PROG line per program.                                                *)
MethodOut(o, i) == [n |-> o.ms[i].n, va |-> o.ms[i].va, ps |-> Names(o.scs[i], "p"), rs |-> Names(o.scs[i], "r"),
                    origps |-> [k \in 1..Len(o.ms[i].ps) |-> o.ms[i].ps[k].n],
                    origrs |-> [k \in 1..Len(o.ms[i].rs) |-> o.ms[i].rs[k].n]]
IfaceOut(o) == [n |-> o.n, methods |-> [i \in 1..Len(o.scs) |-> MethodOut(o, i)], tps |-> o.tps]
ModelIssues == IF NoNestedCapture THEN {} ELSE {"nested-type-ident"}
\* Every way the code-shaped model breaks the contract today is a NAMED deviation (DESIGN section 8 / known_findings.jsonl);
\* a new, unnamed one fails this invariant at model level.
NamedDeviations == {"tpl-capture",             \* N2/N4: parameter (or the matryer receiver `mock`) captures an identifier the body uses
                    "tpl-capture-type",        \* N10: testify Run() closure locals capture an in-package type name
                    "import-qual-clash",       \* N3: testify's hard-coded `mock` import
                    "import-vs-local-decl",    \* N9, testify half only: its `mock` import does not go through the registry
                    "tparam-case",             \* D13
                    "ensure-type-argument",    \* N15: matryer ensure line, type argument made up from a multi-element constraint
                    "nested-type-ident"}       \* N2: only whole type strings are registered in the method scope
DeviationsNamed == pc = "done" => (ModelIssues \cup UNION {Issues(o) : o \in OptSets}) \subseteq NamedDeviations

Pred == [pid |-> Prog.pid, tmpl |-> c.tmpl, inpkg |-> c.inpkg, ens |-> c.ens,
         expect |-> Expect,
         imports |-> imp,
         methods |-> IfaceOut(Main).methods,                                 \* the target proper
         tps |-> Main.tps,
         ifaces |-> [t \in 1..Len(outs) |-> IfaceOut(outs[t])],              \* every interface of the file, in order
         extras |-> [resets |-> AllowedExtras(TRUE), noresets |-> AllowedExtras(FALSE)],
         \* one type expression mentions two packages of the same name: alias assignment must follow the traversal order
         \* of populateImports (never a map): such cases are generated repeatedly and compared (C06-relevant)
         samename |-> \E i \in 1..Len(AllScopes) : \E k \in 1..Len(AllScopes[i].vars) :
                        LET ps_ == RefPkgs(AllScopes[i].vars[k].t) \ (IF c.inpkg THEN {"SRC"} ELSE {})
                        IN \E p_, q_ \in ps_ : p_ # q_ /\ PkgName(p_, Prog.srcname) = PkgName(q_, Prog.srcname),
         modelissues |-> ModelIssues,
         issues |-> {[opts |-> o, tags |-> Issues(o)] : o \in OptSets}]
\* the enumerated program must be legal Go: unique method names, distinct non-blank parameter/result names per method
NamesDistinct(m) == LET ns == [i \in 1..(Len(m.ps) + Len(m.rs)) |-> IF i <= Len(m.ps) THEN m.ps[i].n ELSE m.rs[i - Len(m.ps)].n]
                    IN \A a, b \in 1..Len(ns) : (a # b /\ ns[a] \notin {"", "_"}) => ns[a] # ns[b]
WellFormedProgram == /\ \A n \in DOMAIN Prog.decls : WellFormedMethodSet(TargetMethodSet(Prog.decls, n))
                     /\ Prog.targets[Len(Prog.targets)] = Prog.target
                     /\ \A d \in Range(Prog.decls) : \A i \in 1..Len(d.ms) : NamesDistinct(d.ms[i])
TpConstraintOf(prog, t) ==
  LET tl == prog.decls[prog.target].tps
  IN IF t.k = "tp" /\ \E i \in 1..Len(tl) : tl[i].n = t.n THEN tl[CHOOSE i \in 1..Len(tl) : tl[i].n = t.n].c ELSE B("any")
VariadicsOf(prog) ==
  LET mths == MethodsOf(prog, prog.target)
      idx == {i \in 1..Len(mths) : mths[i].va}
      rec(i) == LET e == mths[i].ps[Len(mths[i].ps)].t
                IN [n |-> mths[i].n, before |-> Len(mths[i].ps) - 1, elem |-> Show(e),
                    class |-> VariadicElemClass(e, TpConstraintOf(prog, e)),
                    usable_as_empty_iface_slice |-> SliceUsableAsEmptyIfaceSlice(e),
                    underlying_empty_iface |-> UnderlyingIsEmptyIface(e)]
  IN {rec(i) : i \in idx}
Emit ==
  /\ (pc = "methods" /\ j = 1 /\ ti = 1 /\ c.tmpl = "testify" /\ c.inpkg) =>
        PrintT(<<"PROG", ToJson([prog |-> Prog, methods |-> MethodsOf(Prog, Prog.target), wellformed |-> WellFormedProgram,
                                 targs |-> TargTuples(Prog.decls[Prog.target].tps),
                                 \* a method of the target is reachable along two different paths (overlapping embeds / re-declaration)
                                 overlap |-> LET d == Prog.decls[Prog.target]
                                                 ns(i) == MethodNames(MethodSetOf(Prog.decls, d.es[i], 5))
                                             IN \/ \E i, k \in 1..Len(d.es) : i < k /\ ns(i) \cap ns(k) # {}
                                                \/ \E i \in 1..Len(d.es) : ns(i) \cap {d.ms[x].n : x \in 1..Len(d.ms)} # {},
                                 dm |-> ExpData(MethodsOf(Prog, Prog.target), Prog.decls[Prog.target].tps),
                                 \* C02, several interfaces mocked into one file: method set / type arguments of every declaration
                                 sets |-> [n \in DOMAIN Prog.decls |-> SortByRank(TargetMethodSet(Prog.decls, n))],
                                 dms |-> [n \in DOMAIN Prog.decls |-> ExpData(MethodsOf(Prog, n), Prog.decls[n].tps)],   \* C14, per interface
                                 alltargs |-> [n \in DOMAIN Prog.decls |-> TargTuples(Prog.decls[n].tps)],
                                 \* CONTRACT (Sig.tla): per variadic method of the target, the class of its element type and whether
                                 \* the variadic slice may be used as a []interface{} as it is (identity with the empty interface)
                                 variadics |-> VariadicsOf(Prog)])>>)
  /\ (pc = "done") => PrintT(<<"PRED", ToJson(Pred)>>)
=============================================================================
