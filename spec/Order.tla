------------------------------- MODULE Order -------------------------------
(***************************************************************************)
(* C06 -- generation is a FUNCTION of sources + configuration: the same    *)
(* exit status on every run, and on success the same files with the same   *)
(* contents, whatever order Go's map iteration happens to produce.         *)
(*                                                                         *)
(* The world is a Recursive.tla world (package tree + configuration) plus  *)
(* a generation profile  W.g = [mode, layout, ents]:                       *)
(*   mode    "none"            no template-schema validation               *)
(*           "same"            one custom template, one schema everywhere  *)
(*           "differ-valid"    one custom template shared by packages that *)
(*                             write different template-schema values;     *)
(*                             every package's template-data is valid      *)
(*           "differ-invalid"  same, but the data of the packages using    *)
(*                             schema B violates B                         *)
(*           "unfetchable"     one custom template whose template-schema   *)
(*                             cannot be retrieved, shared by packages     *)
(*                             with MIXED require-template-schema-exists   *)
(*                             (true for even settings sources): a file    *)
(*                             that requires the schema fails, the others  *)
(*                             are rendered without validation             *)
(*   layout  "perpkg"  one output file per package (all its mocks in it)   *)
(*           "periface" one output file per interface                      *)
(*   ents    0 | 2     explicitly configured packages list their first     *)
(*                     interface with that many `configs` entries          *)
(* Every package has two interfaces (1, 2), declared in this order.        *)
(*                                                                         *)
(* Code-shaped layer: Recursive's Initialize twice, then RootApp.Run       *)
(* (internal/cmd/mockery.go:172-398): GetPackages ranges over the package  *)
(* map, the collections are built per parsed package, the per-file loop    *)
(* ranges over the mockFileToInterfaces map, the remote template cache     *)
(* (internal/template_generator.go:330-366) is shared by all files of the  *)
(* run.  EVERY map range is a nondeterministic pick from a pending set.    *)
(* Contract layer: ContractExit / ContractFS, defined without any order.   *)
(* TLC checks  Deterministic: every terminal state of every order has the  *)
(* contract's outcome.                                                     *)
(***************************************************************************)
EXTENDS Recursive

VARIABLES opc,      \* "init" (Initialize running) | "collect" | "files" | "exit"
          cpend,    \* packages whose interfaces are not yet collected (order of packages.Load results)
          colls,    \* file -> sequence of mocks [k, j, e] appended so far
          fpend,    \* output files not yet rendered (range over mockFileToInterfaces)
          cache,    \* remote template cache: key -> schema the cached RemoteTemplate was created with
          fs,       \* file -> written content
          exit      \* 9 while running, else the exit status

ovars == <<opc, cpend, colls, fpend, cache, fs, exit>>
allvars == <<W, pk, pc, pass, pending, recq, opc, cpend, colls, fpend, cache, fs, exit>>

Ifaces == {1, 2}
\* ------------------------------------------------------------------ the generation profile, by settings source
SchemaOf(s) == CASE W.g.mode = "none" -> "none"
                 [] W.g.mode = "same" -> "A"
                 [] W.g.mode = "unfetchable" -> "X"
                 [] OTHER             -> IF s % 2 = 1 THEN "A" ELSE "B"
\* schema A accepts any template-data; schema B requires the key `need`
DataHasNeed(s) == W.g.mode # "differ-invalid"
Requires(s) == W.g.mode # "unfetchable" \/ s % 2 = 0          \* require-template-schema-exists of source s
\* B requires the key `need`; X cannot be fetched, which is fatal exactly for a file that requires its schema
ValidAgainst(schema, s) == (schema # "B" \/ DataHasNeed(s)) /\ (schema # "X" \/ ~Requires(s))

EntriesOf(k, j) == IF W.on[k] /\ j = 1 /\ W.g.ents > 0 THEN [e \in 1..W.g.ents |-> e] ELSE <<0>>
FileOf(k, j) == IF W.g.layout = "perpkg" THEN <<k, 0>> ELSE <<k, j>>
AllFiles == {<<k, j>> : k \in 1..W.n, j \in {0, 1, 2}}

RECURSIVE MocksOfIface(_, _, _)
MocksOfIface(k, j, es) == IF es = << >> THEN << >> ELSE <<[k |-> k, j |-> j, e |-> Head(es)]>> \o MocksOfIface(k, j, Tail(es))
\* an interface is selected by `all` or by being listed (C07); explicitly configured packages list interface 1
Listed(k, j) == W.on[k] /\ j = 1 /\ W.g.ents > 0
MocksIf(k, j, allflag) == IF allflag \/ Listed(k, j) THEN MocksOfIface(k, j, EntriesOf(k, j)) ELSE << >>
MocksOfPkg(k, allflag) == MocksIf(k, 1, allflag) \o MocksIf(k, 2, allflag)                       \* declaration order
InFile(ms, f) == SelectSeq(ms, LAMBDA m : FileOf(m.k, m.j) = f)

\* ------------------------------------------------------------------ contract: the outcome, order free
CSrc(k) == CHOOSE s \in AllowedSrc(k) : TRUE                  \* order worlds have exactly one allowed source
CMocks(k) == IF CSrc(k) = 0 THEN << >> ELSE MocksOfPkg(k, CAll(CSrc(k)))
GenPk == {k \in 1..W.n : CMocks(k) # << >>}
ContractFiles == {f \in AllFiles : InFile(CMocks(f[1]), f) # << >>}
ContractExit == IF \E k \in GenPk : ~ValidAgainst(SchemaOf(CSrc(k)), CSrc(k)) THEN 1 ELSE 0
Content(k, f, src) == [mocks |-> InFile(CMocks(k), f), src |-> src, schema |-> SchemaOf(src), prefix |-> CPrefix(src)]
ContractFS == [f \in ContractFiles |-> Content(f[1], f, CSrc(f[1]))]

\* ------------------------------------------------------------------ worlds
\* Family = "order" in Recursive.tla: small trees, up to three configured packages, recursion on / not written, one
\* exclusion variant, times every generation profile (Profiles).  Order worlds have exactly one allowed settings
\* source per package (the open corner of C07 does not occur); a world where it did would simply not be run.
Decided == \A k \in 1..W.n : Cardinality(AllowedSrc(k)) = 1

\* ------------------------------------------------------------------ code-shaped: RootApp.Run after the second Initialize
NoColls == [f \in AllFiles |-> << >>]
OInit == /\ Init
         /\ opc = "init" /\ cpend = {} /\ colls = << >> /\ fpend = {} /\ cache = << >> /\ fs = << >> /\ exit = 9

Initialize == opc = "init" /\ pc # "done" /\ (Choosing \/ Decided) /\ Next /\ UNCHANGED ovars

\* GetPackages + ParsePackages: the package list is built by ranging over the map
StartRun == /\ opc = "init" /\ pc = "done"
            /\ cpend' = Present /\ opc' = "collect" /\ colls' = NoColls
            /\ UNCHANGED <<W, pk, pc, pass, pending, recq, fpend, cache, fs, exit>>

RECURSIVE AppendAll(_, _)
AppendAll(c, ms) == IF ms = << >> THEN c
                    ELSE LET m == Head(ms) f == FileOf(m.k, m.j) IN AppendAll([c EXCEPT ![f] = Append(c[f], m)], Tail(ms))

\* mockery.go:240-307 for all interfaces of one package (ShouldGenerateInterface: `all` or listed)
Collect(p) == /\ opc = "collect" /\ p \in cpend
              /\ colls' = AppendAll(colls, MocksOfPkg(p, pk[p].all = "T"))
              /\ cpend' = cpend \ {p}
              /\ IF cpend' = {} THEN opc' = "files" /\ fpend' = {f \in AllFiles : colls'[f] # << >>}
                                ELSE opc' = "collect" /\ fpend' = fpend
              /\ UNCHANGED <<W, pk, pc, pass, pending, recq, cache, fs, exit>>

\* mockery.go:309-376, one iteration: template (cache), schema, exec, format, exists, write
CacheKey(src) == <<"T", SchemaOf(src)>>              \* template_generator.go:344: template AND schema
FileStep(f) ==
  /\ opc = "files" /\ f \in fpend
  /\ LET k == f[1]
         src == pk[k].marker
         key == CacheKey(src)
         \* a cached RemoteTemplate keeps the schema URL it was created with
         cache2 == IF W.g.mode = "none" \/ key \in DOMAIN cache THEN cache
                   ELSE [x \in DOMAIN cache \cup {key} |-> IF x = key THEN SchemaOf(src) ELSE cache[x]]
         schema == IF W.g.mode = "none" THEN "none" ELSE cache2[key]
         ok == ValidAgainst(schema, src) IN
       /\ cache' = cache2
       /\ IF ok THEN /\ fs' = [g \in DOMAIN fs \cup {f} |-> IF g = f THEN [mocks |-> colls[f], src |-> src, schema |-> schema, prefix |-> pk[k].prefix] ELSE fs[g]]
                     /\ fpend' = fpend \ {f}
                     /\ IF fpend' = {} THEN opc' = "exit" /\ exit' = 0 ELSE opc' = "files" /\ exit' = exit
               ELSE /\ fs' = fs /\ fpend' = fpend /\ opc' = "exit" /\ exit' = 1
  /\ UNCHANGED <<W, pk, pc, pass, pending, recq, cpend, colls>>

NothingToDo == /\ opc = "files" /\ fpend = {} /\ opc' = "exit" /\ exit' = 0
               /\ UNCHANGED <<W, pk, pc, pass, pending, recq, cpend, colls, fpend, cache, fs>>

ONext == Initialize \/ StartRun \/ (\E p \in cpend : Collect(p)) \/ (\E f \in fpend : FileStep(f)) \/ NothingToDo
OSpec == OInit /\ [][ONext]_allvars

\* ------------------------------------------------------------------ the property
Deterministic == (opc = "exit" /\ ~Choosing) => (/\ exit = ContractExit
                                                 /\ (exit = 0 => fs = ContractFS))
InitializeOK == ImplRefinesContract
OTypeOK == opc \in {"init", "collect", "files", "exit"} /\ exit \in {9, 0, 1}
\* vacuity witnesses (must be violated): some run fails, some world has several output files
NeverFails == exit # 1
NeverSeveralFiles == Cardinality(fpend) < 3

\* ------------------------------------------------------------------ export (once per world, at its initial state)
IsInitial == opc = "init" /\ pass = 1 /\ pc = "loop1" /\ recq = << >> /\ pending = {k \in 1..W.n : W.on[k]} /\ Decided
RECURSIVE SetToSeq(_)
SetToSeq(S) == IF S = {} THEN << >> ELSE LET x == CHOOSE x \in S : TRUE IN <<x>> \o SetToSeq(S \ {x})
OCaseRec == [W |-> W, expect |-> Expect, patterns |-> ExclPatterns,
             outcome |-> [exit |-> ContractExit,
                          files |-> [i \in 1..Cardinality(ContractFiles) |->
                                       LET f == SetToSeq(ContractFiles)[i] IN [k |-> f[1], j |-> f[2], content |-> ContractFS[f]]],
                          generated |-> GenPk]]
OEmit == IF IsInitial THEN PrintT(<<"CASE", ToJson(OCaseRec)>>) ELSE TRUE
oview == <<W, pk, pc, pass, pending, SeqSet(recq), IF pc = "loop2" THEN recq ELSE << >>, opc, cpend, colls, fpend, cache, fs, exit>>
=============================================================================
