---------------------------- MODULE InitCmdConc ----------------------------
(***************************************************************************)
(* C18, concurrent histories: n `mockery init` commands started together   *)
(* on one absent target path.  "Writes a configuration file only if none   *)
(* exists; an existing file is never modified" quantifies over histories,  *)
(* and in every interleaving all but one command find the file existing.   *)
(*                                                                         *)
(* Contract (atomic): exactly one command reports success, and the file    *)
(* that survives is the one that command wrote (InitCmdContract!           *)
(* RaceAllowed + the load that follows in the op log).                     *)
(* Code-shaped layer, two versions selected by Atomic:                     *)
(*   TRUE   init.go:73-88  OpenExcl (O_CREATE|O_EXCL: check and create in  *)
(*          one system call), then Encode into the file it owns            *)
(*   FALSE  the split version: Check (stat), later Publish (write a        *)
(*          temporary file and rename it over the target)                  *)
(* TLC proves the contract for the atomic version under every interleaving *)
(* and shows the race in the split one (cfg InitCmdConc_split must FAIL).  *)
(***************************************************************************)
EXTENDS Naturals, FiniteSets, TLC, Json

CONSTANTS Ns,       \* numbers of concurrent commands explored
          Atomic

VARIABLES n,        \* commands in this behaviour
          file,     \* [owner |-> 0 (absent) or the command that created it, complete |-> its content is written]
          pc,       \* command -> "start" | "opened" | "checked" | "done"
          ok        \* command -> "-" | "yes" | "no"    (exit status 0 / not 0)
vars == <<n, file, pc, ok>>
MaxN == CHOOSE m \in Ns : \A k \in Ns : k <= m
Procs == 1..n

Init == /\ n \in Ns
        /\ file = [owner |-> 0, complete |-> FALSE]
        /\ pc = [p \in 1..MaxN |-> "start"]
        /\ ok = [p \in 1..MaxN |-> "-"]

Fail(p) == pc' = [pc EXCEPT ![p] = "done"] /\ ok' = [ok EXCEPT ![p] = "no"] /\ UNCHANGED <<n, file>>

\* init.go:73-79
OpenExcl(p) == /\ Atomic /\ pc[p] = "start"
               /\ IF file.owner # 0 THEN Fail(p)
                  ELSE file' = [owner |-> p, complete |-> FALSE] /\ pc' = [pc EXCEPT ![p] = "opened"] /\ UNCHANGED <<n, ok>>
\* init.go:81-88
Encode(p) == /\ Atomic /\ pc[p] = "opened"
             /\ file' = [owner |-> p, complete |-> TRUE]
             /\ pc' = [pc EXCEPT ![p] = "done"] /\ ok' = [ok EXCEPT ![p] = "yes"] /\ UNCHANGED n

\* split version: existence check first ...
Check(p) == /\ ~Atomic /\ pc[p] = "start"
            /\ IF file.owner # 0 THEN Fail(p) ELSE pc' = [pc EXCEPT ![p] = "checked"] /\ UNCHANGED <<n, file, ok>>
\* ... the finished temporary file renamed over whatever is there now
Publish(p) == /\ ~Atomic /\ pc[p] = "checked"
              /\ file' = [owner |-> p, complete |-> TRUE]
              /\ pc' = [pc EXCEPT ![p] = "done"] /\ ok' = [ok EXCEPT ![p] = "yes"] /\ UNCHANGED n

Next == \E p \in Procs : OpenExcl(p) \/ Encode(p) \/ Check(p) \/ Publish(p)
Spec == Init /\ [][Next]_vars

Done == \A p \in Procs : pc[p] = "done"
Winners == {p \in Procs : ok[p] = "yes"}

\* contract
ExactlyOneWinner == Done => Cardinality(Winners) = 1 /\ file.complete /\ file.owner \in Winners
NeverReplaced == [][file.owner # 0 => file'.owner = file.owner]_vars     \* an existing file is never modified
                                                                          \* (its creator completing it aside)

Emit == IF Done THEN PrintT(<<"CONC", ToJson([n |-> n, oks |-> 1])>>) ELSE TRUE
=============================================================================
