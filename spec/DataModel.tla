------------------------------ MODULE DataModel ------------------------------
(***************************************************************************)
(* C14 -- what the template data model must report for an interface, up to *)
(* the choice of fresh names and qualifiers (contract layer).              *)
(*                                                                         *)
(*   ExpMethod(m)   value of every boolean / fixed-string accessor of      *)
(*                  template.Method for a signature                        *)
(*   the name contract (checked on the real dump by DataModelTrace.tla):   *)
(*     EachMethodOnce, NamesDistinctValidUncaptured, TypeParamsReproduced  *)
(* What the *strings* denote (Declaration, ArgList, ArgTypeList, ...,      *)
(* TypeConstraint) is decided by the Go toolchain on a file a probe        *)
(* template assembles purely from the data model (c14.py).                 *)
(***************************************************************************)
EXTENDS Sig

IsErrorType(t) == t.k = "basic" /\ t.n = "error"
IsContext(t)   == t.k = "named" /\ t.p = "Scontext" /\ t.n = "Context"

\* template/var.go Nillable(): can the variable hold nil?  (var.go also answers true for arrays, which cannot: the
\* contract leaves arrays open -- "any" -- instead of copying that quirk.)
NillableNamed == {"I", "LI", "GI", "LGI", "RW", "LG2", "TI", "Reader", "Writer", "ReadWriter", "Context", "Stringer", "Locker", "LS", "EI", "LEI"}
ExpNillable(t) == CASE t.k \in {"ptr", "map", "iface", "func", "chan", "slice", "tp"} -> "true"
                    [] t.k = "array" -> "any"
                    [] t.k = "basic" -> IF t.n \in {"error", "any"} THEN "true" ELSE "false"
                    [] t.k \in {"named", "inst"} -> IF t.n \in NillableNamed THEN "true" ELSE IF t.n \in AliasNames THEN "any" ELSE "false"
                    [] OTHER -> "false"
\* every Param accessor, for the i-th parameter and for the i-th result: a RESULT IS NEVER VARIADIC
ExpParam(m, i)  == [variadic |-> m.va /\ i = Len(m.ps), nillable |-> ExpNillable(ParamType(m, i))]
ExpResult(m, i) == [variadic |-> FALSE, nillable |-> ExpNillable(m.rs[i].t)]

ExpMethod(m) ==
  [name            |-> m.n,
   nparams         |-> Len(m.ps),
   nreturns        |-> Len(m.rs),
   variadic        |-> m.va,                                               \* IsVariadic
   returnsError    |-> \E i \in 1..Len(m.rs) : IsErrorType(m.rs[i].t),     \* ReturnsError
   hasParams       |-> Len(m.ps) > 0,
   hasReturns      |-> Len(m.rs) > 0,
   returnStatement |-> IF Len(m.rs) > 0 THEN "return" ELSE "",
   acceptsContext  |-> Len(m.ps) > 0 /\ IsContext(ParamType(m, 1)),
   params          |-> [i \in 1..Len(m.ps) |-> ExpParam(m, i)],
   results         |-> [i \in 1..Len(m.rs) |-> ExpResult(m, i)]]

\* expectation for a target: each method of the method set exactly once (order free), the type parameters in order
\* (several interfaces may be rendered into one file: the expectation is per interface, never inherited from a neighbour)
ExpData(methods, tps) ==
  [methods |-> [i \in 1..Len(methods) |-> ExpMethod(methods[i])],
   tparams |-> [i \in 1..Len(tps) |-> tps[i].n]]

(* ------------------------------------------------------------------------ *)
(* Input classes of spec/DataModelShapes.tla (classification only: c14.py's  *)
(* vacuity guards ask TLC which exported programs contain them).            *)
\* ONE variable's type mentions a package again, the later mention being a generic instantiation with a type argument
\* from a package not met before (traversal order of the type term: the order in which a renderer meets the packages)
RECURSIVE RepW(_, _), RepSeq(_, _)
RepSeq(ts, acc) == IF ts = << >> THEN acc ELSE RepSeq(Tail(ts), RepW(Head(ts), acc))
RepVarTypes(vs) == [i \in 1..Len(vs) |-> vs[i].t]
RepW(t, acc) ==
  CASE t.k \in {"basic", "tp"} -> acc
    [] t.k = "unsafe" -> [acc EXCEPT !.seen = @ \cup {"Sunsafe"}]
    [] t.k = "named"  -> [acc EXCEPT !.seen = @ \cup {t.p}]
    [] t.k = "inst"   -> LET fresh == (UNION {RefPkgs(t.as[i]) : i \in 1..Len(t.as)}) \ (acc.seen \cup {t.p})
                         IN RepSeq(t.as, [seen |-> acc.seen \cup {t.p}, hit |-> acc.hit \/ (t.p \in acc.seen /\ fresh # {})])
    [] t.k \in {"ptr", "slice", "array", "chan"} -> RepW(t.e, acc)
    [] t.k = "map"    -> RepW(t.e, RepW(t.key, acc))
    [] t.k = "func"   -> RepSeq(RepVarTypes(t.rs), RepSeq(RepVarTypes(t.ps), acc))
    [] t.k = "struct" -> RepSeq([i \in 1..Len(t.fs) |-> t.fs[i].t], acc)
    [] t.k = "union"  -> RepSeq(t.ts, acc)
    [] t.k = "plain"  -> RepW(t.e, acc)
    [] t.k = "iface"  -> RepSeq(t.es, RepSeq(Flatten([i \in 1..Len(t.ms) |-> RepVarTypes(t.ms[i].ps) \o RepVarTypes(t.ms[i].rs)]), acc))
RepeatedPkgThenGenericArg(t) == RepW(t, [seen |-> {}, hit |-> FALSE]).hit
\* positions i whose parameter has the same go/types type as the next one (a variadic `...T` IS `[]T`): the pairs a
\* renderer may be tempted to merge; merging is Go only when both are SPELLED alike in the list
SameTypeAsNext(m) == {i \in 1..(Len(m.ps) - 1) : ParamType(m, i) = ParamType(m, i + 1)}
SliceThenVariadicOfElem(m) == m.va /\ (Len(m.ps) - 1) \in SameTypeAsNext(m)
=============================================================================
