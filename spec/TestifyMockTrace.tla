--------------------------- MODULE TestifyMockTrace ---------------------------
(* Trace validation for C03: the op log written by drivers/testifydrv (real, freshly generated mocks driven
   through EXPECT()/calls/cleanup with a recording TestingT) must be a behaviour of the CONTRACT layer of
   TestifyMock.tla.  Every logged reply is judged against ContractReply / ContractCleanup; a reply the
   contract rejects is reported (<<"MISMATCH", json>>, with the contract's and the code-shaped layer's
   replies) and the trace is not accepted; the model state then follows testify's bookkeeping so that one
   rejected reply does not hide later ones.  Many cases are concatenated with "reset" events. *)
EXTENDS TestifyMock

Trace == ndJsonDeserialize("trace.ndjson")
VARIABLE l
tvars == <<cls, exps, calls, nc, done, nby, byunmet, failed, last, hist, l>>

Ev == Trace[l]
IsEvent(e) == l <= Len(Trace) /\ Trace[l].op = e /\ l' = l + 1

\* callbacks are compared as bags (the order in which per-result providers are consulted is free)
SameCbs(want, got) ==
  /\ Len(want) = Len(got)
  /\ \A j \in 1..Len(want) : Cardinality({k \in 1..Len(got) : got[k].fn = want[j].fn /\ got[k].f = want[j].f /\ got[k].v = want[j].v}) = 1

Strict(want, got) ==
  /\ got.kind = want.kind
  /\ want.kind = "values" => got.vals = want.vals
  /\ want.kind = "panic" /\ want.names => got.names          \* the panic message names the method
  /\ want.kind = "failnow" => got.errorf > 0                 \* reported through Errorf before FailNow
  /\ SameCbs(want.cbs, got.cbs)

ReplyOK(want, got) == Strict(want, got) \/ (want.lenient /\ got.kind = "panic" /\ got.cbs = << >>)

Report(rec) == PrintT(<<"MISMATCH", ToJson(rec)>>) /\ TLCSet(1, TLCGet(1) + 1)

TraceInit == /\ cls = [id |-> "", names |-> << >>, pk |-> << >>, vk |-> "none", rk |-> << >>, unroll |-> "unset", nm |-> 1, gen |-> FALSE]
             /\ exps = << >> /\ calls = {} /\ nc = 0 /\ done = FALSE /\ failed = FALSE /\ nby = 0 /\ byunmet = FALSE /\ last = [op |-> "init"] /\ hist = << >>
             /\ l = 1
             /\ TLCSet(1, 0)

TReset == /\ IsEvent("reset")
          /\ cls' = Ev.class
          /\ exps' = << >> /\ calls' = {} /\ nc' = 0 /\ done' = FALSE /\ failed' = FALSE /\ nby' = 0 /\ byunmet' = FALSE
          /\ UNCHANGED <<last, hist>>

TExpect == /\ IsEvent("expect")
           /\ exps' = Append(exps, [m |-> Ev.m, ms |-> Ev.ms, style |-> Ev.style, rets |-> Ev.rets, rem |-> Ev.rem, total |-> 0])
           /\ UNCHANGED <<cls, calls, nc, done, nby, byunmet, failed, last, hist>>

\* the test's own t.Errorf (the recording TestingT reports Failed() from here on)
TUserErrorf == /\ IsEvent("usererrorf")
               /\ failed' = TRUE
               /\ UNCHANGED <<cls, exps, calls, nc, done, nby, byunmet, last, hist>>

TCall == /\ IsEvent("call")
         /\ LET as == Packed(cls, Ev.f, Ev.v)
                i == FindExpected(exps, Ev.m, as)
                want == ContractReply(cls, exps, Ev.m, Ev.f, Ev.v)
            IN /\ exps' = IF i = 0 THEN exps ELSE Consume(exps, i)
               /\ calls' = IF i = 0 THEN calls ELSE calls \cup {[m |-> Ev.m, as |-> as]}
               /\ IF ReplyOK(want, Ev.reply) THEN TRUE
                  ELSE Report([at |-> l, case |-> Ev.case, step |-> Ev.step, op |-> "call", matched |-> i,
                               style |-> IF i = 0 THEN "" ELSE exps[i].style,
                               expect |-> want, impl |-> ImplReply(cls, exps, Ev.m, Ev.f, Ev.v),
                               dev |-> Dev(cls, exps, Ev.m, Ev.f, Ev.v)])
               /\ failed' = (failed \/ i = 0)
         /\ nc' = nc + 1
         /\ UNCHANGED <<cls, done, nby, byunmet, last, hist>>

TCleanup == /\ IsEvent("cleanup")
            /\ LET want == CleanupWith(byunmet, ContractCleanup(exps, calls)) IN
               IF (want = "yes" => Ev.reply.reported) /\ (want = "no" => ~Ev.reply.reported) /\ Ev.reply.ncleanups >= 1
               THEN TRUE
               ELSE Report([at |-> l, case |-> Ev.case, step |-> Ev.step, op |-> "cleanup", matched |-> 0, style |-> "",
                            expect |-> want, impl |-> (byunmet \/ ImplCleanup(exps, calls)), dev |-> "none"])
            /\ done' = TRUE
            /\ UNCHANGED <<cls, exps, calls, nc, nby, byunmet, failed, last, hist>>

\* an "error" event (the driver could not perform the step) matches no action: the trace is rejected there
TBystander == /\ IsEvent("bystander")
              /\ nby' = nby + 1
              /\ byunmet' = (byunmet \/ Ev.kind = "unmet")
              /\ UNCHANGED <<cls, exps, calls, nc, done, failed, last, hist>>

TraceNext == TBystander \/ TReset \/ TExpect \/ TUserErrorf \/ TCall \/ TCleanup

TraceSpec == TraceInit /\ [][TraceNext]_tvars

Consumed == TLCGet("stats").diameter - 1
TraceAccepted == PrintT(<<"CONSUMED", Consumed, Len(Trace)>>) /\ PrintT(<<"REJECTED", TLCGet(1)>>)
                 /\ Consumed = Len(Trace) /\ TLCGet(1) = 0
=============================================================================
