--------------------------- MODULE TaggerWorktree ---------------------------
(***************************************************************************)
(* C20: the alphabet of WORK-TREE STATES of the Tagger world and what git  *)
(* itself calls dirty.  "only on a clean work tree" is judged the way git  *)
(* defines it: a work tree is clean iff `git status --porcelain` prints    *)
(* nothing.  A work-tree state is a set of path records                    *)
(*   [p : path, h : entry in HEAD, i : entry in the index,                 *)
(*    w : entry in the work tree, ign : matched by .gitignore,             *)
(*    how : concretisation hint (same git-visible state, other stat data)] *)
(* over a clean remainder (every other tracked path has h = i = w); an     *)
(* entry is a regular file (content, executable bit, trailing newline), a  *)
(* symbolic link (target), an (empty) directory or nothing.  The status    *)
(* git prints (staged column X from h/i, work-tree column Y from i/w,      *)
(* exact renames, untracked `?`, ignored `!`) is COMPUTED here from the    *)
(* three entries; the harness classifies what the real `git status` prints *)
(* against these computed sets (a set no kind computes = machinery error)  *)
(* and records git's own verdict (`gitclean`) next to it, which the trace  *)
(* spec compares with Clean().                                             *)
(***************************************************************************)
EXTENDS Naturals, FiniteSets, Sequences

WF(c)    == [t |-> "file", x |-> FALSE, c |-> c, nl |-> TRUE]    \* regular file 100644, content c + newline
WX(c)    == [t |-> "file", x |-> TRUE,  c |-> c, nl |-> TRUE]    \* regular file 100755
WRaw(c)  == [t |-> "file", x |-> FALSE, c |-> c, nl |-> FALSE]   \* regular file 100644, content c, no newline
WL(c)    == [t |-> "link", x |-> FALSE, c |-> c, nl |-> FALSE]   \* symbolic link to c (its blob is c without newline)
WDir     == [t |-> "dir",  x |-> FALSE, c |-> "", nl |-> FALSE]  \* an empty directory (git does not see it)
WNone    == [t |-> "none", x |-> FALSE, c |-> "", nl |-> FALSE]

\* every generation directory g<N>/ of the scratch repositories holds these tracked paths in every commit; the N-th
\* Touch of a history works in g<N>/ (an earlier Touch may have been committed)
WtBase == [p \in {"f.txt", "d.txt", "run.sh", "link"} |->
             CASE p = "f.txt" -> WF("content f") [] p = "d.txt" -> WF("content d")
               [] p = "run.sh" -> WX("#!/bin/sh") [] p = "link" -> WL("f.txt")]
WtHead(p) == IF p \in DOMAIN WtBase THEN WtBase[p] ELSE WNone

WP(p, i, w) == [p |-> p, h |-> WtHead(p), i |-> i, w |-> w, ign |-> FALSE, how |-> "inplace"]
How(r, m)  == [r EXCEPT !.how = m]
Ign(r)     == [r EXCEPT !.ign = TRUE]
Ff == WtHead("f.txt")
Fd == WtHead("d.txt")
Xr == WtHead("run.sh")
Lf == WtHead("link")
Fe == WF("content f, edited")

\* how: "inplace"   write / chmod the existing inode where the entry type allows it
\*      "replace"   unlink and create anew (another inode, new timestamps) even when nothing git sees changes
\*      "plumbing"  the index entry is made with `git update-index --chmod`, the work tree is not touched for it
\*      "touch"     only the mtime of the file changes
\*      "keepmtime" content of the same size is written and the old mtime restored (stat data looks unchanged)
WtKinds == <<
  [name |-> "clean",            paths |-> {}],
  \* ---- content
  [name |-> "modified",         paths |-> {WP("f.txt", Ff, Fe)}],
  [name |-> "staged",           paths |-> {WP("f.txt", Fe, Fe)}],
  [name |-> "staged-modified",  paths |-> {WP("f.txt", Fe, WF("content f, edited twice"))}],
  [name |-> "staged-reverted",  paths |-> {WP("f.txt", Fe, Ff)}],                       \* work tree = HEAD, index differs
  [name |-> "samesize",         paths |-> {How(WP("f.txt", Ff, WF("content g")), "keepmtime")}],
  \* ---- mode only (content = index blob)
  [name |-> "chmod",            paths |-> {WP("f.txt", Ff, WX("content f"))}],
  [name |-> "chmod-minus",      paths |-> {WP("run.sh", Xr, WF("#!/bin/sh"))}],
  [name |-> "chmod-staged",     paths |-> {WP("f.txt", WX("content f"), WX("content f"))}],
  [name |-> "chmod-index",      paths |-> {How(WP("f.txt", WX("content f"), Ff), "plumbing")}],
  [name |-> "replaced",         paths |-> {How(WP("f.txt", Ff, WX("content f")), "replace")}],  \* same content, other mode, new inode
  \* ---- nothing git sees (clean)
  [name |-> "rewritten",        paths |-> {How(WP("f.txt", Ff, Ff), "replace")}],
  [name |-> "touched",          paths |-> {How(WP("f.txt", Ff, Ff), "touch")}],
  [name |-> "emptydir",         paths |-> {WP("sub", WNone, WDir)}],
  [name |-> "ignored",          paths |-> {Ign(WP("x.log", WNone, WF("build output")))}],
  [name |-> "ignored-dir",      paths |-> {Ign(WP("sub/y.log", WNone, WF("build output")))}],
  \* ---- deletion, rename
  [name |-> "deleted",          paths |-> {WP("d.txt", Fd, WNone)}],
  [name |-> "deleted-staged",   paths |-> {WP("d.txt", WNone, WNone)}],
  [name |-> "rm-cached",        paths |-> {WP("d.txt", WNone, Fd)}],
  [name |-> "renamed",          paths |-> {WP("d.txt", WNone, WNone), WP("e.txt", Fd, Fd)}],
  [name |-> "moved",            paths |-> {WP("d.txt", Fd, WNone), WP("e.txt", WNone, Fd)}],
  \* ---- new paths
  [name |-> "untracked",        paths |-> {WP("u.txt", WNone, WF("new file"))}],
  [name |-> "untracked-dir",    paths |-> {WP("sub/u.txt", WNone, WF("new file"))}],
  [name |-> "added",            paths |-> {WP("n.txt", WF("new file"), WF("new file"))}],
  \* ---- symbolic links, type changes
  [name |-> "link-retarget",    paths |-> {WP("link", Lf, WL("d.txt"))}],
  [name |-> "typechange",       paths |-> {WP("f.txt", Ff, WL("d.txt"))}],
  [name |-> "typechange-staged", paths |-> {WP("f.txt", WL("d.txt"), WL("d.txt"))}],
  [name |-> "link-to-file",     paths |-> {WP("link", Lf, WRaw("f.txt"))}],                \* same blob, regular file now
  \* ---- combinations
  [name |-> "chmod+ignored",    paths |-> {WP("f.txt", Ff, WX("content f")), Ign(WP("x.log", WNone, WF("build output")))}],
  [name |-> "chmod-minus+rewritten", paths |-> {WP("run.sh", Xr, WF("#!/bin/sh")), How(WP("f.txt", Ff, Ff), "replace")}],
  [name |-> "modified+untracked", paths |-> {WP("f.txt", Ff, Fe), WP("u.txt", WNone, WF("new file"))}],
  [name |-> "rewritten+ignored+emptydir",
                                paths |-> {How(WP("f.txt", Ff, Ff), "replace"), Ign(WP("x.log", WNone, WF("build output"))),
                                           WP("sub", WNone, WDir)}],
  [name |-> "link-retarget+touched", paths |-> {WP("link", Lf, WL("d.txt")), How(WP("f.txt", Ff, Ff), "touch")}]
>>

WtNames == {WtKinds[k].name : k \in 1..Len(WtKinds)}
WtIndex(d) == CHOOSE k \in 1..Len(WtKinds) : WtKinds[k].name = d
WtPaths(d) == WtKinds[WtIndex(d)].paths

-----------------------------------------------------------------------------
(* what `git status --porcelain=v2 --ignored --untracked-files=all` prints, per path record *)
Present(e) == e.t \in {"file", "link"}                  \* git sees no (empty) directories
SX(r) == IF r.h = r.i THEN "."                           \* HEAD vs index
         ELSE IF r.h.t = "none" THEN "A"
         ELSE IF r.i.t = "none" THEN "D"
         ELSE IF r.h.t # r.i.t THEN "T" ELSE "M"
WY(r) == IF r.i.t = "none"                                \* index vs work tree
         THEN (IF ~Present(r.w) THEN "." ELSE IF r.ign THEN "!" ELSE "?")
         ELSE IF r.w = r.i THEN "."
         ELSE IF ~Present(r.w) THEN "D"
         ELSE IF r.w.t # r.i.t THEN "T" ELSE "M"

WE(a, c, p, o) == [a |-> a, c |-> c, p |-> p, o |-> o]    \* a: "s" staged column / "w" work-tree column
Renames(K) == {q \in K \X K : SX(q[1]) = "D" /\ SX(q[2]) = "A" /\ q[1].h = q[2].i}   \* exact renames (status.renames)
InRename(K, r) == \E q \in Renames(K) : r = q[1] \/ r = q[2]
StatusOfPaths(K) ==
  {WE("s", SX(r), r.p, "") : r \in {r \in K : SX(r) # "." /\ ~InRename(K, r)}}
  \cup {WE("s", "R", q[2].p, q[1].p) : q \in Renames(K)}
  \cup {WE("w", WY(r), r.p, "") : r \in {r \in K : WY(r) # "."}}
\* (constant-level tables: TLC evaluates each of them once)
WtStatusTab == [d \in WtNames |-> StatusOfPaths(WtPaths(d))]
WtStatus(d) == WtStatusTab[d]

\* git's definition: nothing but ignored paths in the status
WtCleanTab == [d \in WtNames |-> \A e \in WtStatusTab[d] : e.c = "!"]
WtClean(d) == WtCleanTab[d]

\* the first kind of WtKinds whose status is S
WtFirst(S) == WtKinds[CHOOSE k \in 1..Len(WtKinds) :
                        /\ WtStatusTab[WtKinds[k].name] = S
                        /\ \A j \in 1..(k - 1) : WtStatusTab[WtKinds[j].name] # S].name

\* work-tree states git cannot tell apart are one observation class, named after the first such kind
WtClassTab == [d \in WtNames |-> WtFirst(WtStatusTab[d])]
WtClass(d) == WtClassTab[d]

\* `git add -A; git commit`: everything but the ignored paths is committed
WtAfterCommitTab == [d \in WtNames |-> WtFirst({e \in WtStatusTab[d] : e.c = "!"})]
WtAfterCommit(d) == WtAfterCommitTab[d]

WtWellFormed ==
  /\ \A j, k \in 1..Len(WtKinds) : WtKinds[j].name = WtKinds[k].name => j = k
  /\ WtKinds[1].name = "clean" /\ WtKinds[1].paths = {}
  /\ \A k \in 1..Len(WtKinds) :
       LET K == WtKinds[k].paths IN
       /\ \A r, s \in K : r.p = s.p => r = s
       /\ \A r \in K : r.h = WtHead(r.p) /\ (r.ign => r.h.t = "none" /\ r.i.t = "none")
       /\ \E j \in 1..Len(WtKinds) : WtStatus(WtKinds[j].name) = {e \in WtStatus(WtKinds[k].name) : e.c = "!"}
ASSUME WtWellFormed
=============================================================================
