----------------------------- MODULE InitCmdMC -----------------------------
(* Model constants for InitCmd.tla.  Package strings are identified by ids; checks/c18.py holds the
   (total, injective) concretisation table id -> actual string, per world:
     root = the module path of the world,  sub = <module path>/sub,  w_* = the odd strings. *)
EXTENDS InitCmd, InitCmdDocs

\* the Go packages every world contains (sources in checks/c18.py, cross-checked at start-up)
\* sub: plain, unexported, methods + embedding, generic, second file, embedding-only (local / imported / instantiated
\* generic), empty.  Left open: constraint interfaces, aliases, a defined type over a named interface.
MCIfacesOf == [p \in {"root", "sub"} |-> IF p = "root" THEN {"R", "rr"} ELSE {"A", "b", "C", "G", "Z", "RW", "RC", "GS", "E"}]
MCMayOf == [p \in {"root", "sub"} |-> IF p = "root" THEN {} ELSE {"Num", "Cmp", "Mixed", "Al", "AlF", "Named"}]
MCImplExtraOf == [p \in {"root", "sub"} |-> IF p = "root" THEN {} ELSE {"Num", "Cmp", "Mixed"}]
ASSUME PrintT(<<"IFACES", ToJson(MCIfacesOf)>>)
ASSUME PrintT(<<"MAY", ToJson(MCMayOf)>>)
ASSUME PrintT(<<"DOCINIT", ToJson(MCDocInit)>>)
ASSUME PrintT(<<"DOCTABLE", ToJson(MCDocTable)>>)

MCRejectedPkgs == {"w_merge", "w_tabml"}
MCMangledPkgs == {"w_leadnl", "w_lsml", "w_nlonly"}

AllCfgs == CfgClasses
AllInits == UserKinds \cup {"absent"}
WX(id, pkgs, cfgs, inits, envs, ancs, mixes) == [id |-> id, pkgs |-> pkgs, gopkgs |-> pkgs \cap {"root", "sub", "mix"}, cfgs |-> cfgs, inits |-> inits, envs |-> envs, ancs |-> ancs, mixes |-> mixes]
WA(id, pkgs, cfgs, inits, envs, ancs) == WX(id, pkgs, cfgs, inits, envs, ancs, {{}})
\* a world whose package "mix" is made of one of the given sets of source-file classes
WM(id, cfgs, mixes) == WX(id, {"mix"}, cfgs, {"absent"}, {"none"}, {"none"}, mixes)
WE(id, pkgs, cfgs, inits, envs) == WA(id, pkgs, cfgs, inits, envs, {"none"})
W(id, pkgs, cfgs, inits) == WE(id, pkgs, cfgs, inits, {"none"})
AllEnvs == EnvClasses

\* init executed under MOCKERY_* configuration variables (none / one / several, boolean- and string-valued, the
\* config-file variable, a key init does not write, an unknown key); load and run in a clean environment
EnvQ == WE("env", {"sub", "w_colonsp"}, {"default", "rel"}, {"absent"}, AllEnvs)
\* an ancestor directory of the working directory (one or two levels up; inside the module when the working
\* directory is sub/, outside it otherwise) already holds a .mockery.yaml / .mockery.yml
AncQ == WA("anc", {"sub"}, {"default", "cwdsub"}, {"absent"}, {"none"}, AncClasses)
AncT == WA("anc", {"root", "sub", "w_colonsp"}, {"default", "cwdsub"}, {"absent"}, {"none", "several"}, AncClasses)
\* --config strings whose lexical cleaning differs from what the kernel resolves, with something present / absent
\* at both candidate places
\* file names with other extensions
ExtQ == W("ext", {"sub", "w_colonsp"}, ExtClasses, {"absent", "valid"})
ExtT == W("ext", {"root", "sub", "w_colonsp"}, ExtClasses, {"absent", "valid", "empty", "dangling"})
\* argument shapes other than one package
ArgsQ == W("args", {"sub", "a_none", "a_two"}, {"default", "rel"}, {"absent", "valid", "empty"})
SymQ == W("sym", {"sub", "w_colonsp"}, {"linkup", "linkupabs", "linkdir", "dslash"}, {"absent", "valid", "dangling"})
SymT == W("sym", {"root", "sub", "w_colonsp"}, {"linkup", "linkupabs", "linkdir", "dslash"}, AllInits)
EnvT == WE("env", {"root", "sub", "w_colonsp"}, {"default", "rel", "abs", "cwdsub", "after"}, {"absent", "dangling"}, AllEnvs)

\* main world: every --config class x every initial content, both Go packages and two odd strings
MainCfgs == AllCfgs \ ({"linkup", "linkupabs", "linkdir", "dslash"} \cup ExtClasses)      \* those four: world "sym"
Main == W("main", {"root", "sub", "w_colonsp", "w_brace", "a_none", "a_two"}, MainCfgs, AllInits)
MainQ == W("main", {"sub", "w_colonsp"}, MainCfgs \ {"reldot", "eqform"}, AllInits)     \* the two spelling variants: thorough only

\* worlds whose module path is itself YAML-significant: the package key `true`, `123`, ... must be written
\* quoted for the plain run to find the package
OddMods == {"m_true", "m_null", "m_int", "m_float", "m_yes", "m_hex", "m_on", "m_n", "m_date", "m_punct", "m_dot", "m_tilde"}
OddWorld(m) == W(m, {"root", "sub"}, {"default"}, {"absent"})

\* the odd strings, four per world, in a plain module
Odd1 == {"w_colon", "w_hash", "w_hash0", "w_brack"}
Odd2 == {"w_star", "w_amp", "w_squote", "w_dquote"}
Odd3 == {"w_dash", "w_dashsp", "w_space", "w_lead"}
Odd4 == {"w_trail", "w_pipe", "w_pct", "w_uni"}
Odd5 == {"w_null", "w_true", "w_int", "w_tilde"}
Odd6 == {"w_nl", "w_tab", "w_empty", "w_bang"}
Odd7 == {"w_at", "w_bt", "w_q", "w_merge"}
Odd8 == {"w_eq", "w_date", "w_long", "w_ctrl"}
Odd9 == {"w_bom", "w_emoji", "w_bs", "w_comma"}
Odd10 == {"w_gt", "w_pipe0", "w_dots", "w_mix"}
Odd11 == {"w_yes", "w_float", "w_crlf", "w_nbsp"}
Odd12 == {"w_ls", "w_del", "w_pipes", "w_tpl"}
Odd13 == {"w_leadnl", "w_tabml", "w_lsml", "w_nlonly"}
Odd14 == {"w_dslash", "w_dotrel", "w_upper", "w_trailsl"}
\* strings that are words of the config schema, and very long ones
\* `$`-forms (the referenced variable set and unset when the file is loaded), %VAR%, ~
Odd17 == {"w_dollar", "w_dollarbrace", "w_dollarset", "w_dollarunset"}
Odd18 == {"w_dollardollar", "w_dollardigit", "w_pctvar", "w_tildepath"}
Odd15 == {"w_kall", "w_kpackages", "w_kconfig", "w_ktd"}
Odd16 == {"w_kinterfaces", "w_kConfig", "w_longsp", "w_xlong"}
StrWorld(id, s) == W(id, s \cup {"sub"}, {"rel"}, {"absent"})
StrWorlds == {StrWorld("s1", Odd1), StrWorld("s2", Odd2), StrWorld("s3", Odd3), StrWorld("s4", Odd4),
              StrWorld("s5", Odd5), StrWorld("s6", Odd6), StrWorld("s7", Odd7), StrWorld("s8", Odd8),
              StrWorld("s9", Odd9), StrWorld("s10", Odd10), StrWorld("s11", Odd11), StrWorld("s12", Odd12), StrWorld("s13", Odd13), StrWorld("s14", Odd14), StrWorld("s15", Odd15), StrWorld("s16", Odd16), StrWorld("s17", Odd17), StrWorld("s18", Odd18)}

\* source-file classes (InitCmdContract!FileClass): every class next to a hand-written file, every class that is
\* compiled on its own (a package that is nothing but generated code), all of them together, all but the
\* hand-written one; thorough: every set of at most two classes and every set lacking at most one
InFiles == {f \in FileClasses : FileClass[f].status = "in"}
MixQ == {{"plain", f} : f \in FileClasses} \cup {{f} : f \in InFiles} \cup {FileClasses, FileClasses \ {"plain"}}
MixT == {m \in SUBSET FileClasses : Cardinality(m) <= 2 \/ Cardinality(m) >= Cardinality(FileClasses) - 1}
FilesQ == WM("files", {"default"}, MixQ)
FilesT == WM("files", {"default"}, MixT)
ASSUME PrintT(<<"FILECLASSES", ToJson(FileClass)>>)

OddModsQ == {"m_true", "m_null", "m_int", "m_float", "m_yes", "m_date", "m_punct", "m_hex"}
MCWorldsQuick == {MainQ, EnvQ, AncQ, SymQ, ArgsQ, ExtQ, FilesQ} \cup {OddWorld(m) : m \in OddModsQ} \cup StrWorlds
\* thorough: the same alphabets in more --config classes and initial contents
OddWorldT(m) == WE(m, {"root", "sub"}, {"default", "rel", "abs", "cwdsub", "after"}, {"absent", "valid"}, {"none", "several"})
StrWorldT(w) == W(w.id, w.pkgs, {"default", "rel", "abs", "subdir", "cwdsub", "eqform"}, {"absent", "valid", "empty", "twin", "link"})
MCWorldsThorough == {Main, EnvT, AncT, SymT, ExtT, FilesT} \cup {OddWorldT(m) : m \in OddMods} \cup {StrWorldT(w) : w \in StrWorlds}
=============================================================================
