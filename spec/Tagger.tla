------------------------------- MODULE Tagger -------------------------------
(***************************************************************************)
(* C20 -- the release tagger (/repo/tools/cmd/tag.go, root.go) as a state  *)
(* machine over a git repository, together with the things a maintainer    *)
(* does between invocations.                                               *)
(*                                                                         *)
(* Environment actions (a repository HISTORY):                             *)
(*   Commit           git add -A; git commit        (new commit, tree clean)*)
(*   Checkout(c)      git checkout --detach <c>     (HEAD /= branch tip)   *)
(*   UserTag(n, k)    git tag [-a] n                (lightweight/annotated)*)
(*   Alias(n, m)      git tag n m   (m annotated: n and m SHARE one tag    *)
(*                    object: major <- full, or an alias <- major)         *)
(*   Branch(n, w)     a branch / remote-tracking ref NAMED LIKE A TAG (v3)  *)
(*   Touch(d)         put the work tree into state d (TaggerWorktree.tla:  *)
(*                    content / mode-only / deletion / rename / untracked  *)
(*                    / ignored / symlink / type change / combinations)    *)
(*   Bump(v)          write another VERSION into mockery-tools.env (kept   *)
(*                    outside the work tree); only in the simulated long   *)
(*                    histories                                            *)
(* Code-shaped layer, one action per critical section of tag.go:           *)
(*   RunGate(flag)    newViper/ReadInConfig, NewTagger (validate),         *)
(*                    semver.NewVersion(VERSION), largestTagSemver,        *)
(*                    GreaterThan gate, worktree.Status gate, DryRun gate  *)
(*                                                    tag.go:22-66,88-213  *)
(*   RunTagFull       DeleteTag+CreateTag(v<version>) tag.go:67-84 (1st)   *)
(*   RunTagMajor      DeleteTag+CreateTag(v<major>)   tag.go:67-84 (2nd)   *)
(*   RunExit          process exit                    tag.go:28-47         *)
(* The contract (TaggerContract.tla) is checked on every RunExit step and  *)
(* the contract's set of allowed outcomes is exported with every run so    *)
(* that the harness can replay the history against the real binary.        *)
(***************************************************************************)
EXTENDS TaggerContract, Sequences, TLC, Json

CONSTANTS TagNames,     \* names the maintainer may create
          Kinds,        \* {"light", "annotated"}
          DirtyKinds,   \* Touch variants: work-tree states of TaggerWorktree.tla
          DeepDirtyKinds, \* the Touch variants that may come at any point of a history; the others only as its FIRST step
                        \*   (every state still meets every flag, request and one further maintainer action)
          Requests,     \* VERSION strings a behaviour may start with (the input)
          Flags,        \* {"absent", "true", "false"}
          BumpTo,       \* VERSION strings the maintainer may switch to between invocations ({} = never)
          BranchChoices,\* <<name, where>>: refs/heads/<name> (where = "branch"; "current" = HEAD attached to it) or
                        \*   refs/remotes/origin/<name> ("remote") that the maintainer may create: non-tag refs
                        \*   whose short names equal the tags the tool is about to create or move
          TreeNames,    \* names the maintainer may (mistakenly) put on a TREE object: a version-named ref that is no commit
          InitCommits,  \* the repository starts with commits 1..InitCommits: 1 <- 2 (branch main) and 1 <- 3 (branch
          InitHead,     \*   side), HEAD on main; so tags can sit on commits that are no ancestors of HEAD
          MaxCommits, MaxHist

VARIABLES tags,      \* name -> [c |-> commit, k |-> kind, s |-> name stored in the tag object when the ref was made from another tag's object, else ""]
          head,      \* commit HEAD resolves to
          ncommits,  \* commits are 1..ncommits
          dirty,     \* "clean" or a member of DirtyKinds
          version,   \* requested version (VERSION in mockery-tools.env); changes only by Bump
          pc,        \* "idle" | "full" | "major" | "exit"
          run,       \* the invocation in progress: [flag, pre, exit]
          brs,       \* NON-tag refs whose short name is a tag name: name -> "branch" | "current" | "remote"
          hist       \* observation: user-level operations so far (hidden by VIEW)

vars == <<tags, head, ncommits, dirty, version, pc, run, brs, hist>>
view == <<tags, head, ncommits, dirty, version, pc, run, brs>>

NoRun == [flag |-> "none"]
State == [tags |-> tags, head |-> head, dirty |-> dirty, version |-> version, other |-> "same"]

Init == /\ tags = << >>
        /\ brs = << >>
        /\ head = InitHead
        /\ ncommits = InitCommits
        /\ dirty = "clean"
        /\ version \in Requests
        /\ pc = "idle"
        /\ run = NoRun
        /\ hist = << >>

\* the maintainer (or a new invocation) acts only between invocations and while the history bound allows
Idle == pc = "idle" /\ Len(hist) < MaxHist

\* after a work-tree state outside DeepDirtyKinds a history continues only with an invocation, a lightweight user
\* tag (so that stale and newer requests both meet the state) or a commit (bounds the breadth-first search)
Deep == dirty = "clean" \/ dirty \in DeepDirtyKinds

Extend(f, k, v) == [x \in DOMAIN f \cup {k} |-> IF x = k THEN v ELSE f[x]]
Log(rec) == hist' = Append(hist, rec)

-----------------------------------------------------------------------------
(* environment *)
Commit == /\ Idle /\ ncommits < MaxCommits
          /\ ncommits' = ncommits + 1
          /\ head' = ncommits + 1
          /\ dirty' = WtAfterCommit(dirty)       \* `git add -A; git commit`: only ignored paths stay behind
          /\ Log([op |-> "commit"])
          /\ UNCHANGED <<tags, version, pc, run, brs>>

Checkout(c) == /\ Idle /\ Deep /\ c \in 1..ncommits /\ c # head /\ Clean(dirty)
               /\ head' = c
               /\ Log([op |-> "checkout", c |-> c])
               /\ UNCHANGED <<tags, ncommits, dirty, version, pc, run, brs>>

UserTag(n, k) == /\ Idle /\ n \notin DOMAIN tags /\ (Deep \/ k = "light")
                 /\ k = "tree" => n \in TreeNames          \* `git tag n HEAD^{tree}`: c = 0, no commit behind the ref
                 /\ tags' = Extend(tags, n, [c |-> IF k = "tree" THEN 0 ELSE head, k |-> k, s |-> ""])
                 /\ Log([op |-> "usertag", name |-> n, kind |-> k])
                 /\ UNCHANGED <<head, ncommits, dirty, version, pc, run, brs>>

\* a second ref on the tag OBJECT of an existing annotated tag (`git tag n m`): the floating major tag made
\* from a release tag (`git tag v3 v3.0.1`), and ANY name made from the major tag (`git tag latest v3`,
\* `git tag v3.0.1 v3; git tag v3.1.0 v3`: version-named refs whose tag object says "v3").
IsMajorName(x) == \E r \in DOMAIN ReqTable : ReqTable[r].valid /\ ReqTable[r].majorname = x
Alias(n, m) == /\ Idle /\ Deep /\ n \notin DOMAIN tags /\ m \in DOMAIN tags /\ tags[m].k = "annotated"
               /\ IsMajorName(n) \/ IsMajorName(m)
               /\ tags' = Extend(tags, n, [c |-> tags[m].c, k |-> "annotated",
                                            s |-> IF tags[m].s = "" THEN m ELSE tags[m].s])   \* name inside the shared object
               /\ Log([op |-> "alias", name |-> n, src |-> m])
               /\ UNCHANGED <<head, ncommits, dirty, version, pc, run, brs>>

\* `git branch v3`, `git checkout -b v3`, `git update-ref refs/remotes/origin/v3 HEAD`: the ref namespace now holds
\* a non-tag ref with the short name of a tag.  Nothing in the contract or in the code under test depends on it
\* (tags are looked up under refs/tags/ only); it is part of "everything else", which must stay as it is.
Branch(n, w) == /\ Idle /\ Deep /\ <<n, w>> \in BranchChoices /\ n \notin DOMAIN brs /\ Clean(dirty)
                /\ brs' = Extend(brs, n, w)
                /\ Log([op |-> "branch", name |-> n, where |-> w])
                /\ UNCHANGED <<tags, head, ncommits, dirty, version, pc, run>>

Touch(d) == /\ Idle /\ dirty = "clean"
            /\ d \in DeepDirtyKinds \/ Len(hist) = 0
            /\ dirty' = d
            \* the work-tree state (entries per path), the status git must print for it, its observation class and
            \* whether git calls it clean are exported with the step; the harness only concretises the entries
            /\ Log([op |-> "touch", kind |-> d, class |-> WtClass(d), clean |-> Clean(d),
                    paths |-> WtPaths(d), status |-> WtStatus(d), base |-> WtBase])
            /\ UNCHANGED <<tags, head, ncommits, version, pc, run, brs>>

Bump(v) == /\ Idle /\ v # version
           /\ version' = v
           /\ Log([op |-> "bump", version |-> v, was |-> version])
           /\ UNCHANGED <<tags, head, ncommits, dirty, pc, run, brs>>

-----------------------------------------------------------------------------
(* the tagger, shaped like the code *)

Zero == [maj |-> 0, min |-> 0, pat |-> 0, pre |-> 0]

\* tag.go:88-153  largestTagSemver: names with fewer than three dot-separated parts are skipped, every
\* other name must parse (lenient NewVersion) or the run fails; the largest version of the requested
\* major, starting from v0.0.0.
\* tag.go:101-125 (af42c68): the version a tag stands for is the name of the REF, also for annotated tags whose
\* object carries another name (refs made with Alias)
Considered == {n \in DOMAIN tags : NameTable[n].dots3}
LargestFails == \E n \in Considered : ~NameTable[n].parsable
Largest(major) ==
  LET S == {n \in Considered : NameTable[n].maj = major}
      Ge(a, b) == ~VLess(NameTable[a], NameTable[b])
  IN IF S = {} \/ \A n \in S : ~VLess(Zero, NameTable[n]) THEN Zero
     ELSE LET m == CHOOSE m \in S : \A n \in S : Ge(m, n) IN
          [maj |-> NameTable[m].maj, min |-> NameTable[m].min, pat |-> NameTable[m].pat, pre |-> NameTable[m].pre]

\* decision of everything before createTag: "error" | "nothing" | "dry" | "go"
Gate(flag) ==
  IF ~ReqValid(version) THEN "error"                         \* root.go:27-37, tag.go:155-167,181-185
  ELSE IF LargestFails THEN "error"                          \* tag.go:130-134
  ELSE IF ~VLess(Largest(ReqTable[version].maj), ReqTable[version]) THEN "nothing"   \* tag.go:196-200
  ELSE IF ~Clean(dirty) THEN "error"                         \* tag.go:202-213
  ELSE IF flag # "false" THEN "dry"                          \* tag.go:62-65 (flag default true, bound to v)
  ELSE "go"

RunGate(flag) ==
  /\ Idle
  /\ LET g == Gate(flag) IN
     /\ run' = [flag |-> flag, pre |-> State,
                exit |-> CASE g = "error" -> "error" [] g = "nothing" -> "nothing" [] OTHER -> "ok"]
     /\ pc' = IF g = "go" THEN "full" ELSE "exit"
  /\ UNCHANGED <<tags, head, ncommits, dirty, version, hist, brs>>

\* tag.go:67-84: DeleteTag (failure ignored) then CreateTag with a Tagger => annotated tag at repo.Head()
RunTagFull ==
  /\ pc = "full"
  /\ tags' = Extend(tags, FullName(version), [c |-> head, k |-> "annotated", s |-> ""])
  /\ pc' = "major"
  /\ UNCHANGED <<head, ncommits, dirty, version, run, hist, brs>>

RunTagMajor ==
  /\ pc = "major"
  /\ tags' = Extend(tags, MajorName(version), [c |-> head, k |-> "annotated", s |-> ""])
  /\ pc' = "exit"
  /\ UNCHANGED <<head, ncommits, dirty, version, run, hist, brs>>

\* the existing full version tags of the requested major with their relation to the request (used by the harness
\* only to make sure every (request, existing tag) relation TLC generated is among the replayed cases)
SameMajorFull(st) ==
  IF ~ReqValid(st.version) THEN << >>
  ELSE [n \in Blocking(st.tags, st.version) |->
          [ge |-> ~VLess(NameTable[n], ReqTable[st.version]), k |-> st.tags[n].k, shared |-> st.tags[n].s # ""]]

RunExit ==
  /\ pc = "exit"
  /\ pc' = "idle"
  /\ run' = NoRun
  /\ Log([op |-> "run", flag |-> run.flag,
          pre |-> [tags |-> run.pre.tags, head |-> run.pre.head, dirty |-> WtClass(run.pre.dirty)],
          wt |-> run.pre.dirty,                                        \* the work-tree state (kind) behind the class
          clean |-> Clean(run.pre.dirty),                              \* git's definition, computed in TaggerWorktree
          newer |-> StrictlyNewer(run.pre.tags, run.pre.version),      \* the version gate alone
          permitted |-> Permitted(run.pre, run.flag),
          gates |-> GatesPass(run.pre),
          same |-> SameMajorFull(run.pre),                              \* the tags the version gate is about
          allowed |-> Allowed(run.pre, run.flag),                       \* the contract's verdict table
          impl |-> [tags |-> tags, exit |-> run.exit]])                 \* what the code-shaped layer predicts
  /\ UNCHANGED <<tags, head, ncommits, dirty, version, brs>>

Next == \/ Commit
        \/ \E c \in 1..MaxCommits : Checkout(c)
        \/ \E n \in TagNames, k \in Kinds \cup {"tree"} : UserTag(n, k)
        \/ \E n \in TagNames, m \in TagNames : Alias(n, m)
        \/ \E d \in DirtyKinds : Touch(d)
        \/ \E b \in BranchChoices : Branch(b[1], b[2])
        \/ \E v \in BumpTo : Bump(v)
        \/ \E f \in Flags : RunGate(f)
        \/ RunTagFull \/ RunTagMajor \/ RunExit

Spec == Init /\ [][Next]_vars

\* Long random histories (TLC -simulate): every second user-level step is an invocation, so a history of
\* MaxHist steps contains MaxHist \div 2 invocations interleaved with maintainer actions.
SimNext == \/ /\ Len(hist) % 2 = 1
              /\ \E f \in Flags : RunGate(f)
           \/ /\ Len(hist) % 2 = 0
              /\ \/ Commit
                 \/ \E c \in 1..MaxCommits : Checkout(c)
                 \/ \E n \in TagNames, k \in Kinds \cup {"tree"} : UserTag(n, k)
                 \/ \E n \in TagNames, m \in DOMAIN tags : Alias(n, m)
                 \/ \E d \in DirtyKinds : Touch(d)
                 \/ \E b \in BranchChoices : Branch(b[1], b[2])
                 \/ \E v \in BumpTo : Bump(v)
           \/ RunTagFull \/ RunTagMajor \/ RunExit
SimSpec == Init /\ [][SimNext]_vars

-----------------------------------------------------------------------------
(* Impl => Contract, checked on every generated RunExit transition (action properties are evaluated
   for every transition, also into states already seen). *)
Exiting == pc = "exit" /\ pc' = "idle"

ContractHolds     == [][Exiting => RunContract(run.pre, run.flag, State, run.exit)]_vars
PDryRunIsDefault  == [][Exiting => DryRunIsDefault(run.pre, run.flag, State)]_vars
POnlyWhenClean    == [][Exiting => OnlyWhenClean(run.pre, run.flag, State)]_vars
POnlyNewer        == [][Exiting => OnlyStrictlyNewer(run.pre, run.flag, State)]_vars
PExactlyTwoRefs   == [][Exiting => ExactlyTwoRefs(run.pre, run.flag, State)]_vars
PExitSignals      == [][Exiting => ExitSignals(run.pre, run.flag, State, run.exit)]_vars
\* between invocations and while one runs nothing but the two tag refs is written
PFrame            == [][pc # "idle" => head' = head /\ dirty' = dirty /\ ncommits' = ncommits /\ version' = version]_vars

TypeOK == /\ DOMAIN tags \subseteq DOMAIN NameTable
          /\ \A n \in DOMAIN tags : tags[n].c \in 0..ncommits /\ tags[n].k \in Kinds \cup {"tree"}
          /\ head \in 1..ncommits
          /\ pc \in {"idle", "full", "major", "exit"}
          /\ TagNames \subseteq DOMAIN NameTable
          /\ DirtyKinds \subseteq WtNames /\ dirty \in WtNames
          /\ \A r \in Requests : r \in DOMAIN ReqTable /\
               (ReqTable[r].valid => {ReqTable[r].fullname, ReqTable[r].majorname} \subseteq DOMAIN NameTable)

-----------------------------------------------------------------------------
(* Export.  The state constraint is evaluated for every generated successor: every RunExit transition
   is printed once with a representative (shortest) history leading to it, so every (repository
   state, flag) pair TLC reaches becomes one replay against the real binary.  The abstraction tables
   are printed once so the harness can check them against Masterminds/semver. *)
Names == DOMAIN NameTable
Reqs == DOMAIN ReqTable
InitialVersion == LET B == {i \in 1..Len(hist) : hist[i].op = "bump"}
                  IN IF B = {} THEN version ELSE hist[CHOOSE i \in B : \A j \in B : i <= j].was
Emit ==
  IF Len(hist) = 0
  THEN IF pc = "idle" /\ version = CHOOSE r \in Requests : TRUE
       THEN PrintT(<<"TABLE", ToJson([names |-> NameTable, reqs |-> ReqTable,
                                      wt |-> [base |-> WtBase, used |-> DirtyKinds,
                                              kinds |-> [d \in WtNames |-> [status |-> WtStatus(d), class |-> WtClass(d),
                                                                            clean |-> Clean(d), aftercommit |-> WtAfterCommit(d)]]],
                                      less |-> {<<a, b>> \in Names \X Names :
                                                  NameTable[a].parsable /\ NameTable[b].parsable /\ VLess(NameTable[a], NameTable[b])},
                                      reqless |-> {<<r, n>> \in Reqs \X Names :
                                                  ReqTable[r].valid /\ NameTable[n].parsable /\ VLess(ReqTable[r], NameTable[n])},
                                      reqgreater |-> {<<r, n>> \in Reqs \X Names :
                                                  ReqTable[r].valid /\ NameTable[n].parsable /\ VLess(NameTable[n], ReqTable[r])}])>>)
       ELSE TRUE
  ELSE IF hist[Len(hist)].op = "run" /\ pc = "idle"
       THEN PrintT(<<"CASE", ToJson([version |-> InitialVersion, ops |-> hist])>>)
       ELSE TRUE
EmitSim == IF Len(hist) = MaxHist /\ pc = "idle"
           THEN PrintT(<<"CASE", ToJson([version |-> InitialVersion, ops |-> hist])>>) ELSE TRUE
=============================================================================
